module github.com/matryer/moq/verifharness

go 1.24

require (
	github.com/matryer/moq v0.0.0
	golang.org/x/tools v0.30.0
)

require (
	golang.org/x/mod v0.23.0 // indirect
	golang.org/x/sync v0.11.0 // indirect
)

replace github.com/matryer/moq => /repo
