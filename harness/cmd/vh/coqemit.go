package main

import (
	"fmt"
	"os"
	"strings"
)

// coqStr renders a Go string as a Coq string term. Printable ASCII, tab and
// newline go into a literal; any other byte is spliced in by its code.
func coqStr(s string) string {
	var b strings.Builder
	open := false
	parts := 0
	flush := func() {
		if open {
			b.WriteString(`"`)
			open = false
		}
	}
	start := func() {
		if !open {
			if parts > 0 {
				b.WriteString(" ++ ")
			}
			b.WriteString(`"`)
			open = true
			parts++
		}
	}
	for i := 0; i < len(s); i++ {
		c := s[i]
		switch {
		case c == '"':
			start()
			b.WriteString(`""`)
		case c == '\n' || c == '\t' || (c >= 32 && c < 127):
			start()
			b.WriteByte(c)
		default:
			flush()
			if parts > 0 {
				b.WriteString(" ++ ")
			}
			fmt.Fprintf(&b, "String (ascii_of_nat %d) EmptyString", c)
			parts++
		}
	}
	flush()
	if parts == 0 {
		return `""`
	}
	if parts > 1 {
		return "(" + b.String() + ")"
	}
	return b.String()
}

func coqBool(b bool) string {
	if b {
		return "true"
	}
	return "false"
}

func coqList(items []string) string {
	return "[" + strings.Join(items, "; ") + "]"
}

func coqStrList(ss []string) string {
	items := make([]string, len(ss))
	for i, s := range ss {
		items[i] = coqStr(s)
	}
	return coqList(items)
}

// writeIfChanged keeps mtimes stable so that make does not rebuild needlessly.
func writeIfChanged(path string, content []byte) error {
	old, err := os.ReadFile(path)
	if err == nil && string(old) == string(content) {
		return nil
	}
	return os.WriteFile(path, content, 0o644)
}

func die(format string, a ...interface{}) {
	fmt.Fprintf(os.Stderr, "vh: "+format+"\n", a...)
	os.Exit(2)
}
