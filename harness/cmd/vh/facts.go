package main

import (
	"bufio"
	"bytes"
	"encoding/json"
	"flag"
	"fmt"
	"go/ast"
	"go/parser"
	"go/printer"
	"go/token"
	"os"
	"path/filepath"
	"strconv"
	"strings"
	"sync"

	"golang.org/x/tools/go/packages"
)

func init() { subcommands["facts"] = cmdFacts }

// FactsReq asks for the analysis of one generated file.
type FactsReq struct {
	ID        string `json:"id"`
	Dir       string `json:"dir"`  // source package directory
	Pkg       string `json:"pkg"`  // -pkg flag value
	Text      string `json:"text"` // generated source
	Typecheck bool   `json:"typecheck"`
}

type NameType struct {
	Name string `json:"name"`
	Type string `json:"type"`
}

type MethodFacts struct {
	Name       string     `json:"name"`
	RecvTP     []string   `json:"recv_tparams"`
	Params     []NameType `json:"params"`
	Results    []NameType `json:"results"`
	Variadic   bool       `json:"variadic"`
	Body       []string   `json:"body"` // lifted instructions as Coq terms
	BodyHasUnk bool       `json:"body_unknown"`
}

type MockFacts struct {
	Name      string                `json:"name"`
	TParams   []NameType            `json:"tparams"`
	Ensure    string                `json:"ensure"` // "I[args] = &M[args]{}" text or ""
	Funcs     map[string]string     `json:"funcs"`  // XFunc -> func type text
	FuncOrder []string              `json:"func_order"`
	Records   map[string][]NameType `json:"records"` // method -> call record fields
	Locks     map[string]string     `json:"locks"`   // lockX -> type text
	Methods   []MethodFacts         `json:"methods"` // every method with receiver *Name, in file order
	DocIface  string                `json:"doc_iface"`
}

type Facts struct {
	ID         string      `json:"id"`
	ParseError string      `json:"parse_error,omitempty"`
	FirstLine  string      `json:"first_line"`
	PkgName    string      `json:"pkg_name"`
	Imports    []NameType  `json:"imports"` // name = alias ("" if none), type = path
	Mocks      []MockFacts `json:"mocks"`
	TopDecls   []string    `json:"top_decls"`
	TypeErrors []string    `json:"type_errors"`
	ErrorSites []string    `json:"error_sites"` // where in the generated file each diagnostic points: stub_block:<method> | body:<method> | decl
	TypeCheck  string      `json:"typecheck"` // ok | errors | skipped:<why>
	Coq        string      `json:"coq,omitempty"` // list mmock term
}

func cmdFacts(args []string) {
	fs := flag.NewFlagSet("facts", flag.ExitOnError)
	in := fs.String("in", "", "JSONL of FactsReq")
	out := fs.String("out", "", "JSONL of Facts")
	par := fs.Int("j", 16, "parallelism")
	fs.Parse(args)
	f, err := os.Open(*in)
	if err != nil {
		die("%v", err)
	}
	var reqs []FactsReq
	sc := bufio.NewScanner(f)
	sc.Buffer(make([]byte, 1<<20), 64<<20)
	for sc.Scan() {
		var r FactsReq
		if json.Unmarshal(sc.Bytes(), &r) == nil {
			reqs = append(reqs, r)
		}
	}
	f.Close()
	res := make([]Facts, len(reqs))
	var wg sync.WaitGroup
	sem := make(chan struct{}, *par)
	for i := range reqs {
		wg.Add(1)
		sem <- struct{}{}
		go func(i int) {
			defer wg.Done()
			defer func() { <-sem }()
			res[i] = analyze(reqs[i])
		}(i)
	}
	wg.Wait()
	of, err := os.Create(*out)
	if err != nil {
		die("%v", err)
	}
	w := bufio.NewWriter(of)
	enc := json.NewEncoder(w)
	for _, r := range res {
		enc.Encode(r)
	}
	w.Flush()
	of.Close()
}

func nodeText(fset *token.FileSet, n ast.Node) string {
	if n == nil {
		return ""
	}
	var b bytes.Buffer
	printer.Fprint(&b, fset, n)
	return strings.Join(strings.Fields(b.String()), " ")
}

func fieldList(fset *token.FileSet, fl *ast.FieldList) (out []NameType, variadic bool) {
	if fl == nil {
		return nil, false
	}
	for _, f := range fl.List {
		t := f.Type
		if el, ok := t.(*ast.Ellipsis); ok {
			variadic = true
			_ = el
		}
		ts := nodeText(fset, t)
		if len(f.Names) == 0 {
			out = append(out, NameType{"", ts})
		}
		for _, n := range f.Names {
			out = append(out, NameType{n.Name, ts})
		}
	}
	return
}

func analyze(r FactsReq) (fx Facts) {
	fx.ID = r.ID
	defer func() {
		if e := recover(); e != nil {
			fx.ParseError = fmt.Sprint("analysis panic: ", e)
		}
	}()
	if i := strings.IndexByte(r.Text, '\n'); i >= 0 {
		fx.FirstLine = r.Text[:i]
	} else {
		fx.FirstLine = r.Text
	}
	fset := token.NewFileSet()
	file, err := parser.ParseFile(fset, "gen.go", r.Text, parser.ParseComments)
	if err != nil {
		fx.ParseError = err.Error()
		fx.TypeCheck = "skipped:parse error"
		return
	}
	fx.PkgName = file.Name.Name
	for _, im := range file.Imports {
		alias := ""
		if im.Name != nil {
			alias = im.Name.Name
		}
		p, _ := strconv.Unquote(im.Path.Value)
		fx.Imports = append(fx.Imports, NameType{alias, p})
	}
	mocks := map[string]*MockFacts{}
	var order []string
	var pendingEnsure []string
	for _, d := range file.Decls {
		switch d := d.(type) {
		case *ast.GenDecl:
			for _, sp := range d.Specs {
				switch sp := sp.(type) {
				case *ast.TypeSpec:
					fx.TopDecls = append(fx.TopDecls, "type "+sp.Name.Name)
					st, ok := sp.Type.(*ast.StructType)
					if !ok {
						continue
					}
					m := &MockFacts{Name: sp.Name.Name, Funcs: map[string]string{}, Records: map[string][]NameType{}, Locks: map[string]string{}}
					if sp.TypeParams != nil {
						m.TParams, _ = fieldList(fset, sp.TypeParams)
					}
					if d.Doc != nil {
						for _, c := range d.Doc.List {
							if i := strings.Index(c.Text, " is a mock implementation of "); i >= 0 {
								m.DocIface = strings.TrimSuffix(c.Text[i+len(" is a mock implementation of "):], ".")
							}
						}
					}
					for _, f := range st.Fields.List {
						for _, n := range f.Names {
							switch {
							case n.Name == "calls":
								if cs, ok := f.Type.(*ast.StructType); ok {
									for _, cf := range cs.Fields.List {
										var fields []NameType
										if at, ok := cf.Type.(*ast.ArrayType); ok {
											if rs, ok := at.Elt.(*ast.StructType); ok {
												fields, _ = fieldList(fset, rs.Fields)
											}
										}
										for _, cn := range cf.Names {
											m.Records[cn.Name] = fields
										}
									}
								}
							case strings.HasPrefix(n.Name, "lock"):
								m.Locks[n.Name] = nodeText(fset, f.Type)
							default:
								m.Funcs[n.Name] = nodeText(fset, f.Type)
								m.FuncOrder = append(m.FuncOrder, n.Name)
							}
						}
					}
					mocks[m.Name] = m
					order = append(order, m.Name)
				case *ast.ValueSpec:
					for _, n := range sp.Names {
						fx.TopDecls = append(fx.TopDecls, "var "+n.Name)
					}
					if len(sp.Names) == 1 && sp.Names[0].Name == "_" && len(sp.Values) == 1 {
						pendingEnsure = append(pendingEnsure, nodeText(fset, sp.Type)+" = "+nodeText(fset, sp.Values[0]))
					}
				}
			}
		case *ast.FuncDecl:
			if d.Recv == nil || len(d.Recv.List) != 1 {
				fx.TopDecls = append(fx.TopDecls, "func "+d.Name.Name)
				continue
			}
			rt := d.Recv.List[0].Type
			if st, ok := rt.(*ast.StarExpr); ok {
				rt = st.X
			}
			var recvTP []string
			switch x := rt.(type) {
			case *ast.IndexExpr:
				recvTP = append(recvTP, nodeText(fset, x.Index))
				rt = x.X
			case *ast.IndexListExpr:
				for _, ix := range x.Indices {
					recvTP = append(recvTP, nodeText(fset, ix))
				}
				rt = x.X
			}
			id, ok := rt.(*ast.Ident)
			if !ok {
				continue
			}
			m := mocks[id.Name]
			if m == nil {
				continue
			}
			mf := MethodFacts{Name: d.Name.Name, RecvTP: recvTP}
			mf.Params, mf.Variadic = fieldList(fset, d.Type.Params)
			mf.Results, _ = fieldList(fset, d.Type.Results)
			recvName := ""
			if len(d.Recv.List[0].Names) == 1 {
				recvName = d.Recv.List[0].Names[0].Name
			}
			mf.Body, mf.BodyHasUnk = liftBody(fset, d, recvName)
			m.Methods = append(m.Methods, mf)
		}
	}
	// ensure lines: "X[..] = &M[..]{}" attach by mock name
	for _, e := range pendingEnsure {
		for _, name := range order {
			if strings.Contains(e, "= &"+name+"{") || strings.Contains(e, "= &"+name+"[") {
				mocks[name].Ensure = e
			}
		}
	}
	for _, name := range order {
		fx.Mocks = append(fx.Mocks, *mocks[name])
	}
	fx.Coq = coqMocks(fx.Mocks)
	if r.Typecheck {
		var positions []string
		fx.TypeCheck, fx.TypeErrors, positions = typecheckGenerated(r, fx.PkgName)
		for _, pos := range positions {
			fx.ErrorSites = append(fx.ErrorSites, errorSite(fset, file, pos))
		}
	} else {
		fx.TypeCheck = "skipped:not requested"
	}
	return
}

// typecheckGenerated type-checks the generated file in its destination package:
// together with the source package's files when the package names agree, as the
// external test package for <src>_test, and as a separate package in a fresh
// sibling directory otherwise.  Uses a go/packages overlay; nothing is written.
// errorSite classifies a diagnostic position ("file:line:col") inside the generated file.
func errorSite(fset *token.FileSet, file *ast.File, pos string) string {
	parts := strings.Split(pos, ":")
	if len(parts) < 3 || !(strings.Contains(parts[len(parts)-3], "zz_generated_moq") || strings.HasSuffix(parts[len(parts)-3], "gen.go")) {
		return "elsewhere"
	}
	line, err := strconv.Atoi(parts[len(parts)-2])
	if err != nil {
		return "decl"
	}
	for _, d := range file.Decls {
		if gd, ok := d.(*ast.GenDecl); ok && gd.Tok == token.VAR && len(gd.Specs) == 1 {
			// the self-check line: var _ Iface = &Mock{}
			if vs, ok := gd.Specs[0].(*ast.ValueSpec); ok && len(vs.Names) == 1 && vs.Names[0].Name == "_" &&
				fset.Position(gd.Pos()).Line <= line && line <= fset.Position(gd.End()).Line {
				return "ensure"
			}
		}
		fd, ok := d.(*ast.FuncDecl)
		if !ok || fd.Body == nil {
			continue
		}
		if fset.Position(fd.Pos()).Line <= line && line <= fset.Position(fd.End()).Line {
			for _, st := range fd.Body.List {
				if is, ok := st.(*ast.IfStmt); ok {
					if fset.Position(is.Pos()).Line <= line && line <= fset.Position(is.End()).Line {
						// the nil branch: panic (default) or the zero-value block (-stub)
						for _, s := range is.Body.List {
							if _, ok := s.(*ast.DeclStmt); ok {
								return "stub_block:" + fd.Name.Name
							}
							if _, ok := s.(*ast.ReturnStmt); ok {
								return "stub_block:" + fd.Name.Name
							}
						}
					}
				}
			}
			if fset.Position(fd.Body.Pos()).Line < line {
				return "body:" + fd.Name.Name
			}
			return "signature:" + fd.Name.Name
		}
	}
	return "decl"
}

func typecheckGenerated(r FactsReq, genPkg string) (string, []string, []string) {
	abs, err := filepath.Abs(r.Dir)
	if err != nil {
		return "skipped:" + err.Error(), nil, nil
	}
	src, err := packages.Load(&packages.Config{Mode: packages.NeedName, Dir: abs})
	if err != nil || len(src) != 1 {
		return "skipped:cannot load source", nil, nil
	}
	srcName := src[0].Name
	// earlier output of moq in the directory is what a regeneration would overwrite
	stale := map[string][]byte{}
	if ents, err := os.ReadDir(abs); err == nil {
		for _, e := range ents {
			if e.IsDir() || !strings.HasSuffix(e.Name(), ".go") {
				continue
			}
			b, err := os.ReadFile(filepath.Join(abs, e.Name()))
			if err == nil && strings.HasPrefix(string(b), "// Code generated by moq; DO NOT EDIT.") {
				pk := srcName
				if strings.HasSuffix(e.Name(), "_test.go") && strings.Contains(string(b), "\npackage "+srcName+"_test") {
					pk = srcName + "_test"
				}
				stale[filepath.Join(abs, e.Name())] = []byte("package " + pk + "\n")
			}
		}
	}
	cfg := &packages.Config{
		Mode: packages.NeedName | packages.NeedTypes | packages.NeedSyntax | packages.NeedTypesInfo | packages.NeedFiles | packages.NeedImports,
		Dir:  abs,
	}
	var want string
	switch {
	case genPkg == srcName:
		cfg.Overlay = stale
		cfg.Overlay[filepath.Join(abs, "zz_generated_moq.go")] = []byte(r.Text)
		want = src[0].ID
	case genPkg == srcName+"_test":
		cfg.Overlay = stale
		cfg.Overlay[filepath.Join(abs, "zz_generated_moq_test.go")] = []byte(r.Text)
		cfg.Tests = true
		want = src[0].PkgPath + "_test [" + src[0].PkgPath + ".test]"
	default:
		sub := filepath.Join(abs, "zzmoqdest")
		cfg.Overlay = map[string][]byte{filepath.Join(sub, "gen.go"): []byte(r.Text)}
		cfg.Dir = abs
		pkgs, err := packages.Load(cfg, "./zzmoqdest")
		if err != nil {
			return "skipped:" + err.Error(), nil, nil
		}
		return collectErrors(pkgs, "")
	}
	pkgs, err := packages.Load(cfg, ".")
	if err != nil {
		return "skipped:" + err.Error(), nil, nil
	}
	return collectErrors(pkgs, want)
}

func collectErrors(pkgs []*packages.Package, wantID string) (string, []string, []string) {
	var errs, positions []string
	found := false
	for _, p := range pkgs {
		if wantID != "" && p.ID != wantID {
			continue
		}
		found = true
		for _, e := range p.Errors {
			msg := e.Msg
			if len(msg) > 300 {
				msg = msg[:300]
			}
			errs = append(errs, msg)
			positions = append(positions, e.Pos)
		}
	}
	if !found {
		var ids []string
		for _, p := range pkgs {
			ids = append(ids, p.ID)
		}
		return "skipped:destination package not found among " + strings.Join(ids, ","), nil, nil
	}
	if len(errs) == 0 {
		return "ok", nil, nil
	}
	return "errors", errs, positions
}
