package main

import (
	"fmt"
	"go/ast"
	"go/token"
	"strconv"
	"strings"
)

// The lifter turns the body of a generated method into the instruction language of
// coq/MockSem.v.  Every statement must match one of the known forms exactly; anything
// else becomes IUnknown, which no checker accepts.

func selChain(e ast.Expr) []string {
	switch e := e.(type) {
	case *ast.Ident:
		return []string{e.Name}
	case *ast.SelectorExpr:
		base := selChain(e.X)
		if base == nil {
			return nil
		}
		return append(base, e.Sel.Name)
	}
	return nil
}

func isNilIdent(e ast.Expr) bool {
	id, ok := e.(*ast.Ident)
	return ok && id.Name == "nil"
}

type lifter struct {
	fset   *token.FileSet
	recv   string
	params map[string]int
	unk    bool
}

func (l *lifter) unknown(n ast.Node) string {
	l.unk = true
	return "IUnknown " + coqStr(nodeText(l.fset, n))
}

// funcField matches mock.<X>Func and returns X.
func (l *lifter) funcField(e ast.Expr) (string, bool) {
	ch := selChain(e)
	if len(ch) == 2 && ch[0] == l.recv && strings.HasSuffix(ch[1], "Func") && l.recv != "" {
		return strings.TrimSuffix(ch[1], "Func"), true
	}
	return "", false
}

// callsField matches mock.calls.<X>.
func (l *lifter) callsField(e ast.Expr) (string, bool) {
	ch := selChain(e)
	if len(ch) == 3 && ch[0] == l.recv && ch[1] == "calls" && l.recv != "" {
		return ch[2], true
	}
	return "", false
}

func (l *lifter) nilTest(e ast.Expr) (string, bool) {
	be, ok := e.(*ast.BinaryExpr)
	if !ok || be.Op != token.EQL || !isNilIdent(be.Y) {
		return "", false
	}
	return l.funcField(be.X)
}

func (l *lifter) callArgs(call *ast.CallExpr) (string, bool) {
	var items []string
	for i, a := range call.Args {
		id, ok := a.(*ast.Ident)
		if !ok {
			return "", false
		}
		idx, ok := l.params[id.Name]
		if !ok {
			return "", false
		}
		spread := call.Ellipsis.IsValid() && i == len(call.Args)-1
		items = append(items, fmt.Sprintf("(%d, %s)", idx, coqBool(spread)))
	}
	return coqList(items), true
}

func (l *lifter) stmt(s ast.Stmt) string {
	switch s := s.(type) {
	case *ast.IfStmt:
		if s.Init != nil || s.Else != nil {
			return l.unknown(s)
		}
		x, ok := l.nilTest(s.Cond)
		if !ok {
			return l.unknown(s)
		}
		body := s.Body.List
		// if mock.XFunc == nil { panic("...") }
		if len(body) == 1 {
			if es, ok := body[0].(*ast.ExprStmt); ok {
				if call, ok := es.X.(*ast.CallExpr); ok {
					if id, ok := call.Fun.(*ast.Ident); ok && id.Name == "panic" && len(call.Args) == 1 {
						if lit, ok := call.Args[0].(*ast.BasicLit); ok && lit.Kind == token.STRING {
							msg, err := strconv.Unquote(lit.Value)
							if err == nil {
								return fmt.Sprintf("INilPanic %s %s", coqStr(x), coqStr(msg))
							}
						}
					}
				}
			}
			// if mock.XFunc == nil { return }
			if rs, ok := body[0].(*ast.ReturnStmt); ok && len(rs.Results) == 0 {
				return fmt.Sprintf("INilRetZero %s 0", coqStr(x))
			}
		}
		// if mock.XFunc == nil { var ( a T; b U ); return a, b }
		if len(body) == 2 {
			ds, ok1 := body[0].(*ast.DeclStmt)
			rs, ok2 := body[1].(*ast.ReturnStmt)
			if ok1 && ok2 {
				gd, ok := ds.Decl.(*ast.GenDecl)
				if ok && gd.Tok == token.VAR {
					var names []string
					good := true
					for _, sp := range gd.Specs {
						vs := sp.(*ast.ValueSpec)
						if len(vs.Values) != 0 || vs.Type == nil {
							good = false
						}
						for _, n := range vs.Names {
							names = append(names, n.Name)
						}
					}
					if good && len(names) == len(rs.Results) && len(names) > 0 {
						for i, r := range rs.Results {
							id, ok := r.(*ast.Ident)
							if !ok || id.Name != names[i] {
								good = false
							}
						}
						if good {
							return fmt.Sprintf("INilRetZero %s %d", coqStr(x), len(names))
						}
					}
				}
			}
		}
		return l.unknown(s)
	case *ast.AssignStmt:
		if len(s.Lhs) != 1 || len(s.Rhs) != 1 {
			return l.unknown(s)
		}
		// callInfo := struct{...}{...}
		if s.Tok == token.DEFINE {
			id, ok := s.Lhs[0].(*ast.Ident)
			cl, ok2 := s.Rhs[0].(*ast.CompositeLit)
			if ok && ok2 && id.Name == "callInfo" {
				st, ok := cl.Type.(*ast.StructType)
				if !ok {
					return l.unknown(s)
				}
				var fnames []string
				for _, f := range st.Fields.List {
					for _, n := range f.Names {
						fnames = append(fnames, n.Name)
					}
				}
				if len(fnames) != len(cl.Elts) {
					return l.unknown(s)
				}
				var items []string
				for i, e := range cl.Elts {
					kv, ok := e.(*ast.KeyValueExpr)
					if !ok {
						return l.unknown(s)
					}
					k, ok1 := kv.Key.(*ast.Ident)
					v, ok2 := kv.Value.(*ast.Ident)
					if !ok1 || !ok2 || k.Name != fnames[i] {
						return l.unknown(s)
					}
					idx, ok := l.params[v.Name]
					if !ok {
						return l.unknown(s)
					}
					items = append(items, fmt.Sprintf("(%s, %d)", coqStr(k.Name), idx))
				}
				return "IBuildRec " + coqList(items)
			}
			return l.unknown(s)
		}
		if s.Tok != token.ASSIGN {
			return l.unknown(s)
		}
		// calls = mock.calls.X
		if id, ok := s.Lhs[0].(*ast.Ident); ok && id.Name == "calls" {
			if x, ok := l.callsField(s.Rhs[0]); ok {
				return "ILoad " + coqStr(x)
			}
			return l.unknown(s)
		}
		x, ok := l.callsField(s.Lhs[0])
		if !ok {
			return l.unknown(s)
		}
		// mock.calls.X = nil
		if isNilIdent(s.Rhs[0]) {
			return "ISetNil " + coqStr(x)
		}
		// mock.calls.X = append(mock.calls.X, callInfo)
		if call, ok := s.Rhs[0].(*ast.CallExpr); ok && !call.Ellipsis.IsValid() && len(call.Args) == 2 {
			if f, ok := call.Fun.(*ast.Ident); ok && f.Name == "append" {
				y, ok1 := l.callsField(call.Args[0])
				ci, ok2 := call.Args[1].(*ast.Ident)
				if ok1 && ok2 && y == x && ci.Name == "callInfo" {
					return "IAppend " + coqStr(x)
				}
			}
		}
		return l.unknown(s)
	case *ast.ExprStmt:
		call, ok := s.X.(*ast.CallExpr)
		if !ok {
			return l.unknown(s)
		}
		// mock.lockX.Lock() etc.
		ch := selChain(call.Fun)
		if len(ch) == 3 && ch[0] == l.recv && strings.HasPrefix(ch[1], "lock") && len(call.Args) == 0 {
			x := strings.TrimPrefix(ch[1], "lock")
			switch ch[2] {
			case "Lock":
				return "ILock " + coqStr(x)
			case "Unlock":
				return "IUnlock " + coqStr(x)
			case "RLock":
				return "IRLock " + coqStr(x)
			case "RUnlock":
				return "IRUnlock " + coqStr(x)
			}
			return l.unknown(s)
		}
		// mock.XFunc(args)
		if x, ok := l.funcField(call.Fun); ok {
			if args, ok := l.callArgs(call); ok {
				return fmt.Sprintf("ICall %s %s false", coqStr(x), args)
			}
		}
		return l.unknown(s)
	case *ast.ReturnStmt:
		if len(s.Results) == 1 {
			if id, ok := s.Results[0].(*ast.Ident); ok && id.Name == "calls" {
				return "IRetLoaded"
			}
			if call, ok := s.Results[0].(*ast.CallExpr); ok {
				if x, ok := l.funcField(call.Fun); ok {
					if args, ok := l.callArgs(call); ok {
						return fmt.Sprintf("ICall %s %s true", coqStr(x), args)
					}
				}
			}
		}
		return l.unknown(s)
	case *ast.DeclStmt:
		// var calls []struct{...}
		if gd, ok := s.Decl.(*ast.GenDecl); ok && gd.Tok == token.VAR && len(gd.Specs) == 1 {
			vs := gd.Specs[0].(*ast.ValueSpec)
			if len(vs.Names) == 1 && vs.Names[0].Name == "calls" && len(vs.Values) == 0 {
				if at, ok := vs.Type.(*ast.ArrayType); ok && at.Len == nil {
					if _, ok := at.Elt.(*ast.StructType); ok {
						return "IDeclCalls"
					}
				}
			}
		}
		return l.unknown(s)
	}
	return l.unknown(s)
}

func liftBody(fset *token.FileSet, d *ast.FuncDecl, recv string) ([]string, bool) {
	l := &lifter{fset: fset, recv: recv, params: map[string]int{}}
	idx := 0
	if d.Type.Params != nil {
		for _, f := range d.Type.Params.List {
			if len(f.Names) == 0 {
				idx++
			}
			for _, n := range f.Names {
				l.params[n.Name] = idx
				idx++
			}
		}
	}
	// a parameter that shadows the receiver or the locals makes every match meaningless
	for _, bad := range []string{recv, "callInfo", "calls"} {
		if _, ok := l.params[bad]; ok {
			l.unk = true
			return []string{"IUnknown " + coqStr("parameter shadows "+bad)}, true
		}
	}
	var out []string
	if d.Body != nil {
		for _, s := range d.Body.List {
			out = append(out, l.stmt(s))
		}
	}
	return out, l.unk
}

func coqInstrs(b []string) string {
	items := make([]string, len(b))
	for i, s := range b {
		items[i] = "(" + s + ")"
	}
	return coqList(items)
}

// coqMocks renders the mocks of a file as a Coq term of type list mmock.
func coqMocks(mocks []MockFacts) string {
	var ms []string
	for _, m := range mocks {
		byName := map[string]*MethodFacts{}
		for i := range m.Methods {
			byName[m.Methods[i].Name] = &m.Methods[i]
		}
		used := map[string]bool{}
		var meths []string
		for _, fn := range m.FuncOrder {
			if !strings.HasSuffix(fn, "Func") {
				continue
			}
			x := strings.TrimSuffix(fn, "Func")
			body := "None"
			np, nr, variadic := 0, 0, false
			if mf := byName[x]; mf != nil {
				used[x] = true
				body = "(Some " + coqInstrs(mf.Body) + ")"
				np, nr, variadic = len(mf.Params), len(mf.Results), mf.Variadic
			}
			calls := "None"
			if mf := byName[x+"Calls"]; mf != nil && len(mf.Params) == 0 {
				used[x+"Calls"] = true
				calls = "(Some " + coqInstrs(mf.Body) + ")"
			}
			reset := "None"
			if mf := byName["Reset"+x+"Calls"]; mf != nil && len(mf.Params) == 0 && len(mf.Results) == 0 {
				used["Reset"+x+"Calls"] = true
				reset = "(Some " + coqInstrs(mf.Body) + ")"
			}
			var rec []string
			for _, f := range m.Records[x] {
				rec = append(rec, coqStr(f.Name))
			}
			_, hasLock := m.Locks["lock"+x]
			meths = append(meths, fmt.Sprintf("(mkMM %s %d %s %d %s %s %s %s %s)", coqStr(x), np, coqBool(variadic), nr,
				body, calls, reset, coqList(rec), coqBool(hasLock)))
		}
		resetAll := "None"
		if mf := byName["ResetCalls"]; mf != nil && !used["ResetCalls"] && len(mf.Params) == 0 && len(mf.Results) == 0 {
			used["ResetCalls"] = true
			resetAll = "(Some " + coqInstrs(mf.Body) + ")"
		}
		var extra []string
		for _, mf := range m.Methods {
			if !used[mf.Name] {
				extra = append(extra, coqStr(mf.Name))
			}
		}
		ms = append(ms, fmt.Sprintf("(mkMock %s %s %s %s)", coqStr(m.Name), coqList(meths), resetAll, coqList(extra)))
	}
	return coqList(ms)
}
