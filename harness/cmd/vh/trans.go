package main

import (
	"bytes"
	"flag"
	"fmt"
	"go/ast"
	"go/parser"
	"go/printer"
	"go/token"
	"go/types"
	"os"
	"path/filepath"
	"sort"
	"strconv"
	"strings"
	"text/template/parse"

	"golang.org/x/tools/go/packages"
)

func init() { subcommands["trans"] = cmdTrans }

// cmdTrans re-reads /repo's source and rewrites the regenerated Coq files.
func cmdTrans(args []string) {
	fs := flag.NewFlagSet("trans", flag.ExitOnError)
	repo := fs.String("repo", "/repo", "moq source tree")
	out := fs.String("out", "/verif/coq/gen", "output directory for regenerated .v files")
	fs.Parse(args)

	tr := &translator{repo: *repo, fset: token.NewFileSet()}
	must := func(err error) {
		if err != nil {
			die("trans: %v", err)
		}
	}
	must(os.MkdirAll(*out, 0o755))
	tables, err := tr.tables()
	must(err)
	must(writeIfChanged(filepath.Join(*out, "Tables.v"), tables))
	tmpl, err := tr.templateTree()
	must(err)
	must(writeIfChanged(filepath.Join(*out, "TemplateSrc.v"), tmpl))
	skel, err := tr.skeletons()
	must(err)
	must(writeIfChanged(filepath.Join(*out, "Skeletons.v"), skel))
	sites, err := tr.siteLists()
	must(err)
	must(writeIfChanged(filepath.Join(*out, "Sites.v"), sites))
}

type translator struct {
	repo string
	fset *token.FileSet
}

func (tr *translator) parseFile(rel string) (*ast.File, error) {
	return parser.ParseFile(tr.fset, filepath.Join(tr.repo, rel), nil, parser.ParseComments)
}

func unquote(lit *ast.BasicLit) (string, error) {
	if lit.Kind != token.STRING {
		return "", fmt.Errorf("not a string literal: %s", lit.Value)
	}
	return strconv.Unquote(lit.Value)
}

func stringLits(exprs []ast.Expr) ([]string, error) {
	var out []string
	for _, e := range exprs {
		lit, ok := e.(*ast.BasicLit)
		if !ok {
			return nil, fmt.Errorf("non-literal element in string table")
		}
		s, err := unquote(lit)
		if err != nil {
			return nil, err
		}
		out = append(out, s)
	}
	return out, nil
}

// findVar returns the initialiser of a package-level var.
func findVar(f *ast.File, name string) ast.Expr {
	for _, d := range f.Decls {
		gd, ok := d.(*ast.GenDecl)
		if !ok || gd.Tok != token.VAR {
			continue
		}
		for _, sp := range gd.Specs {
			vs := sp.(*ast.ValueSpec)
			for i, n := range vs.Names {
				if n.Name == name && i < len(vs.Values) {
					return vs.Values[i]
				}
			}
		}
	}
	return nil
}

func findFunc(f *ast.File, recv, name string) *ast.FuncDecl {
	for _, d := range f.Decls {
		fd, ok := d.(*ast.FuncDecl)
		if !ok || fd.Name.Name != name {
			continue
		}
		r := ""
		if fd.Recv != nil && len(fd.Recv.List) == 1 {
			t := fd.Recv.List[0].Type
			if st, ok := t.(*ast.StarExpr); ok {
				t = st.X
			}
			if id, ok := t.(*ast.Ident); ok {
				r = id.Name
			}
		}
		if r == recv {
			return fd
		}
	}
	return nil
}

func (tr *translator) tables() ([]byte, error) {
	var b bytes.Buffer
	b.WriteString("(* REGENERATED from /repo's source by `vh trans` on every run. Do not edit. *)\n")
	b.WriteString("From Moq Require Import Strs.\n\n")

	// golintInitialisms (internal/template/template.go)
	tf, err := tr.parseFile("internal/template/template.go")
	if err != nil {
		return nil, err
	}
	initExpr, _ := findVar(tf, "golintInitialisms").(*ast.CompositeLit)
	if initExpr == nil {
		return nil, fmt.Errorf("golintInitialisms not found as a composite literal")
	}
	inits, err := stringLits(initExpr.Elts)
	if err != nil {
		return nil, err
	}
	fmt.Fprintf(&b, "Definition initialisms : list string :=\n  %s.\n\n", coqStrList(inits))

	// reserved names: the case list of the switch in varName (internal/registry/var.go)
	vf, err := tr.parseFile("internal/registry/var.go")
	if err != nil {
		return nil, err
	}
	var reserved []string
	reservedSuffix := ""
	if fd := findFunc(vf, "", "varName"); fd != nil {
		ast.Inspect(fd.Body, func(n ast.Node) bool {
			sw, ok := n.(*ast.SwitchStmt)
			if !ok {
				return true
			}
			for _, st := range sw.Body.List {
				cc := st.(*ast.CaseClause)
				ss, err := stringLits(cc.List)
				if err != nil {
					continue
				}
				reserved = append(reserved, ss...)
				// the clause body must be: name += "<suffix>"
				if len(cc.Body) == 1 {
					if as, ok := cc.Body[0].(*ast.AssignStmt); ok && as.Tok == token.ADD_ASSIGN && len(as.Rhs) == 1 {
						if lit, ok := as.Rhs[0].(*ast.BasicLit); ok {
							reservedSuffix, _ = unquote(lit)
						}
					}
				}
			}
			return false
		})
	}
	fmt.Fprintf(&b, "Definition reserved_names : list string :=\n  %s.\n\n", coqStrList(reserved))
	fmt.Fprintf(&b, "Definition reserved_suffix : string := %s.\n\n", coqStr(reservedSuffix))

	// strings.NewReplacer(...) pairs (internal/registry/package.go)
	pf, err := tr.parseFile("internal/registry/package.go")
	if err != nil {
		return nil, err
	}
	var pairs []string
	if call, ok := findVar(pf, "replacer").(*ast.CallExpr); ok {
		ss, err := stringLits(call.Args)
		if err != nil {
			return nil, err
		}
		if len(ss)%2 != 0 {
			return nil, fmt.Errorf("odd replacer argument count")
		}
		for i := 0; i < len(ss); i += 2 {
			pairs = append(pairs, fmt.Sprintf("(%s, %s)", coqStr(ss[i]), coqStr(ss[i+1])))
		}
	} else {
		return nil, fmt.Errorf("replacer is not a call")
	}
	fmt.Fprintf(&b, "Definition replacer_pairs : list (string * string) :=\n  %s.\n\n", coqList(pairs))

	// Go keywords, from go/token (the toolchain's, not moq's)
	var kws []string
	for t := token.BREAK; t <= token.VAR; t++ {
		kws = append(kws, t.String())
	}
	fmt.Fprintf(&b, "Definition go_keywords : list string :=\n  %s.\n", coqStrList(kws))
	return b.Bytes(), nil
}

// ---- template ----

func (tr *translator) templateSource() (string, error) {
	tf, err := tr.parseFile("internal/template/template.go")
	if err != nil {
		return "", err
	}
	lit, ok := findVar(tf, "moqTemplate").(*ast.BasicLit)
	if !ok {
		return "", fmt.Errorf("moqTemplate is not a string literal")
	}
	return unquote(lit)
}

func (tr *translator) templateTree() ([]byte, error) {
	src, err := tr.templateSource()
	if err != nil {
		return nil, err
	}
	t := parse.New("moq")
	t.Mode = parse.SkipFuncCheck
	trees := map[string]*parse.Tree{}
	if _, err := t.Parse(src, "", "", trees); err != nil {
		return nil, err
	}
	var b bytes.Buffer
	b.WriteString("(* REGENERATED from moqTemplate in /repo/internal/template/template.go by `vh trans`\n   (parsed with the real text/template/parse). Do not edit. *)\n")
	b.WriteString("From Moq Require Import Strs TmplAst.\n\n")
	b.WriteString("Definition moq_template : list tnode :=\n")
	b.WriteString(emitNodes(t.Root.Nodes, 1))
	b.WriteString(".\n")
	return b.Bytes(), nil
}

func indent(n int) string { return strings.Repeat("  ", n) }

func emitNodes(nodes []parse.Node, lvl int) string {
	items := make([]string, 0, len(nodes))
	for _, n := range nodes {
		items = append(items, emitNode(n, lvl+1))
	}
	if len(items) == 0 {
		return "[]"
	}
	return "[\n" + indent(lvl) + strings.Join(items, ";\n"+indent(lvl)) + "]"
}

func emitNode(n parse.Node, lvl int) string {
	switch n := n.(type) {
	case *parse.TextNode:
		return "NText " + coqStr(string(n.Text))
	case *parse.ActionNode:
		if len(n.Pipe.Decl) != 0 {
			return "NUnknown " + coqStr(n.String())
		}
		return "NAction (" + emitPipe(n.Pipe) + ")"
	case *parse.IfNode:
		if len(n.Pipe.Decl) != 0 {
			return "NUnknown " + coqStr(n.String())
		}
		el := "[]"
		if n.ElseList != nil {
			el = emitNodes(n.ElseList.Nodes, lvl)
		}
		return "NIf (" + emitPipe(n.Pipe) + ") " + emitNodes(n.List.Nodes, lvl) + " " + el
	case *parse.RangeNode:
		if n.ElseList != nil || len(n.Pipe.Decl) > 2 {
			return "NUnknown " + coqStr(n.String())
		}
		iv, vv := "", ""
		switch len(n.Pipe.Decl) {
		case 1:
			vv = n.Pipe.Decl[0].Ident[0]
		case 2:
			iv, vv = n.Pipe.Decl[0].Ident[0], n.Pipe.Decl[1].Ident[0]
		}
		return fmt.Sprintf("NRange %s %s (%s) %s", coqStr(iv), coqStr(vv), emitPipe(n.Pipe), emitNodes(n.List.Nodes, lvl))
	case *parse.CommentNode:
		return "NText \"\""
	}
	return "NUnknown " + coqStr(n.String())
}

func emitPipe(p *parse.PipeNode) string {
	prev := ""
	for _, c := range p.Cmds {
		prev = emitCmd(c, prev)
	}
	return prev
}

func emitCmd(c *parse.CommandNode, piped string) string {
	if len(c.Args) == 0 {
		return "EUnknown " + coqStr(c.String())
	}
	if id, ok := c.Args[0].(*parse.IdentifierNode); ok {
		var args []string
		for _, a := range c.Args[1:] {
			args = append(args, emitArg(a))
		}
		if piped != "" {
			args = append(args, piped)
		}
		return "ECall " + coqStr(id.Ident) + " " + coqList(args)
	}
	if len(c.Args) != 1 || piped != "" {
		return "EUnknown " + coqStr(c.String())
	}
	return emitArg(c.Args[0])
}

func emitArg(a parse.Node) string {
	switch a := a.(type) {
	case *parse.DotNode:
		return "EDot"
	case *parse.FieldNode:
		e := "EDot"
		for _, id := range a.Ident {
			e = fmt.Sprintf("EField (%s) %s", e, coqStr(id))
		}
		return e
	case *parse.VariableNode:
		e := "EVar " + coqStr(a.Ident[0])
		for _, id := range a.Ident[1:] {
			e = fmt.Sprintf("EField (%s) %s", e, coqStr(id))
		}
		return e
	case *parse.PipeNode:
		if len(a.Decl) == 0 {
			return emitPipe(a)
		}
	case *parse.StringNode:
		return "EStr " + coqStr(a.Text)
	}
	return "EUnknown " + coqStr(a.String())
}

// ---- site lists (need type information) ----

func (tr *translator) siteLists() ([]byte, error) {
	cfg := &packages.Config{
		Mode: packages.NeedName | packages.NeedFiles | packages.NeedSyntax | packages.NeedTypes | packages.NeedTypesInfo,
		Dir:  tr.repo,
	}
	pkgs, err := packages.Load(cfg, ".", "./pkg/moq", "./internal/registry", "./internal/template")
	if err != nil {
		return nil, err
	}
	var ranges, effects []string
	effectPkgs := map[string]bool{"os": true, "io/ioutil": true, "os/exec": true, "syscall": true, "io/fs": true}
	for _, p := range pkgs {
		for _, f := range p.Syntax {
			fname := p.Fset.Position(f.Pos()).Filename
			rel, _ := filepath.Rel(tr.repo, fname)
			if strings.HasSuffix(rel, "_test.go") {
				continue
			}
			var fn string
			ast.Inspect(f, func(n ast.Node) bool {
				switch n := n.(type) {
				case *ast.FuncDecl:
					fn = n.Name.Name
				case *ast.RangeStmt:
					if tv, ok := p.TypesInfo.Types[n.X]; ok {
						if _, isMap := tv.Type.Underlying().(*types.Map); isMap {
							ranges = append(ranges, rel+":"+fn+":"+tr.normNodeFset(p.Fset, n.X))
						}
					}
				case *ast.CallExpr:
					if sel, ok := n.Fun.(*ast.SelectorExpr); ok {
						if id, ok := sel.X.(*ast.Ident); ok {
							if pn, ok := p.TypesInfo.Uses[id].(*types.PkgName); ok && effectPkgs[pn.Imported().Path()] {
								effects = append(effects, rel+":"+fn+":"+pn.Imported().Path()+"."+sel.Sel.Name)
							}
						}
					}
				}
				return true
			})
		}
	}
	sort.Strings(ranges)
	sort.Strings(effects)
	var b bytes.Buffer
	b.WriteString("(* REGENERATED from /repo's source by `vh trans` on every run (go/types). Do not edit. *)\n")
	b.WriteString("From Moq Require Import Strs.\n\n")
	fmt.Fprintf(&b, "(* every `range` over a map-typed expression in non-test code: the only sources of\n   nondeterminism in moq *)\nDefinition map_range_sites : list string :=\n  %s.\n\n", coqStrList(ranges))
	fmt.Fprintf(&b, "(* every call into os, io/ioutil, os/exec, syscall, io/fs in non-test code *)\nDefinition fs_effect_sites : list string :=\n  %s.\n", coqStrList(effects))
	return b.Bytes(), nil
}

func (tr *translator) normNodeFset(fset *token.FileSet, n ast.Node) string {
	var b bytes.Buffer
	printer.Fprint(&b, fset, n)
	return strings.Join(strings.Fields(b.String()), " ")
}
