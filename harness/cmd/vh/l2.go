package main

import (
	"bufio"
	"bytes"
	"encoding/json"
	"flag"
	"fmt"
	"io"
	"os"
	"os/exec"
	"path/filepath"
	"runtime/debug"
	"strings"
	"sync"
	"time"

	"go/types"

	"github.com/matryer/moq/pkg/moq"
	"golang.org/x/tools/go/packages"
)

func init() {
	subcommands["l2"] = cmdL2
	subcommands["l2worker"] = cmdL2Worker
}

// L2Case is one end-to-end generation: a package directory, the interface
// arguments and the flags.  The formatter is always noop: layout is C16's business.
type L2Case struct {
	ID     string   `json:"id"`
	Dir    string   `json:"dir"`
	Pkg    string   `json:"pkg"`
	Stub   bool     `json:"stub"`
	Skip   bool     `json:"skip"`
	Resets bool     `json:"resets"`
	Args   []string `json:"args"`
	Tags   []string `json:"tags,omitempty"`
	Repeat int      `json:"repeat,omitempty"` // C14: generate this many more times with fresh Mockers
	Fmts   bool     `json:"fmts,omitempty"`   // C16: also run the other formatters and compare
	Formatter *string `json:"formatter,omitempty"` // default "noop"; the CLI stage asks for what the flags select
}

// L2Obs is what the implementation did on a case, plus the model input dumped from
// the same package (as Coq terms).
type L2Obs struct {
	ID          string `json:"id"`
	Kind        string `json:"kind"` // out | err | panic | crash | timeout | skipped
	Text        string `json:"text"`
	Input       string `json:"input,omitempty"`  // Coq term of type input
	Config      string `json:"config,omitempty"` // Coq term of type config
	Args        string `json:"args,omitempty"`   // Coq term of type list string
	Unsupported string `json:"unsupported,omitempty"`
	Millis      int64  `json:"ms"`
	Repeats     int    `json:"repeats,omitempty"`
	Nondet      string `json:"nondet,omitempty"` // first output that differs from the first run
	Fmt         map[string]string `json:"fmt,omitempty"`
	Sigs        map[string][]SigNames `json:"sigs,omitempty"` // declared parameter / result names per interface
	Writes      int    `json:"writes"`               // how often Mock called Write on the writer it was given
	FailWrite   string `json:"fail_write,omitempty"` // C17: what Mock did with a writer that fails
	SpecFiles   []SpecFile `json:"spec_files,omitempty"` // per source file, in load order: how many import specs it has
}

// SpecFile says how many import specs one file contributes to the flat list in the model input.
type SpecFile struct {
	Name  string `json:"name"`
	Specs int    `json:"specs"`
}

// countingWriter records how it is used; with failAfter >= 0 it fails after that many bytes.
type countingWriter struct {
	buf       bytes.Buffer
	calls     int
	failAfter int
}

func (w *countingWriter) Write(p []byte) (int, error) {
	w.calls++
	if w.failAfter >= 0 && w.buf.Len()+len(p) > w.failAfter {
		n := w.failAfter - w.buf.Len()
		if n < 0 {
			n = 0
		}
		w.buf.Write(p[:n])
		return n, fmt.Errorf("injected write failure after %d bytes", w.failAfter)
	}
	return w.buf.Write(p)
}

// SigNames are the names the source gives to the parameters and results of one method.
type SigNames struct {
	Method  string   `json:"method"`
	Params  []string `json:"params"`
	Results []string `json:"results"`
}

func cmdL2(args []string) {
	fs := flag.NewFlagSet("l2", flag.ExitOnError)
	casesPath := fs.String("cases", "", "JSON file with a list of L2Case")
	outPath := fs.String("out", "", "output JSONL of L2Obs")
	shards := fs.Int("shards", 16, "parallel worker processes")
	perCase := fs.Duration("timeout", 20*time.Second, "per-case timeout")
	fs.Parse(args)
	raw, err := os.ReadFile(*casesPath)
	if err != nil {
		die("%v", err)
	}
	var cases []L2Case
	if err := json.Unmarshal(raw, &cases); err != nil {
		die("%v", err)
	}
	results := make([]L2Obs, len(cases))
	var wg sync.WaitGroup
	n := *shards
	if n > len(cases) {
		n = len(cases)
	}
	if n < 1 {
		n = 1
	}
	for s := 0; s < n; s++ {
		wg.Add(1)
		go func(s int) {
			defer wg.Done()
			var idx []int
			for i := s; i < len(cases); i += n {
				idx = append(idx, i)
			}
			runShard(cases, idx, results, *perCase)
		}(s)
	}
	wg.Wait()
	f, err := os.Create(*outPath)
	if err != nil {
		die("%v", err)
	}
	w := bufio.NewWriter(f)
	enc := json.NewEncoder(w)
	for _, r := range results {
		enc.Encode(r)
	}
	w.Flush()
	f.Close()
}

// runShard feeds cases to a worker process one at a time; if the worker dies (a Go
// stack overflow is fatal, not a panic) or hangs, the case in flight is recorded as
// crash / timeout and a fresh worker takes over.
func runShard(cases []L2Case, idx []int, results []L2Obs, perCase time.Duration) {
	self, _ := os.Executable()
	var cmd *exec.Cmd
	var stdin io.WriteCloser
	var rd *bufio.Reader
	var stderr *bytes.Buffer
	start := func() {
		cmd = exec.Command(self, "l2worker")
		stdin, _ = cmd.StdinPipe()
		so, _ := cmd.StdoutPipe()
		stderr = &bytes.Buffer{}
		cmd.Stderr = stderr
		if err := cmd.Start(); err != nil {
			die("cannot start worker: %v", err)
		}
		rd = bufio.NewReaderSize(so, 1<<20)
	}
	stop := func() {
		if cmd != nil {
			stdin.Close()
			cmd.Process.Kill()
			cmd.Wait()
			cmd = nil
		}
	}
	defer stop()
	for _, i := range idx {
		if cmd == nil {
			start()
		}
		b, _ := json.Marshal(cases[i])
		stdin.Write(append(b, '\n'))
		type res struct {
			line []byte
			err  error
		}
		ch := make(chan res, 1)
		go func() {
			l, err := rd.ReadBytes('\n')
			ch <- res{l, err}
		}()
		select {
		case r := <-ch:
			if r.err != nil {
				cmd.Wait()
				msg := stderr.String()
				kind := "crash"
				if len(msg) > 600 {
					msg = msg[:600]
				}
				results[i] = L2Obs{ID: cases[i].ID, Kind: kind, Text: msg}
				cmd = nil
				// the dump of the model input is still needed: redo it in a fresh worker
				results[i] = redump(cases[i], results[i])
				continue
			}
			var o L2Obs
			if err := json.Unmarshal(r.line, &o); err != nil {
				results[i] = L2Obs{ID: cases[i].ID, Kind: "skipped", Unsupported: "bad worker output"}
				continue
			}
			results[i] = o
		case <-time.After(perCase):
			stop()
			results[i] = redump(cases[i], L2Obs{ID: cases[i].ID, Kind: "timeout"})
		}
	}
}

// redump obtains the model input for a case whose implementation run killed the worker.
func redump(c L2Case, o L2Obs) L2Obs {
	self, _ := os.Executable()
	b, _ := json.Marshal(c)
	cmd := exec.Command(self, "l2worker", "-dumponly")
	cmd.Stdin = bytes.NewReader(append(b, '\n'))
	out, err := cmd.Output()
	if err != nil {
		o.Unsupported = "dump failed"
		return o
	}
	var d L2Obs
	if json.Unmarshal(bytes.TrimSpace(out), &d) == nil {
		o.Input, o.Config, o.Args, o.Unsupported = d.Input, d.Config, d.Args, d.Unsupported
	}
	return o
}

func cmdL2Worker(args []string) {
	fs := flag.NewFlagSet("l2worker", flag.ExitOnError)
	dumpOnly := fs.Bool("dumponly", false, "only dump the model input")
	fs.Parse(args)
	debug.SetMaxStack(64 << 20) // fail fast on runaway recursion
	rd := bufio.NewReaderSize(os.Stdin, 1<<20)
	w := bufio.NewWriter(os.Stdout)
	enc := json.NewEncoder(w)
	for {
		line, err := rd.ReadBytes('\n')
		if len(line) > 0 {
			var c L2Case
			if json.Unmarshal(line, &c) == nil {
				o := runL2Case(c, *dumpOnly)
				enc.Encode(o)
				w.Flush()
			}
		}
		if err != nil {
			return
		}
	}
}

func runL2Case(c L2Case, dumpOnly bool) (o L2Obs) {
	t0 := time.Now()
	o.ID = c.ID
	defer func() { o.Millis = time.Since(t0).Milliseconds() }()
	if err := os.Chdir(c.Dir); err != nil {
		o.Kind, o.Unsupported = "skipped", err.Error()
		return
	}
	// model input, from our own load of the package (pinned semantics)
	in, err := dumpInput(c)
	if err != nil {
		o.Kind, o.Unsupported = "skipped", err.Error()
		if _, ok := err.(errUnsupported); !ok {
			o.Unsupported = "load: " + err.Error()
			return
		}
		// outside the model (e.g. identifiers that are not ASCII): the implementation is still run and
		// the oracles still apply to what it writes; only the comparison with the model is skipped
		if dumpOnly {
			return
		}
	} else {
		o.Input = in
		o.Sigs = lastSigs
		o.SpecFiles = lastSpecFiles
	}
	o.Config = fmt.Sprintf("(mkConfig %s %s %s %s)", coqStr(c.Pkg), coqBool(c.Stub), coqBool(c.Skip), coqBool(c.Resets))
	o.Args = coqStrList(c.Args)
	if dumpOnly {
		o.Kind = "dump"
		return
	}
	// the implementation
	func() {
		defer func() {
			if r := recover(); r != nil {
				o.Kind = "panic"
				o.Text = fmt.Sprint(r)
			}
		}()
		formatter := "noop"
		if c.Formatter != nil {
			formatter = *c.Formatter
		}
		m, err := moq.New(moq.Config{SrcDir: ".", PkgName: c.Pkg, Formatter: formatter,
			StubImpl: c.Stub, SkipEnsure: c.Skip, WithResets: c.Resets})
		if err != nil {
			o.Kind, o.Text = "err", "new: "+err.Error()
			return
		}
		cw := &countingWriter{failAfter: -1}
		err = m.Mock(cw, c.Args...)
		o.Writes = cw.calls
		if err != nil {
			o.Kind, o.Text = "err", err.Error()
			if cw.buf.Len() != 0 {
				o.Text += fmt.Sprintf(" [and %d bytes written]", cw.buf.Len())
			}
			return
		}
		o.Kind, o.Text = "out", cw.buf.String()
		if c.Fmts {
			// a writer that fails after b bytes: Mock must hand everything over in one Write
			// and return the writer's error
			m2, err2 := moq.New(moq.Config{SrcDir: ".", PkgName: c.Pkg, Formatter: "noop",
				StubImpl: c.Stub, SkipEnsure: c.Skip, WithResets: c.Resets})
			if err2 == nil {
				fw := &countingWriter{failAfter: len(o.Text) / 2}
				e := m2.Mock(fw, c.Args...)
				switch {
				case e == nil:
					o.FailWrite = "Mock returned nil although the writer failed"
				case fw.calls != 1:
					o.FailWrite = fmt.Sprintf("Mock called Write %d times on a failing writer", fw.calls)
				case !strings.Contains(e.Error(), "injected write failure"):
					o.FailWrite = "Mock did not return the writer's error: " + e.Error()
				default:
					o.FailWrite = "ok"
				}
			}
		}
		gen := func(formatter string) (string, error) {
			m, err := moq.New(moq.Config{SrcDir: ".", PkgName: c.Pkg, Formatter: formatter,
				StubImpl: c.Stub, SkipEnsure: c.Skip, WithResets: c.Resets})
			if err != nil {
				return "", err
			}
			var b bytes.Buffer
			if err := m.Mock(&b, c.Args...); err != nil {
				return "", err
			}
			return b.String(), nil
		}
		for i := 0; i < c.Repeat; i++ {
			s, err := gen("noop")
			o.Repeats++
			if err != nil {
				o.Nondet = "error on repetition: " + err.Error()
				break
			}
			if s != o.Text {
				o.Nondet = s
				break
			}
		}
		if c.Fmts {
			// goimports once more, with moq called from a working directory outside the module (absolute
			// source directory): x/tools/imports resolves package names relative to the working directory
			var genOutside func(string) (string, error)
			if c.Pkg == "" {
				genOutside = func(formatter string) (string, error) {
					abs, err := filepath.Abs(".")
					if err != nil {
						return "", err
					}
					tmp, err := os.MkdirTemp("", "moqverif-outside-")
					if err != nil {
						return "", err
					}
					defer os.RemoveAll(tmp)
					if err := os.Chdir(tmp); err != nil {
						return "", err
					}
					defer os.Chdir(abs)
					m, err := moq.New(moq.Config{SrcDir: abs, PkgName: c.Pkg, Formatter: formatter,
						StubImpl: c.Stub, SkipEnsure: c.Skip, WithResets: c.Resets})
					if err != nil {
						return "", err
					}
					var b bytes.Buffer
					if err := m.Mock(&b, c.Args...); err != nil {
						return "", err
					}
					return b.String(), nil
				}
			}
			o.Fmt = fmtReport(o.Text, gen, genOutside)
		}
	}()
	return
}

var lastSigs map[string][]SigNames
var lastSpecFiles []SpecFile

func dumpInput(c L2Case) (string, error) {
	src, err := loadSrc(".")
	if err != nil {
		return "", err
	}
	lastSigs = map[string][]SigNames{}
	for _, a := range c.Args {
		name := a
		if i := strings.Index(a, ":"); i >= 0 {
			name = a[:i]
		}
		obj := src.Types.Scope().Lookup(name)
		if obj == nil || !types.IsInterface(obj.Type()) {
			continue
		}
		iface, ok := obj.Type().Underlying().(*types.Interface)
		if !ok {
			continue
		}
		iface = iface.Complete()
		var ms []SigNames
		for j := 0; j < iface.NumMethods(); j++ {
			sig := iface.Method(j).Type().(*types.Signature)
			sn := SigNames{Method: iface.Method(j).Name(), Params: []string{}, Results: []string{}}
			for k := 0; k < sig.Params().Len(); k++ {
				sn.Params = append(sn.Params, sig.Params().At(k).Name())
			}
			for k := 0; k < sig.Results().Len(); k++ {
				sn.Results = append(sn.Results, sig.Results().At(k).Name())
			}
			ms = append(ms, sn)
		}
		lastSigs[name] = ms
	}
	d := &dumper{}
	seen := map[string]bool{}
	var lookups []string
	for _, a := range c.Args {
		name := a
		if i := strings.Index(a, ":"); i >= 0 {
			name = a[:i]
		}
		if seen[name] {
			continue
		}
		seen[name] = true
		if !asciiOnly(name) {
			return "", errUnsupported{"non-ASCII argument"}
		}
		l, err := d.lookup(src.Types, name)
		if err != nil {
			return "", err
		}
		lookups = append(lookups, fmt.Sprintf("(%s, %s)", coqStr(name), l))
	}
	// the directory oracle of findPkgPath: the name of the package in the directory
	// called like the -pkg value, relative to the working directory
	oracle := "None"
	if c.Pkg != "" {
		pkgs, err := packages.Load(&packages.Config{Mode: packages.NeedName, Dir: c.Pkg})
		if err == nil && len(pkgs) == 1 && len(pkgs[0].Errors) == 0 {
			oracle = "(Some " + coqStr(pkgs[0].Name) + ")"
		}
	}
	lastSpecFiles = nil
	for i, f := range src.Syntax {
		_ = i
		name := filepath.Base(src.Fset.Position(f.Package).Filename)
		lastSpecFiles = append(lastSpecFiles, SpecFile{Name: name, Specs: len(f.Imports)})
	}
	return fmt.Sprintf("(mkInput %s %s %s %s)", coqPkg(src.Types), importSpecs(src.Syntax), oracle, coqList(lookups)), nil
}

var _ = filepath.Join
