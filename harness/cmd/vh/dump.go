package main

import (
	"fmt"
	"go/ast"
	"go/token"
	"go/types"
	"strconv"
	"strings"

	"golang.org/x/tools/go/packages"
)

// errUnsupported marks a type the Coq model of go/types does not cover; the case is
// skipped and counted, never compared.
type errUnsupported struct{ what string }

func (e errUnsupported) Error() string { return "unsupported: " + e.what }

type dumper struct{}

func coqPkgOpt(p *types.Package) string {
	if p == nil {
		return "None"
	}
	return fmt.Sprintf("(Some (mkPkg %s %s))", coqStr(p.Path()), coqStr(p.Name()))
}

func coqPkg(p *types.Package) string {
	return fmt.Sprintf("(mkPkg %s %s)", coqStr(p.Path()), coqStr(p.Name()))
}

func asciiOnly(s string) bool {
	for i := 0; i < len(s); i++ {
		if s[i] >= 127 || (s[i] < 32 && s[i] != '\n' && s[i] != '\t') {
			return false
		}
	}
	return true
}

func (d *dumper) ty(t types.Type) (string, error) {
	switch t := t.(type) {
	case *types.Basic:
		k := "KOther"
		switch t.Info() {
		case types.IsBoolean:
			k = "KBool"
		case types.IsInteger:
			k = "KInt"
		case types.IsFloat:
			k = "KFloat"
		case types.IsString:
			k = "KString"
		}
		return fmt.Sprintf("(TBasic %s %s %s)", coqStr(t.Name()), k, coqBool(t.Kind() == types.UnsafePointer)), nil
	case *types.Named:
		targs, err := d.tyList(typeArgs(t.TypeArgs()))
		if err != nil {
			return "", err
		}
		if t.TypeArgs().Len() == 0 && t.TypeParams().Len() != 0 {
			return "", errUnsupported{"uninstantiated generic type " + t.String()}
		}
		if t.Obj().Parent() != nil && t.Obj().Pkg() != nil && t.Obj().Parent() != t.Obj().Pkg().Scope() {
			return "", errUnsupported{"local type"}
		}
		return fmt.Sprintf("(TNamed %s %s %s)", coqPkgOpt(t.Obj().Pkg()), coqStr(t.Obj().Name()), targs), nil
	case *types.Alias:
		targs, err := d.tyList(typeArgs(t.TypeArgs()))
		if err != nil {
			return "", err
		}
		if t.TypeArgs().Len() == 0 && t.TypeParams().Len() != 0 {
			return "", errUnsupported{"uninstantiated generic alias " + t.String()}
		}
		return fmt.Sprintf("(TAlias %s %s %s)", coqPkgOpt(t.Obj().Pkg()), coqStr(t.Obj().Name()), targs), nil
	case *types.TypeParam:
		if types.Universe.Lookup(t.Obj().Name()) != nil {
			return "", errUnsupported{"type parameter named like a predeclared object"}
		}
		return fmt.Sprintf("(TParam %s)", coqStr(t.Obj().Name())), nil
	case *types.Pointer:
		e, err := d.ty(t.Elem())
		return "(TPtr " + e + ")", err
	case *types.Slice:
		e, err := d.ty(t.Elem())
		return "(TSlice " + e + ")", err
	case *types.Array:
		e, err := d.ty(t.Elem())
		return fmt.Sprintf("(TArray %s %s)", coqStr(strconv.FormatInt(t.Len(), 10)), e), err
	case *types.Map:
		k, err := d.ty(t.Key())
		if err != nil {
			return "", err
		}
		v, err := d.ty(t.Elem())
		return "(TMap " + k + " " + v + ")", err
	case *types.Chan:
		dir := "CBoth"
		switch t.Dir() {
		case types.SendOnly:
			dir = "CSend"
		case types.RecvOnly:
			dir = "CRecv"
		}
		e, err := d.ty(t.Elem())
		return "(TChan " + dir + " " + e + ")", err
	case *types.Signature:
		ps, v, rs, err := d.sigParts(t)
		if err != nil {
			return "", err
		}
		return fmt.Sprintf("(TFunc %s %s %s)", ps, coqBool(v), rs), nil
	case *types.Struct:
		var fs []string
		for i := 0; i < t.NumFields(); i++ {
			f := t.Field(i)
			ft, err := d.ty(f.Type())
			if err != nil {
				return "", err
			}
			tag := t.Tag(i)
			if !asciiOnly(tag) || strings.ContainsAny(tag, "\n\t") {
				return "", errUnsupported{"struct tag needing escapes"}
			}
			fs = append(fs, fmt.Sprintf("(%s, %s, %s, %s)", coqStr(f.Name()), coqBool(f.Embedded()), ft, coqStr(tag)))
		}
		return "(TStruct " + coqList(fs) + ")", nil
	case *types.Interface:
		kind := "IfPlain"
		switch {
		case types.TypeString(t, nil) == "any":
			kind = "IfAny"
		case types.TypeString(t, nil) == "interface{comparable}":
			return "", errUnsupported{"comparable's underlying interface"}
		case t.IsImplicit():
			kind = "IfImplicit"
		}
		var ms []string
		if kind != "IfAny" {
			for i := 0; i < t.NumExplicitMethods(); i++ {
				m := t.ExplicitMethod(i)
				st, err := d.ty(m.Type())
				if err != nil {
					return "", err
				}
				ms = append(ms, fmt.Sprintf("(%s, %s)", coqStr(m.Name()), st))
			}
		}
		var es []types.Type
		if kind != "IfAny" {
			for i := 0; i < t.NumEmbeddeds(); i++ {
				es = append(es, t.EmbeddedType(i))
			}
		}
		el, err := d.tyList(es)
		if err != nil {
			return "", err
		}
		return fmt.Sprintf("(TIface %s %s %s)", kind, coqList(ms), el), nil
	case *types.Union:
		var ts []string
		for i := 0; i < t.Len(); i++ {
			tt, err := d.ty(t.Term(i).Type())
			if err != nil {
				return "", err
			}
			ts = append(ts, fmt.Sprintf("(%s, %s)", coqBool(t.Term(i).Tilde()), tt))
		}
		return "(TUnion " + coqList(ts) + ")", nil
	}
	return "", errUnsupported{fmt.Sprintf("%T", t)}
}

func typeArgs(l *types.TypeList) []types.Type {
	var out []types.Type
	for i := 0; i < l.Len(); i++ {
		out = append(out, l.At(i))
	}
	return out
}

func (d *dumper) tyList(ts []types.Type) (string, error) {
	items := make([]string, len(ts))
	for i, t := range ts {
		s, err := d.ty(t)
		if err != nil {
			return "", err
		}
		items[i] = s
	}
	return coqList(items), nil
}

func (d *dumper) tuple(tp *types.Tuple) (string, error) {
	var items []string
	for i := 0; i < tp.Len(); i++ {
		v := tp.At(i)
		if !asciiOnly(v.Name()) {
			return "", errUnsupported{"non-ASCII identifier"}
		}
		t, err := d.ty(v.Type())
		if err != nil {
			return "", err
		}
		items = append(items, fmt.Sprintf("(%s, %s)", coqStr(v.Name()), t))
	}
	return coqList(items), nil
}

func (d *dumper) sigParts(s *types.Signature) (string, bool, string, error) {
	if s.TypeParams().Len() != 0 || s.RecvTypeParams().Len() != 0 {
		// RecvTypeParams is set on methods of generic types; never on interface methods
		if s.TypeParams().Len() != 0 {
			return "", false, "", errUnsupported{"generic function type"}
		}
	}
	ps, err := d.tuple(s.Params())
	if err != nil {
		return "", false, "", err
	}
	rs, err := d.tuple(s.Results())
	if err != nil {
		return "", false, "", err
	}
	return ps, s.Variadic(), rs, nil
}

// lookup reproduces, with the pinned semantics, what Registry.LookupInterface answers
// for a name, as a Coq lookup_res term.
func (d *dumper) lookup(pkg *types.Package, name string) (string, error) {
	obj := pkg.Scope().Lookup(name)
	if obj == nil {
		return "LNotFound", nil
	}
	if _, isTypeName := obj.(*types.TypeName); !isTypeName || !types.IsInterface(obj.Type()) {
		s := obj.Type().String()
		if !asciiOnly(s) {
			return "", errUnsupported{"non-ASCII type string"}
		}
		return "(LNotIface " + coqStr(s) + ")", nil
	}
	var tps []string
	if named, ok := obj.Type().(*types.Named); ok {
		tl := named.TypeParams()
		for i := 0; i < tl.Len(); i++ {
			tp := tl.At(i)
			if !asciiOnly(tp.Obj().Name()) {
				return "", errUnsupported{"non-ASCII identifier"}
			}
			c, err := d.ty(tp.Constraint())
			if err != nil {
				return "", err
			}
			under, ok := tp.Constraint().Underlying().(*types.Interface)
			if !ok {
				return "", errUnsupported{"constraint whose underlying type is not an interface"}
			}
			var es []types.Type
			for j := 0; j < under.NumEmbeddeds(); j++ {
				es = append(es, under.EmbeddedType(j))
			}
			el, err := d.tyList(es)
			if err != nil {
				return "", err
			}
			tps = append(tps, fmt.Sprintf("(mkTparam %s %s %s %s)", coqStr(tp.Obj().Name()), c, el,
				coqBool(under.IsComparable() && under.NumMethods() == 0)))
		}
	}
	iface := obj.Type().Underlying().(*types.Interface).Complete()
	var ms []string
	for j := 0; j < iface.NumMethods(); j++ {
		m := iface.Method(j)
		ps, v, rs, err := d.sigParts(m.Type().(*types.Signature))
		if err != nil {
			return "", err
		}
		ms = append(ms, fmt.Sprintf("(mkMethod %s (mkSig %s %s %s))", coqStr(m.Name()), ps, coqBool(v), rs))
	}
	_, isTypeName := obj.(*types.TypeName)
	return fmt.Sprintf("(LIface %s %s %s %s)", coqBool(iface.IsMethodSet()), coqBool(isTypeName), coqList(tps), coqList(ms)), nil
}

// loadSrc loads a package exactly as registry.New does.
func loadSrc(dir string) (*packages.Package, error) {
	pkgs, err := packages.Load(&packages.Config{
		Mode: packages.NeedName | packages.NeedSyntax | packages.NeedTypes,
		Dir:  dir,
	})
	if err != nil {
		return nil, err
	}
	if len(pkgs) != 1 {
		return nil, fmt.Errorf("%d packages", len(pkgs))
	}
	if len(pkgs[0].Errors) != 0 {
		return nil, pkgs[0].Errors[0]
	}
	return pkgs[0], nil
}

// importSpecs lists every import spec (path as written, name or "") of the package's
// files in the order go/packages delivers the files.
func importSpecs(files []*ast.File) string {
	var items []string
	for _, f := range files {
		for _, im := range f.Imports {
			name := ""
			if im.Name != nil {
				name = im.Name.Name
			}
			items = append(items, fmt.Sprintf("(%s, %s)", coqStr(strings.Trim(im.Path.Value, `"`)), coqStr(name)))
		}
	}
	return coqList(items)
}

var _ = token.NoPos
