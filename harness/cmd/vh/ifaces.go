package main

import (
	"encoding/json"
	"flag"
	"go/types"
	"os"
	"sort"
)

func init() { subcommands["ifaces"] = cmdIfaces }

// cmdIfaces lists, for each directory given, the names of the package-level interface
// types (what a user could pass to moq).
func cmdIfaces(args []string) {
	fs := flag.NewFlagSet("ifaces", flag.ExitOnError)
	fs.Parse(args)
	out := map[string][]string{}
	for _, dir := range fs.Args() {
		if err := os.Chdir(dir); err != nil {
			continue
		}
		p, err := loadSrc(".")
		if err != nil {
			continue
		}
		var names []string
		for _, n := range p.Types.Scope().Names() {
			obj := p.Types.Scope().Lookup(n)
			if _, ok := obj.(*types.TypeName); ok && types.IsInterface(obj.Type()) {
				if _, isTP := obj.Type().(*types.TypeParam); !isTP {
					names = append(names, n)
				}
			}
		}
		sort.Strings(names)
		out[dir] = names
	}
	json.NewEncoder(os.Stdout).Encode(out)
}
