package main

// L1: histories of AddImport / AddVar on ONE real registry.Registry, built from synthetic
// go/types objects (packages with adversarial import paths and names, types over every
// constructor), observed through the exported API only (Var.Name, Var.TypeString,
// Registry.Imports).  The same history is handed to the Coq model (Registry.v / Scope.v)
// as a term; L1Check.v compares.  No package is written for the inputs, so thousands of
// import-path shapes and naming collisions can be run per minute.

import (
	"bufio"
	"bytes"
	"encoding/json"
	"flag"
	"fmt"
	"go/token"
	"go/types"
	"io"
	"math/rand"
	"os"
	"os/exec"
	"path/filepath"
	"runtime/debug"
	"strings"
	"sync"
	"time"

	"github.com/matryer/moq/internal/registry"
)

func init() {
	subcommands["l1"] = cmdL1
	subcommands["l1worker"] = cmdL1Worker
}

const l1Module = "example.com/l1"

// the packages that exist on disk (so that source files can import them under aliases)
var l1Disk = [][2]string{
	{"p/alpha", "alpha"}, {"p/beta", "beta"}, {"p/one/client", "client"}, {"p/two/client", "client"},
	{"p/core/v1", "v1"}, {"p/apps/v1", "v1"}, {"p/go-yaml", "yaml"}, {"p/sync", "sync"},
}

// source packages: import specs (path relative to the module, name) per file, in file order
var l1Sources = map[string][][][2]string{
	"srca": {{}},
	"srcb": {{{"p/alpha", "al"}, {"p/one/client", "oneclient"}, {"p/core/v1", "corev1"}},
		{{"p/two/client", "client2"}, {"p/go-yaml", "yaml"}, {"p/beta", "alpha"}}},
	"srcc": {{{"p/alpha", "first"}, {"p/apps/v1", "v1"}}, {{"p/alpha", "second"}, {"p/sync", "sync"}, {"p/beta", "_"}}},
}

func l1WriteModule(root string) error {
	w := func(rel, text string) error {
		p := filepath.Join(root, rel)
		if err := os.MkdirAll(filepath.Dir(p), 0o755); err != nil {
			return err
		}
		return os.WriteFile(p, []byte(text), 0o644)
	}
	if err := w("go.mod", "module "+l1Module+"\n\ngo 1.24\n"); err != nil {
		return err
	}
	for _, d := range l1Disk {
		if err := w(d[0]+"/x.go", "package "+d[1]+"\n\ntype T struct{}\n"); err != nil {
			return err
		}
	}
	for name, files := range l1Sources {
		for k, specs := range files {
			var b strings.Builder
			fmt.Fprintf(&b, "package %s\n\n", name)
			for _, s := range specs {
				fmt.Fprintf(&b, "import %s \"%s/%s\"\n", s[1], l1Module, s[0])
			}
			for j, s := range specs {
				if s[1] != "_" {
					fmt.Fprintf(&b, "var _ %s.T // %d\n", s[1], j)
				}
			}
			if err := w(fmt.Sprintf("%s/f%d.go", name, k), b.String()); err != nil {
				return err
			}
		}
		if err := w(name+"/other/doc.go", "package other\n"); err != nil {
			return err
		}
	}
	return nil
}

// ---------- the generator of histories ----------

var l1Comps = []string{"alpha", "beta", "client", "one", "two", "v1", "v2", "core", "apps", "api", "go-yaml", "yaml",
	"yaml.v3", "my_pkg", "mypkg", "foo-bar", "foobar", "x", "type", "range", "3d", "sync", "http", "net", "s", "s1",
	"n", "mock", "Upper", "a~b", "a.b", "vendor", "internal", "pkg", "q"}
var l1Names = []string{"alpha", "beta", "client", "v1", "yaml", "sync", "http", "x", "q", "s", "s1", "n", "mock", "api",
	"oneclient", "twoclient", "corev1", "appsv1", "z", "bar", "foobar", "my_pkg", "time", "context", "errors",
	"clientMoqParam", "v1MoqParam", "sMoqParam", "clientMoqParam", "v1MoqParam"}
var l1VarNames = []string{"", "", "", "_", "s", "s1", "s2", "n", "n1", "err", "v", "t", "tMoqParam", "mock", "callInfo",
	"sync", "client", "oneclient", "twoclient", "clientMoqParam", "v1", "corev1", "appsv1", "alpha", "yaml", "goyaml",
	"x", "q", "api", "v1api", "in", "in1", "out", "sOut", "errOut", "string", "int", "ctx", "id", "url"}

type l1Pkg struct {
	Path string `json:"path"`
	Name string `json:"name"`
}

// one operation: V = AddVar in the current scope, S = new scope, I = AddImport
type l1Op struct {
	Op     string `json:"op"`
	Name   string `json:"name,omitempty"`
	Suffix string `json:"suffix,omitempty"`
	Shape  string `json:"shape,omitempty"` // how the type is built from the packages
	Pkgs   []int  `json:"pkgs,omitempty"`  // indexes into the history's package list
}

type l1History struct {
	ID   string  `json:"id"`
	Src  string  `json:"src"`
	Moq  string  `json:"moq"` // the -pkg value: "" or "other"
	Pkgs []l1Pkg `json:"pkgs"`
	Ops  []l1Op  `json:"ops"`
}

var l1Shapes = []string{"named", "named", "named", "ptr", "slice", "map", "func", "chan", "struct", "iface", "basic",
	"basicslice", "array", "nested", "unsafe"}

func l1Generate(seed int64, idx int) l1History {
	r := rand.New(rand.NewSource(seed*1000003 + int64(idx)))
	h := l1History{ID: fmt.Sprintf("l1-%d-%d", seed, idx)}
	srcs := []string{"srca", "srcb", "srcc"}
	h.Src = srcs[r.Intn(len(srcs))]
	if r.Intn(3) == 0 {
		h.Moq = "other"
	}
	np := 2 + r.Intn(6)
	for i := 0; i < np; i++ {
		var p l1Pkg
		switch r.Intn(10) {
		case 0, 1, 2: // a package that exists on disk (the source files may alias it)
			d := l1Disk[r.Intn(len(l1Disk))]
			p = l1Pkg{l1Module + "/" + d[0], d[1]}
		case 3: // the source package itself, or its sub-package
			p = l1Pkg{l1Module + "/" + h.Src, h.Src}
			if r.Intn(2) == 0 {
				p = l1Pkg{l1Module + "/" + h.Src + "/other", "other"}
			}
		case 4: // standard-library look-alikes
			std := [][2]string{{"sync", "sync"}, {"net/http", "http"}, {"context", "context"}, {"time", "time"},
				{"text/template", "template"}, {"html/template", "template"}, {"unsafe", "unsafe"}}
			s := std[r.Intn(len(std))]
			p = l1Pkg{s[0], s[1]}
		default:
			n := 1 + r.Intn(4)
			comps := make([]string, n)
			for j := range comps {
				comps[j] = l1Comps[r.Intn(len(l1Comps))]
			}
			path := strings.Join(comps, "/")
			if r.Intn(6) == 0 {
				path = "host.io/" + path
			}
			name := l1Names[r.Intn(len(l1Names))]
			if r.Intn(2) == 0 { // most packages are called like their directory
				name = strings.NewReplacer("-", "", ".", "", "~", "", "_", "").Replace(strings.ToLower(comps[n-1]))
				if name == "" || (name[0] >= '0' && name[0] <= '9') || name == "type" || name == "range" || name == "vendor" {
					name = "p" + name
				}
			}
			p = l1Pkg{path, name}
		}
		if r.Intn(8) == 0 { // seen through a vendor directory
			p.Path = []string{"example.com/l1/vendor/", "a/b/vendor/", "vendor/"}[r.Intn(3)] + p.Path
		}
		h.Pkgs = append(h.Pkgs, p)
	}
	if r.Intn(16) == 0 {
		// two packages of one name whose paths the replacer maps to the same components: the family
		// on which resolveImportConflict never finds a level that tells them apart (finding D12)
		twins := [][2]string{{"foo-bar", "foobar"}, {"go-yaml", "goyaml"}, {"my_pkg", "mypkg"}, {"a.b", "ab"}, {"a~b", "ab"}, {"Upper", "upper"}}
		tw := twins[r.Intn(len(twins))]
		pre := l1Comps[r.Intn(len(l1Comps))]
		post := l1Comps[r.Intn(len(l1Comps))]
		name := l1Names[r.Intn(len(l1Names))]
		h.Pkgs[0] = l1Pkg{pre + "/" + tw[0] + "/" + post, name}
		h.Pkgs[1] = l1Pkg{pre + "/" + tw[1] + "/" + post, name}
	}
	nscopes := 1 + r.Intn(3)
	for s := 0; s < nscopes; s++ {
		if s > 0 {
			h.Ops = append(h.Ops, l1Op{Op: "S"})
		}
		nv := 1 + r.Intn(5)
		for v := 0; v < nv; v++ {
			if r.Intn(9) == 0 {
				h.Ops = append(h.Ops, l1Op{Op: "I", Pkgs: []int{r.Intn(np)}})
			}
			op := l1Op{Op: "V", Name: l1VarNames[r.Intn(len(l1VarNames))], Shape: l1Shapes[r.Intn(len(l1Shapes))],
				Pkgs: []int{r.Intn(np), r.Intn(np), r.Intn(np)}}
			if r.Intn(4) == 0 {
				op.Name = h.Pkgs[r.Intn(np)].Name // a name that is some package's qualifier
			}
			if v >= nv-2 && r.Intn(3) == 0 {
				op.Suffix = "Out"
			}
			h.Ops = append(h.Ops, op)
		}
	}
	if r.Intn(2) == 0 { // what Mocker.Mock does last
		h.Pkgs = append(h.Pkgs, l1Pkg{"sync", "sync"})
		h.Ops = append(h.Ops, l1Op{Op: "I", Pkgs: []int{len(h.Pkgs) - 1}})
	}
	return h
}

// l1Triples enumerates, exhaustively, every ordered triple of distinct packages from a fixed pool
// chosen for the alias resolver (equal names under different directories, version suffixes, names
// different from the directory, components the replacer changes, keywords, digits, twins, a
// look-alike of sync), registered in that order by three variables of one scope, under each of
// the three source packages: a complete small scope for AddImport / resolveImportConflict.
var l1TriplePool = []l1Pkg{
	{"a/one/client", "client"}, {"a/two/client", "client"}, {"a/oneclient", "oneclient"}, {"b/one/client", "client"},
	{"k8s.io/api/core/v1", "v1"}, {"k8s.io/api/apps/v1", "v1"}, {"w/corev1", "corev1"},
	{"gopkg.in/yaml.v3", "yaml"}, {"github.com/go-yaml/yaml", "yaml"}, {"github.com/goyaml/yaml", "yaml"},
	{"m/type/q", "q"}, {"m/3d/q", "q"}, {"x/sync", "sync"}, {"p/bar", "bar"}, {"q/foobar", "z"}, {"foo/bar", "z"},
}

func l1Triples() []l1History {
	var hs []l1History
	n := len(l1TriplePool)
	srcs := []string{"srca", "srcb", "srcc"}
	k := 0
	for a := 0; a < n; a++ {
		for b := 0; b < n; b++ {
			for c := 0; c < n; c++ {
				if a == b || b == c || a == c {
					continue
				}
				h := l1History{ID: fmt.Sprintf("l1t-%d-%d-%d", a, b, c), Src: srcs[k%3],
					Pkgs: []l1Pkg{l1TriplePool[a], l1TriplePool[b], l1TriplePool[c], {"sync", "sync"}}}
				for i := 0; i < 3; i++ {
					h.Ops = append(h.Ops, l1Op{Op: "V", Name: []string{"", "client", "v1"}[(k+i)%3], Shape: "named", Pkgs: []int{i, i, i}})
				}
				h.Ops = append(h.Ops, l1Op{Op: "I", Pkgs: []int{3}})
				hs = append(hs, h)
				k++
			}
		}
	}
	return hs
}

// ---------- building go/types objects ----------

type l1World struct {
	pkgs  []*types.Package
	named map[int]*types.Named
}

func (w *l1World) T(i int) types.Type {
	if n, ok := w.named[i]; ok {
		return n
	}
	tn := types.NewTypeName(token.NoPos, w.pkgs[i], "T", nil)
	n := types.NewNamed(tn, types.NewStruct(nil, nil), nil)
	w.named[i] = n
	return n
}

func (w *l1World) build(op l1Op) types.Type {
	a, b, c := w.T(op.Pkgs[0]), w.T(op.Pkgs[1]), w.T(op.Pkgs[2])
	v := func(t types.Type) *types.Var { return types.NewVar(token.NoPos, nil, "", t) }
	switch op.Shape {
	case "ptr":
		return types.NewPointer(a)
	case "slice":
		return types.NewSlice(a)
	case "array":
		return types.NewArray(a, 3)
	case "map":
		return types.NewMap(a, b)
	case "func":
		return types.NewSignatureType(nil, nil, nil, types.NewTuple(v(a), v(types.NewSlice(b))), types.NewTuple(v(c)), true)
	case "chan":
		return types.NewChan(types.RecvOnly, a)
	case "struct":
		return types.NewStruct([]*types.Var{types.NewField(token.NoPos, nil, "F", a, false),
			types.NewField(token.NoPos, nil, "G", types.NewPointer(b), false)}, []string{"", `json:"g"`})
	case "iface":
		sig := types.NewSignatureType(nil, nil, nil, types.NewTuple(v(a)), types.NewTuple(v(b)), false)
		it := types.NewInterfaceType([]*types.Func{types.NewFunc(token.NoPos, nil, "M", sig)}, nil)
		it.Complete()
		return it
	case "basic":
		return []types.Type{types.Typ[types.String], types.Typ[types.Int], types.Typ[types.Bool], types.Typ[types.Float64],
			types.Universe.Lookup("error").Type(), types.Typ[types.Uint8]}[op.Pkgs[0]%6]
	case "basicslice":
		return types.NewSlice([]types.Type{types.Typ[types.String], types.Typ[types.Int], types.Typ[types.Byte]}[op.Pkgs[0]%3])
	case "nested":
		return types.NewMap(types.Typ[types.String], types.NewSlice(types.NewPointer(types.NewMap(a, types.NewChan(types.SendRecv, b)))))
	case "unsafe":
		return types.NewMap(a, types.Typ[types.UnsafePointer])
	}
	return a
}

// ---------- one history against the real registry ----------

type l1Obs struct {
	ID      string `json:"id"`
	Kind    string `json:"kind"` // ok | panic | crash | timeout | skipped
	Text    string `json:"text,omitempty"`
	Case    string `json:"case,omitempty"`    // Coq term: the history (l1hist)
	Obs     string `json:"obs,omitempty"`     // Coq term: what was observed
	History *l1History `json:"history,omitempty"`
	Stats   map[string]int `json:"stats,omitempty"`
	Names   [][]string `json:"names,omitempty"`   // the final variable names per scope, as observed
	Quals   []string   `json:"quals,omitempty"`   // the qualifiers of Registry.Imports()
}

func l1Run(root string, h l1History, dumpOnly bool) (o l1Obs) {
	o.ID = h.ID
	o.History = &h
	w := &l1World{named: map[int]*types.Named{}}
	for _, p := range h.Pkgs {
		w.pkgs = append(w.pkgs, types.NewPackage(p.Path, p.Name))
	}
	// the model's view of the history
	d := &dumper{}
	var ops []string
	tys := make([]types.Type, len(h.Ops))
	for i, op := range h.Ops {
		switch op.Op {
		case "S":
			ops = append(ops, "L1Scope")
		case "I":
			ops = append(ops, fmt.Sprintf("(L1Import %s)", coqPkg(w.pkgs[op.Pkgs[0]])))
		case "V":
			tys[i] = w.build(op)
			t, err := d.ty(tys[i])
			if err != nil {
				o.Kind, o.Text = "skipped", err.Error()
				return
			}
			ops = append(ops, fmt.Sprintf("(L1Var %s %s %s)", coqStr(op.Name), t, coqStr(op.Suffix)))
		}
	}
	srcDir := filepath.Join(root, h.Src)
	moqPath := l1Module + "/" + h.Src
	if h.Moq != "" {
		// findPkgPath compares the package NAME found in the directory with an import PATH (finding
		// D15), so for an ordinary layout it answers ""
		moqPath = ""
	}
	var specs []string
	for _, f := range l1Sources[h.Src] {
		for _, s := range f {
			specs = append(specs, fmt.Sprintf("(%s, %s)", coqStr(l1Module+"/"+s[0]), coqStr(s[1])))
		}
	}
	o.Case = fmt.Sprintf("(mkL1 %s %s %s %s)", coqStr(h.ID), coqStr(moqPath), coqList(specs), coqList(ops))
	if dumpOnly {
		o.Kind = "dump"
		return
	}
	defer func() {
		if r := recover(); r != nil {
			o.Kind, o.Text = "panic", fmt.Sprint(r)
			o.Obs = "L1Panic"
		}
	}()
	if err := os.Chdir(srcDir); err != nil {
		o.Kind, o.Text = "skipped", err.Error()
		return
	}
	reg, err := registry.New(".", h.Moq)
	if err != nil {
		o.Kind, o.Text = "skipped", "registry.New: "+err.Error()
		return
	}
	var scopes [][]*registry.Var
	scope := reg.MethodScope()
	var cur []*registry.Var
	for i, op := range h.Ops {
		switch op.Op {
		case "S":
			scopes = append(scopes, cur)
			cur = nil
			scope = reg.MethodScope()
		case "I":
			reg.AddImport(w.pkgs[op.Pkgs[0]])
		case "V":
			vr := types.NewVar(token.NoPos, nil, op.Name, tys[i])
			cur = append(cur, scope.AddVar(vr, op.Suffix))
		}
	}
	scopes = append(scopes, cur)
	var ss []string
	nvars := 0
	for _, sc := range scopes {
		var vs []string
		names := []string{}
		for _, v := range sc {
			vs = append(vs, fmt.Sprintf("(%s, %s)", coqStr(v.Name), coqStr(v.TypeString())))
			names = append(names, v.Name)
			nvars++
		}
		o.Names = append(o.Names, names)
		ss = append(ss, coqList(vs))
	}
	var ims []string
	for _, p := range reg.Imports() {
		ims = append(ims, fmt.Sprintf("(%s, %s)", coqStr(p.Path()), coqStr(p.Qualifier())))
		o.Quals = append(o.Quals, p.Qualifier())
	}
	o.Kind = "ok"
	o.Obs = fmt.Sprintf("(L1Ok %s %s)", coqList(ss), coqList(ims))
	o.Stats = map[string]int{"vars": nvars, "imports": len(ims), "scopes": len(scopes)}
	return
}

// ---------- driver with crash isolation (a runaway recursion is a fatal error) ----------

func cmdL1(args []string) {
	fs := flag.NewFlagSet("l1", flag.ExitOnError)
	n := fs.Int("n", 200, "number of histories")
	seed := fs.Int64("seed", 1, "seed")
	root := fs.String("root", "", "scratch directory for the module of source packages")
	outPath := fs.String("out", "", "output JSONL of observations")
	shards := fs.Int("shards", 16, "parallel worker processes")
	perCase := fs.Duration("timeout", 30*time.Second, "per-history timeout")
	only := fs.String("only", "", "JSON file with one history, or a list of histories, to run instead of generated ones")
	triples := fs.Bool("triples", false, "also enumerate every ordered triple of the alias-resolver pool")
	fs.Parse(args)
	if err := l1WriteModule(*root); err != nil {
		die("%v", err)
	}
	var hs []l1History
	if *only != "" {
		raw, err := os.ReadFile(*only)
		if err != nil {
			die("%v", err)
		}
		if err := json.Unmarshal(raw, &hs); err != nil {
			var h l1History
			if err := json.Unmarshal(raw, &h); err != nil {
				die("%v", err)
			}
			hs = []l1History{h}
		}
	} else {
		for i := 0; i < *n; i++ {
			hs = append(hs, l1Generate(*seed, i))
		}
		if *triples {
			hs = append(hs, l1Triples()...)
		}
	}
	results := make([]l1Obs, len(hs))
	var wg sync.WaitGroup
	k := *shards
	if k > len(hs) {
		k = len(hs)
	}
	if k < 1 {
		k = 1
	}
	for s := 0; s < k; s++ {
		wg.Add(1)
		go func(s int) {
			defer wg.Done()
			var idx []int
			for i := s; i < len(hs); i += k {
				idx = append(idx, i)
			}
			l1Shard(*root, hs, idx, results, *perCase)
		}(s)
	}
	wg.Wait()
	f, err := os.Create(*outPath)
	if err != nil {
		die("%v", err)
	}
	bw := bufio.NewWriter(f)
	enc := json.NewEncoder(bw)
	for _, r := range results {
		enc.Encode(r)
	}
	bw.Flush()
	f.Close()
}

func l1Shard(root string, hs []l1History, idx []int, results []l1Obs, perCase time.Duration) {
	self, _ := os.Executable()
	var cmd *exec.Cmd
	var stdin io.WriteCloser
	var rd *bufio.Reader
	var stderr *bytes.Buffer
	start := func() {
		cmd = exec.Command(self, "l1worker", "-root", root)
		stdin, _ = cmd.StdinPipe()
		so, _ := cmd.StdoutPipe()
		stderr = &bytes.Buffer{}
		cmd.Stderr = stderr
		if err := cmd.Start(); err != nil {
			die("cannot start worker: %v", err)
		}
		rd = bufio.NewReaderSize(so, 1<<20)
	}
	stop := func() {
		if cmd != nil {
			stdin.Close()
			cmd.Process.Kill()
			cmd.Wait()
			cmd = nil
		}
	}
	defer stop()
	redump := func(h l1History, o l1Obs) l1Obs {
		d := l1Run(root, h, true)
		o.Case, o.History = d.Case, d.History
		return o
	}
	for _, i := range idx {
		if cmd == nil {
			start()
		}
		b, _ := json.Marshal(hs[i])
		stdin.Write(append(b, '\n'))
		type res struct {
			line []byte
			err  error
		}
		ch := make(chan res, 1)
		go func() {
			l, err := rd.ReadBytes('\n')
			ch <- res{l, err}
		}()
		select {
		case r := <-ch:
			if r.err != nil {
				cmd.Wait()
				msg := stderr.String()
				if len(msg) > 400 {
					msg = msg[:400]
				}
				cmd = nil
				results[i] = redump(hs[i], l1Obs{ID: hs[i].ID, Kind: "crash", Text: msg, Obs: "L1Crash"})
				continue
			}
			var o l1Obs
			if err := json.Unmarshal(r.line, &o); err != nil {
				results[i] = l1Obs{ID: hs[i].ID, Kind: "skipped", Text: "bad worker output"}
				continue
			}
			results[i] = o
		case <-time.After(perCase):
			stop()
			results[i] = redump(hs[i], l1Obs{ID: hs[i].ID, Kind: "timeout", Obs: "L1Crash"})
		}
	}
}

func cmdL1Worker(args []string) {
	fs := flag.NewFlagSet("l1worker", flag.ExitOnError)
	root := fs.String("root", "", "module of source packages")
	fs.Parse(args)
	debug.SetMaxStack(32 << 20)
	rd := bufio.NewReaderSize(os.Stdin, 1<<20)
	w := bufio.NewWriter(os.Stdout)
	enc := json.NewEncoder(w)
	for {
		line, err := rd.ReadBytes('\n')
		if len(line) > 0 {
			var h l1History
			if json.Unmarshal(line, &h) == nil {
				enc.Encode(l1Run(*root, h, false))
				w.Flush()
			}
		}
		if err != nil {
			return
		}
	}
}
