// Command vh is the Go side of the moq verification harness: the translator that
// regenerates Coq files from /repo's source, the dumper of go/types objects into
// model inputs, the lifter of generated mocks into instruction programs, and the
// runners that exercise the real implementation.
package main

import (
	"fmt"
	"os"
)

var subcommands = map[string]func(args []string){}

func main() {
	if len(os.Args) < 2 {
		fmt.Fprintln(os.Stderr, "usage: vh <subcommand> [args]")
		os.Exit(2)
	}
	f, ok := subcommands[os.Args[1]]
	if !ok {
		fmt.Fprintf(os.Stderr, "vh: unknown subcommand %q\n", os.Args[1])
		os.Exit(2)
	}
	f(os.Args[2:])
}
