package main

import (
	"bytes"
	"fmt"
	"go/ast"
	"go/printer"
	"strings"
)

// normStmt prints one statement without comments and with whitespace collapsed,
// so that reformatting and comments do not change the skeleton.
func (tr *translator) normNode(n ast.Node) string {
	var b bytes.Buffer
	printer.Fprint(&b, tr.fset, n)
	return strings.Join(strings.Fields(b.String()), " ")
}

type skelSpec struct {
	coqName, file, recv, fn string
}

var skelSpecs = []skelSpec{
	{"src_main_run", "main.go", "", "run"},
	{"src_main_main", "main.go", "", "main"},
	{"src_mocker_mock", "pkg/moq/moq.go", "Mocker", "Mock"},
	{"src_mocker_format", "pkg/moq/moq.go", "Mocker", "format"},
	{"src_mock_pkg_name", "pkg/moq/moq.go", "Mocker", "mockPkgName"},
	{"src_parse_interface_name", "pkg/moq/moq.go", "", "parseInterfaceName"},
	{"src_moq_new", "pkg/moq/moq.go", "", "New"},
	{"src_gofmt", "pkg/moq/formatter.go", "", "gofmt"},
	{"src_goimports", "pkg/moq/formatter.go", "", "goimports"},
}

// skeletons emits, for the short straight-line functions whose *order of effects*
// the CLI theorems are about, the list of their top-level statements as normalised
// text.  The Coq side maps each known statement to a step constructor; anything it
// does not recognise becomes an Unknown step on which the interpreter is stuck.
func (tr *translator) skeletons() ([]byte, error) {
	var b bytes.Buffer
	b.WriteString("(* REGENERATED from /repo's source by `vh trans` on every run. Do not edit. *)\n")
	b.WriteString("From Moq Require Import Strs.\n\n")
	for _, sp := range skelSpecs {
		f, err := tr.parseFile(sp.file)
		if err != nil {
			return nil, err
		}
		fd := findFunc(f, sp.recv, sp.fn)
		var stmts []string
		if fd == nil || fd.Body == nil {
			stmts = []string{"<missing function " + sp.fn + ">"}
		} else {
			stmts = append(stmts, "func "+tr.normNode(fd.Type))
			for _, st := range fd.Body.List {
				stmts = append(stmts, tr.normNode(st))
			}
		}
		items := make([]string, len(stmts))
		for i, s := range stmts {
			items[i] = coqStr(s)
		}
		fmt.Fprintf(&b, "Definition %s : list string :=\n  [%s].\n\n", sp.coqName, strings.Join(items, ";\n   "))
	}
	return b.Bytes(), nil
}
