(* P_C04.v -- C04: every call is recorded, in order, with its exact arguments. *)
From Moq Require Import Strs MockSem MockSpec MockSeq_Proofs.
From Coq Require Import Lia.
Local Open Scope list_scope.

(* the zero-value mock needs no initialisation and reports no calls *)
Theorem C04_zero_value : SInv init_state /\ forall m, abs init_state m = [].
Proof. split; [exact init_inv|exact init_abs]. Qed.

Section C04.
Variable grow : nat -> nat.
Hypothesis grow_grows : forall n, n < grow n.
Variables stub resets : bool.
Variable mk : mmock.
Hypothesis CAN : canonical stub resets mk = true.

(* The records behave as one list per method: after any history of calls, reads and
   resets -- with arbitrary re-entrant callbacks -- the slice each method holds denotes
   exactly the specification's list, and every MCalls() returned exactly that list. *)
Theorem C04_refines_list l :
  forallb (wf_op mk resets) l = true ->
  exists st' evs lg' sevs,
    run_ops grow mk l init_state = Some (st', evs) /\
    spec_ops stub mk l empty_logs = Some (lg', sevs) /\
    SInv st' /\ (forall m, abs st' m = lg' m) /\
    Forall2 (ev_match (st_heap st')) evs sevs.
Proof.
  intros WF.
  destruct (refine_ops grow grow_grows stub resets mk CAN l WF init_state empty_logs init_inv
                       (fun x => init_abs x))
    as [st' [evs [lg' [sevs [R [S [I [_ [A M]]]]]]]]].
  exists st', evs, lg', sevs. auto.
Qed.

(* one field per parameter, in parameter order, holding that call's values *)
Theorem C04_record_shape m mm args st :
  find_method mk m = Some mm -> List.length args = mm_nparams mm -> SInv st ->
  abs (do_record grow st m (rec_of mm args)) m = abs st m ++ [combine (mm_record mm) args] /\
  List.length (mm_record mm) = mm_nparams mm /\
  (forall x, x <> m -> abs (do_record grow st m (rec_of mm args)) x = abs st x).
Proof.
  intros FM LEN INV.
  destruct (do_record_spec grow grow_grows st m (rec_of mm args) INV) as [_ [_ [AM AO]]].
  split; [exact AM|]. split; [|exact AO].
  destruct (find_method_canonical stub resets mk CAN m mm FM) as [CM _].
  unfold canonical_method in CM. repeat (apply andb_prop in CM; destruct CM as [CM ?]).
  destruct (mm_body mm) as [body|]; [|discriminate].
  match goal with H : canonical_body _ _ _ = true |- _ =>
    destruct (canonical_body_inv _ _ _ H) as [msg [fs [spec [_ [CF _]]]]] end.
  unfold canonical_fields in CF. apply andb_prop in CF. destruct CF as [CF _].
  apply andb_prop in CF. destruct CF as [C1 C2].
  apply (list_eqb_eq _ _ _ nat_eqb_true) in C1. apply (list_eqb_eq _ _ _ str_eqb_true) in C2.
  rewrite <- C2, map_length. rewrite <- (map_length snd), C1. apply length_seq_from.
Qed.

(* recorded BEFORE the function runs: visible from inside it ... *)
Theorem C04_before_func m mm args res lg :
  find_method mk m = Some mm ->
  spec_op stub mk (OCall m args (Some (Impl [OCalls m] res))) lg =
  Some (log_set lg m (lg m ++ [rec_of mm args]),
        [SInvoke m args; SSnapshot m (lg m ++ [rec_of mm args]);
         match res with
         | FRet rs => SReturn m (if Nat.eqb (mm_nresults mm) 0 then [] else rs)
         | FPanic v => SPanicUser m v
         end]).
Proof.
  intros FM. cbn [spec_op]. rewrite FM. unfold log_set at 2. rewrite String.eqb_refl. reflexivity.
Qed.

(* ... and still recorded if the function panics *)
Theorem C04_recorded_despite_panic m mm args v lg lg' sevs :
  find_method mk m = Some mm ->
  spec_op stub mk (OCall m args (Some (Impl [] (FPanic v)))) lg = Some (lg', sevs) ->
  lg' m = lg m ++ [rec_of mm args] /\ sevs = [SInvoke m args; SPanicUser m v].
Proof.
  intros FM. cbn [spec_op]. rewrite FM. intros E. inversion E; subst. split; [|reflexivity].
  unfold log_set. rewrite String.eqb_refl. reflexivity.
Qed.

Lemma Forall2_In_l {A B} (R : A -> B -> Prop) l1 l2 x :
  Forall2 R l1 l2 -> In x l1 -> exists y, In y l2 /\ R x y.
Proof.
  induction 1 as [|a b l1 l2 H F IH]; intros I; [destruct I|].
  destruct I as [<-|I]; [exists b; split; [left; reflexivity|exact H]|].
  destruct (IH I) as [y [Iy Ry]]. exists y. split; [right; exact Iy|exact Ry].
Qed.

(* a slice already returned by MCalls() is never changed by later calls or resets *)
Theorem C04_snapshot_stable l1 l2 st1 evs1 st2 evs2 m s :
  forallb (wf_op mk resets) l1 = true -> forallb (wf_op mk resets) l2 = true ->
  run_ops grow mk l1 init_state = Some (st1, evs1) ->
  In (EvSnapshot m s) evs1 ->
  run_ops grow mk l2 st1 = Some (st2, evs2) ->
  denote (st_heap st2) s = denote (st_heap st1) s.
Proof.
  intros WF1 WF2 R1 IN R2.
  destruct (refine_ops grow grow_grows stub resets mk CAN l1 WF1 init_state empty_logs init_inv
                       (fun x => init_abs x))
    as [st1' [evs1' [lg1 [sevs1 [R1' [_ [I1 [_ [A1 M1]]]]]]]]].
  rewrite R1 in R1'. inversion R1'; subst st1' evs1'; clear R1'.
  destruct (refine_ops grow grow_grows stub resets mk CAN l2 WF2 st1 lg1 I1 A1)
    as [st2' [evs2' [lg2 [sevs2 [R2' [_ [_ [X2 _]]]]]]]].
  rewrite R2 in R2'. inversion R2'; subst st2' evs2'; clear R2'.
  destruct (Forall2_In_l _ _ _ _ M1 IN) as [se [_ MATCH]].
  destruct se; simpl in MATCH; try contradiction. destruct MATCH as [_ ST].
  rewrite (ST (st_heap st2) X2). rewrite (ST (st_heap st1) (heap_ext_refl _)). reflexivity.
Qed.
End C04.
