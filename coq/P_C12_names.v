(* P_C12_names.v -- C12 / C13: the identifiers moq chooses are valid identifiers.
   Statements only; proofs in Names_Proofs.v. *)
From Moq Require Import Strs GoTypes TypeString VarName Registry Scope Gen Benign WellScoped Names_Proofs NamesRun_Proofs.
Local Open Scope string_scope.

(* a name derived from a type is an identifier whenever the type names it is built from are *)
Theorem C12_type_derived_name_is_identifier : forall t,
  names_ok t = true -> is_identifier (var_name_for_type t) = true.
Proof. exact var_name_for_type_identifier. Qed.

(* varName: declared or derived, with the Out suffix and the MoqParam escapes *)
Theorem C12_var_name_is_identifier name t suffix :
  declared_ok name = true -> names_ok t = true -> forall_str is_ident_char suffix = true ->
  is_identifier (var_name name t suffix) = true.
Proof. exact (var_name_identifier name t suffix). Qed.

(* AddVar, any registry, any scope: after import-driven renames, qualifier escapes and numbering
   every variable of the scope still has an identifier as its name *)
Theorem C12_add_var_names_are_identifiers cfg r sc name t suffix r' sc' idx :
  add_var cfg r sc name t suffix = Ok (r', sc', idx) ->
  AllIdent (sc_vars sc) -> declared_ok name = true -> names_ok t = true ->
  forall_str is_ident_char suffix = true ->
  AllIdent (sc_vars sc').
Proof. exact (add_var_identifiers cfg r sc name t suffix r' sc' idx). Qed.

(* D33 (repaired by ec39d16): nested unsafe.Pointer is named after the type's name *)
Example C13_unsafe_pointer_fixed :
  var_name "" (TSlice (TBasic "Pointer" KOther true)) "" = "pointers" /\
  var_name "" (TMap (TBasic "string" KString false) (TBasic "Pointer" KOther true)) "" = "stringToPointer".
Proof. exact unsafe_pointer_names. Qed.

(* the whole run: under the computed guard (at no AddVar does an import-driven rename q -> qMoqParam
   land on a taken name) the parameters -- and with -stub the results -- of every generated method
   of every mock have pairwise distinct names *)
Theorem C12_distinct_whole_run i c args d :
  mock_run i c args = Ok d -> names_run_ok i c args = true ->
  forallb (fun k => forallb (names_distinct d) (mk_methods k)) (d_mocks d) = true.
Proof. exact (run_names_distinct i c args d). Qed.

(* the guard holds on a run in which numbering and a qualifier escape both happen *)
Example C12_distinct_guard_holds :
  let src := mkPkg "example.com/m/store" "store" in
  let cl := mkPkg "example.com/m/one/client" "client" in
  let s := TBasic "string" KString false in
  let i := mkInput src [] None
     [("Repo", LIface true true []
        [mkMethod "Get" (mkSig [("", s); ("client", s); ("", s); ("c", TNamed (Some cl) "T" [])] false [("", s)])])] in
  names_run_ok i (mkConfig "" true false false) ["Repo"] = true /\
  match mock_run i (mkConfig "" true false false) ["Repo"] with
  | Ok d => map (fun k => map (fun m => map pd_name (md_params m ++ md_returns m)%list) (mk_methods k)) (d_mocks d)
            = [[["s1"; "clientMoqParam"; "s2"; "c"; "sOut"]]]
  | _ => False
  end.
Proof. vm_compute. split; reflexivity. Qed.
