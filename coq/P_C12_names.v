(* P_C12_names.v -- C12 / C13: the identifiers moq chooses are valid identifiers.
   Statements only; proofs in Names_Proofs.v. *)
From Moq Require Import Strs GoTypes TypeString VarName Registry Scope Names_Proofs.
Local Open Scope string_scope.

(* a name derived from a type is an identifier whenever the type names it is built from are *)
Theorem C12_type_derived_name_is_identifier : forall t,
  names_ok t = true -> is_identifier (var_name_for_type t) = true.
Proof. exact var_name_for_type_identifier. Qed.

(* varName: declared or derived, with the Out suffix and the MoqParam escapes *)
Theorem C12_var_name_is_identifier name t suffix :
  declared_ok name = true -> names_ok t = true -> forall_str is_ident_char suffix = true ->
  is_identifier (var_name name t suffix) = true.
Proof. exact (var_name_identifier name t suffix). Qed.

(* AddVar, any registry, any scope: after import-driven renames, qualifier escapes and numbering
   every variable of the scope still has an identifier as its name *)
Theorem C12_add_var_names_are_identifiers cfg r sc name t suffix r' sc' idx :
  add_var cfg r sc name t suffix = Ok (r', sc', idx) ->
  AllIdent (sc_vars sc) -> declared_ok name = true -> names_ok t = true ->
  forall_str is_ident_char suffix = true ->
  AllIdent (sc_vars sc').
Proof. exact (add_var_identifiers cfg r sc name t suffix r' sc' idx). Qed.

(* D33 (repaired by ec39d16): nested unsafe.Pointer is named after the type's name *)
Example C13_unsafe_pointer_fixed :
  var_name "" (TSlice (TBasic "Pointer" KOther true)) "" = "pointers" /\
  var_name "" (TMap (TBasic "string" KString false) (TBasic "Pointer" KOther true)) "" = "stringToPointer".
Proof. exact unsafe_pointer_names. Qed.
