(* WholeRun_Proofs.v -- C02 / C20 for the WHOLE run: what a mock is as a type (interface, name,
   number of type parameters, and per method: name, parameter types in order, variadic flags,
   result types) is a function of its own argument and the looked-up interface alone --
   independent of every other argument, of their order, of -pkg, -stub, -skip-ensure,
   -with-resets and of the import aliases.  *)
From Moq Require Import Strs Strs_Proofs GoTypes TypeString VarName Registry Scope Gen P_C20 P_C02.
From Coq Require Import Lia.
Local Open Scope list_scope.

Definition erased_method : Type := string * list ty * list bool * list ty.
Definition erase_method (md : method_d) : erased_method :=
  (md_name md, map pd_ty (md_params md), map pd_variadic (md_params md), map pd_ty (md_returns md)).
Definition expect_method (m : method) : erased_method :=
  (m_name m, map snd (s_params (m_sig m)),
   match s_params (m_sig m) with
   | [] => []
   | ps => repeat false (List.length ps - 1) ++ [s_variadic (m_sig m)]
   end,
   map snd (s_results (m_sig m))).

Definition erased_mock : Type := string * string * nat * list erased_method.
Definition erase_mock (k : mock_d) : erased_mock :=
  (mk_iface k, mk_name k, List.length (mk_tparams k), map erase_method (mk_methods k)).
Definition expect_mock (i : input) (a : string) : option erased_mock :=
  let '(name, mock_name) := parse_interface_name a in
  match assoc name (in_lookup i) with
  | Some (LIface _ _ tps ms) => Some (name, mock_name, List.length tps, map expect_method ms)
  | _ => None
  end.

Lemma methods_data_erased cfg rf ms : forall r r' rms,
  methods_data cfg r ms = Ok (r', rms) ->
  map erase_method (map (finish_method cfg rf) rms) = map expect_method ms.
Proof.
  induction ms as [|m ms IH]; intros r r' rms; cbn [methods_data].
  - intros E. inversion E; subst. reflexivity.
  - destruct (method_data cfg r m) as [[r1 rm]| | | |] eqn:M; try discriminate. cbn [bind].
    destruct (methods_data cfg r1 ms) as [[r2 rms2]| | | |] eqn:MS; try discriminate. cbn [bind].
    intros E. inversion E; subst. cbn [map]. rewrite (IH _ _ _ MS). f_equal.
    destruct (C02_method_signature _ _ _ _ _ rf M) as [N [P [R V]]]. cbv zeta in N, P, R, V.
    unfold erase_method, expect_method. rewrite N, P, R, V. reflexivity.
Qed.

Lemma collect_erased i cfg rf args : forall r r' rks,
  collect i cfg r args = Ok (r', rks) ->
  map (fun k => Some (erase_mock (finish_mock cfg rf k))) rks = map (expect_mock i) args.
Proof.
  induction args as [|np rest IH]; intros r r' rks; cbn [collect].
  - intros E. inversion E; subst. reflexivity.
  - unfold expect_mock at 1. destruct (parse_interface_name np) as [name mock_name] eqn:PN.
    destruct (assoc name (in_lookup i)) as [[| |mset isty tps meths]|] eqn:AS; try discriminate.
    destruct (methods_data cfg r meths) as [[r1 rms]| | | |] eqn:M; try discriminate. cbn [bind].
    destruct (type_params cfg r1 tps) as [[r2 tsc]| | | |] eqn:T; try discriminate. cbn [bind].
    destruct (collect i cfg r2 rest) as [[r3 rks']| | | |] eqn:C; try discriminate. cbn [bind].
    intros E. inversion E; subst. cbn [map]. rewrite (IH _ _ _ C). f_equal.
    unfold expect_mock. rewrite PN, AS. f_equal.
    unfold erase_mock. cbn [finish_mock mk_iface mk_name mk_tparams mk_methods].
    rewrite (methods_data_erased _ _ _ _ _ _ M). f_equal. f_equal.
    unfold finish_tparams. cbn [rk_tscope rk_tparams]. rewrite map_length, combine_length.
    unfold type_params in T. pose proof (add_vars_tys _ _ _ _ _ _ _ T) as TY.
    assert (L : List.length (sc_vars tsc) = List.length tps).
    { rewrite <- (map_length v_ty), TY. cbn [empty_scope sc_vars map app]. rewrite !map_length. reflexivity. }
    rewrite L. apply Nat.min_id.
Qed.

(* the whole run: mock k is, as a type, what its own argument says *)
Theorem run_erased i c args d :
  mock_run i c args = Ok d ->
  map (fun k => Some (erase_mock k)) (d_mocks d) = map (expect_mock i) args.
Proof.
  unfold mock_run. destruct args as [|a args]; [discriminate|].
  destruct (collect i (rcfg_of i c) [] (a :: args)) as [[r1 rks]| | | |] eqn:C; try discriminate.
  cbn [bind].
  destruct (if existsb _ rks then _ else Ok r1) as [r2| | | |]; try discriminate. cbn [bind].
  destruct (if String.eqb (p_name (in_src i)) (mock_pkg_name i c) then _ else _) as [[r3 q]| | | |];
    try discriminate. cbn [bind].
  intros E. inversion E; subst. cbn [d_mocks]. rewrite map_map.
  apply (collect_erased _ _ r3 _ _ _ _ C).
Qed.

(* alone or together: the k-th mock of a joint run is, as a type, the mock of the run that
   generates the k-th argument alone -- under any other flags, package name and alias set *)
Theorem alone_or_together i c args d i' c' a d1 k :
  mock_run i c args = Ok d -> nth_error args k = Some a ->
  in_lookup i' = in_lookup i -> mock_run i' c' [a] = Ok d1 ->
  exists m m1, nth_error (d_mocks d) k = Some m /\ d_mocks d1 = [m1] /\ erase_mock m = erase_mock m1.
Proof.
  intros E NA LK E1. pose proof (run_erased _ _ _ _ E) as R. pose proof (run_erased _ _ _ _ E1) as R1.
  assert (X : expect_mock i' a = expect_mock i a). { unfold expect_mock. rewrite LK. reflexivity. }
  cbn [map] in R1. rewrite X in R1.
  destruct (d_mocks d1) as [|m1 [|m2 rest]]; try discriminate. cbn [map] in R1.
  assert (N : nth_error (map (fun k => Some (erase_mock k)) (d_mocks d)) k = Some (expect_mock i a)).
  { rewrite R. apply map_nth_error. exact NA. }
  destruct (nth_error (d_mocks d) k) as [m|] eqn:NM.
  - rewrite (map_nth_error _ _ _ NM) in N. exists m, m1. split; [reflexivity|]. split; [reflexivity|].
    inversion R1 as [Q]. rewrite <- Q in N. congruence.
  - exfalso. apply nth_error_None in NM. rewrite <- (map_length (fun k => Some (erase_mock k))) in NM.
    apply nth_error_None in NM. rewrite NM in N. discriminate.
Qed.
