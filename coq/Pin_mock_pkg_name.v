(* Pin_mock_pkg_name.v -- the model was written from exactly this source text (tie, see DESIGN 2.4). *)
From Moq Require Import Strs SkeletonPins.
From Moq.gen Require Import Skeletons.
Theorem pin_mock_pkg_name : src_mock_pkg_name = pinned_mock_pkg_name. Proof. reflexivity. Qed.
