(* Imports_Proofs.v -- the import block is exact, for every input on which the run succeeds:
   (no missing import) every package a rendered type mentions is either the destination
   package, printed bare, or is in the final import list, and the qualifier printed for it is
   the qualifier of that very import;
   (nothing else) every import is sync, the source package (self-check line), or a package
   visited in a signature or constraint of a requested interface.
   Invariants lifted through populate / AddVar / methodData / Mock. *)
From Moq Require Import Strs Strs_Proofs GoTypes GoTypes_Proofs TypeString VarName Registry Scope Gen
     Registry_Proofs Printer_Proofs WellScoped P_C11.
From Coq Require Import Lia Permutation.
Local Open Scope list_scope.

Definition ppath (p : pkg) : string := strip_vendor (p_path p).

(* the qualifier the final import list gives a package *)
Definition final_qual (cfg : rcfg) (rf : registry) (p : pkg) : string :=
  if String.eqb (ppath p) (moq_pkg_path cfg) then ""%string
  else match find_path rf (ppath p) with Some i => qualifier i | None => ""%string end.

(* ---------- association lists ---------- *)

Lemma assoc_in {A} k (l : list (string * A)) b :
  In (k, b) l -> exists b0, assoc k l = Some b0 /\ In (k, b0) l.
Proof.
  induction l as [|[k' v] l IH]; [intros []|]. intros [E|I]; cbn [assoc].
  - inversion E; subst. rewrite String.eqb_refl. exists b. split; [reflexivity|left; reflexivity].
  - destruct (String.eqb_spec k k') as [->|NE].
    + exists v. split; [reflexivity|left; reflexivity].
    + destruct (IH I) as [b0 [E0 I0]]. exists b0. split; [exact E0|right; exact I0].
Qed.

(* ---------- the per-variable import map ---------- *)

(* every recorded entry says "nil" exactly for the destination package, and a registered
   package is in the registry *)
Definition ImpsOK (cfg : rcfg) (r : registry) (imps : list (string * bool)) : Prop :=
  forall k b, In (k, b) imps ->
    (b = false /\ k = moq_pkg_path cfg) \/
    (b = true /\ k <> moq_pkg_path cfg /\ In k (map i_path r)).

Lemma imps_ok_mono cfg r r' imps :
  incl (map i_path r) (map i_path r') -> ImpsOK cfg r imps -> ImpsOK cfg r' imps.
Proof.
  intros INC OK k b I. destruct (OK k b I) as [H|[H1 [H2 H3]]]; [left; exact H|].
  right. split; [exact H1|]. split; [exact H2|apply INC; exact H3].
Qed.

Lemma add_import_self cfg r p : add_import cfg r p = AddSelf -> ppath p = moq_pkg_path cfg.
Proof.
  unfold add_import, ppath. destruct (String.eqb_spec (strip_vendor (p_path p)) (moq_pkg_path cfg)); [auto|].
  destruct (find_path r _); [discriminate|]. destruct (search_import r _); [|discriminate].
  destruct (resolve _ _ _ _ _); discriminate.
Qed.

Lemma add_import_ok cfg r p r' path :
  add_import cfg r p = AddOk r' path ->
  ppath p <> moq_pkg_path cfg /\ In (ppath p) (map i_path r') /\ incl (map i_path r) (map i_path r') /\
  forall x, In x (map i_path r') -> In x (map i_path r) \/ x = ppath p.
Proof.
  intros A. destruct (add_import_paths _ _ _ _ _ A) as [-> [NE [[E I]|[E NI]]]]; fold (ppath p) in *.
  - split; [exact NE|]. rewrite E. split; [exact I|]. split; [apply incl_refl|]. intros x Ix. left. exact Ix.
  - split; [exact NE|]. rewrite E. split; [apply in_or_app; right; left; reflexivity|].
    split; [apply incl_appl, incl_refl|]. intros x Ix. apply in_app_or in Ix.
    destruct Ix as [Ix|[<-|[]]]; [left; exact Ix|right; reflexivity].
Qed.

Lemma populate_ok cfg ps : forall r imps r' imps',
  populate cfg r ps imps = Ok (r', imps') -> ImpsOK cfg r imps ->
  ImpsOK cfg r' imps' /\ incl (map i_path r) (map i_path r') /\
  (forall p, In p ps -> exists b, In (ppath p, b) imps') /\
  (forall kb, In kb imps -> In kb imps') /\
  (forall x, In x (map i_path r') -> In x (map i_path r) \/ exists p, In p ps /\ x = ppath p).
Proof.
  induction ps as [|p ps IH]; intros r imps r' imps'; cbn [populate].
  - intros E OK. inversion E; subst. split; [exact OK|]. split; [apply incl_refl|].
    split; [intros p []|]. split; [auto|]. intros x I. left. exact I.
  - fold (ppath p).
    set (put := fun b : bool => if existsb (fun kv => String.eqb (fst kv) (ppath p)) imps
                                then imps else imps ++ [(ppath p, b)]).
    assert (PUT_IN : forall b, forall kb, In kb imps -> In kb (put b)).
    { intros b kb I. unfold put. destruct (existsb _ imps); [exact I|apply in_or_app; left; exact I]. }
    assert (PUT_HAS : forall b, exists b0, In (ppath p, b0) (put b)).
    { intros b. unfold put. destruct (existsb _ imps) eqn:EX.
      - apply existsb_exists in EX. destruct EX as [[k b0] [I Q]]. cbn [fst] in Q.
        apply String.eqb_eq in Q. subst k. exists b0. exact I.
      - exists b. apply in_or_app. right. left. reflexivity. }
    destruct (add_import cfg r p) as [|r1 path|] eqn:A; try discriminate.
    + intros E OK.
      assert (OK1 : ImpsOK cfg r (put false)).
      { intros k b I. unfold put in I. destruct (existsb _ imps); [apply OK; exact I|].
        apply in_app_or in I. destruct I as [I|[Q|[]]]; [apply OK; exact I|].
        inversion Q; subst. left. split; [reflexivity|]. apply (add_import_self _ _ _ A). }
      destruct (IH _ _ _ _ E OK1) as [OK' [INC [COV [KEEP NEW]]]].
      split; [exact OK'|]. split; [exact INC|]. split; [|split].
      * intros q [<-|I]; [|apply COV; exact I]. destruct (PUT_HAS false) as [b0 I0]. exists b0. apply KEEP. exact I0.
      * intros kb I. apply KEEP. apply PUT_IN. exact I.
      * intros x I. destruct (NEW x I) as [H|[q [Iq Q]]]; [left; exact H|right; exists q; split; [right; exact Iq|exact Q]].
    + intros E OK. destruct (add_import_ok _ _ _ _ _ A) as [NE [INP [INC1 NEW1]]].
      assert (OK1 : ImpsOK cfg r1 (put true)).
      { intros k b I. unfold put in I. destruct (existsb _ imps).
        - apply (imps_ok_mono _ _ _ _ INC1 OK). exact I.
        - apply in_app_or in I. destruct I as [I|[Q|[]]]; [apply (imps_ok_mono _ _ _ _ INC1 OK); exact I|].
          inversion Q; subst. right. split; [reflexivity|]. split; [exact NE|exact INP]. }
      destruct (IH _ _ _ _ E OK1) as [OK' [INC [COV [KEEP NEW]]]].
      split; [exact OK'|]. split; [eapply incl_tran; eassumption|]. split; [|split].
      * intros q [<-|I]; [|apply COV; exact I]. destruct (PUT_HAS true) as [b0 I0]. exists b0. apply KEEP. exact I0.
      * intros kb I. apply KEEP. apply PUT_IN. exact I.
      * intros x I. destruct (NEW x I) as [H|[q [Iq Q]]].
        -- destruct (NEW1 x H) as [H1|H1]; [left; exact H1|right; exists p; split; [left; reflexivity|exact H1]].
        -- right. exists q. split; [right; exact Iq|exact Q].
Qed.

(* what a variable needs for its type to be printed against the final registry *)
Definition TyImpsOK (cfg : rcfg) (r : registry) (ti : ty * list (string * bool)) : Prop :=
  ImpsOK cfg r (snd ti) /\ forall p, In p (refs (fst ti)) -> exists b, In (ppath p, b) (snd ti).

Definition tyimps (v : var) : ty * list (string * bool) := (v_ty v, v_imps v).
Definition VarsOK (cfg : rcfg) (r : registry) (vs : list var) : Prop :=
  Forall (TyImpsOK cfg r) (map tyimps vs).

Lemma tyimps_ok_mono cfg r r' ti :
  incl (map i_path r) (map i_path r') -> TyImpsOK cfg r ti -> TyImpsOK cfg r' ti.
Proof. intros INC [A B]. split; [eapply imps_ok_mono; eassumption|exact B]. Qed.
Lemma vars_ok_mono cfg r r' vs :
  incl (map i_path r) (map i_path r') -> VarsOK cfg r vs -> VarsOK cfg r' vs.
Proof. intros INC. unfold VarsOK. apply Forall_impl. intros ti. apply tyimps_ok_mono. exact INC. Qed.

Lemma rename_first_tyimps vs a b : map tyimps (rename_first vs a b) = map tyimps vs.
Proof.
  induction vs as [|v vs IH]; [reflexivity|]. cbn [rename_first].
  destruct (String.eqb (v_name v) a); cbn [map]; [reflexivity|rewrite IH; reflexivity].
Qed.
Lemma rename_for_imports_tyimps qs : forall vs, map tyimps (rename_for_imports vs qs) = map tyimps vs.
Proof.
  induction qs as [|q qs IH]; intros vs; [reflexivity|]. cbn [rename_for_imports]. rewrite IH.
  destruct (has_var vs q); [apply rename_first_tyimps|reflexivity].
Qed.
Lemma resolve_conflict_tyimps sc s n sc' :
  resolve_var_name_conflict sc s = Ok (n, sc') -> map tyimps (sc_vars sc') = map tyimps (sc_vars sc).
Proof.
  unfold resolve_var_name_conflict. destruct (first_free _ (sc_vars sc) s 1) as [[|[|k]]|]; try discriminate.
  - intros E. inversion E; subst. reflexivity.
  - destruct (first_free _ _ s 2); [|discriminate]. intros E. inversion E; subst. cbn [sc_vars].
    destruct (has_var (sc_vars sc) s); [apply rename_first_tyimps|reflexivity].
  - intros E. inversion E; subst. reflexivity.
Qed.

Definition Cov (cfg : rcfg) (r : registry) (ps : list pkg) : Prop :=
  forall q, In q ps -> ppath q = moq_pkg_path cfg \/ In (ppath q) (map i_path r).

Lemma cov_mono cfg r r' ps : incl (map i_path r) (map i_path r') -> Cov cfg r ps -> Cov cfg r' ps.
Proof. intros INC C q I. destruct (C q I) as [H|H]; [left; exact H|right; apply INC; exact H]. Qed.
Lemma cov_app cfg r a b : Cov cfg r a -> Cov cfg r b -> Cov cfg r (a ++ b).
Proof. intros A B q I. apply in_app_or in I. destruct I as [I|I]; [apply A|apply B]; exact I. Qed.

(* AddVar: the registry grows by the packages of the variable's type only; every variable
   of the scope keeps a complete and truthful import map *)
Lemma add_var_ok cfg r sc name t suffix r' sc' idx :
  add_var cfg r sc name t suffix = Ok (r', sc', idx) -> VarsOK cfg r (sc_vars sc) ->
  VarsOK cfg r' (sc_vars sc') /\ incl (map i_path r) (map i_path r') /\
  (forall x, In x (map i_path r') -> In x (map i_path r) \/ exists p, In p (refs t) /\ x = ppath p) /\
  map v_ty (sc_vars sc') = map v_ty (sc_vars sc) ++ [t] /\ Cov cfg r' (refs t).
Proof.
  unfold add_var. destruct (populate cfg r (refs t) []) as [[r1 imps]| | | |] eqn:P; try discriminate.
  cbn [bind].
  assert (OK0 : ImpsOK cfg r []) by (intros k b []).
  destruct (populate_ok _ _ _ _ _ _ P OK0) as [OKI [INC [COV [_ NEW]]]].
  set (vs1 := rename_for_imports (sc_vars sc) (var_quals r1 imps)).
  set (n1 := match search_import r1 (var_name name t suffix) with Some _ => _ | None => _ end).
  intros E OKV.
  assert (COVT : Cov cfg r1 (refs t)).
  { intros q I. destruct (COV q I) as [b IB].
    destruct (OKI _ _ IB) as [[_ H]|[_ [_ H]]]; [left; exact H|right; exact H]. }
  assert (TI1 : map tyimps vs1 = map tyimps (sc_vars sc)) by apply rename_for_imports_tyimps.
  assert (FIN : forall n2 sc2, map tyimps (sc_vars sc2) = map tyimps (sc_vars sc) ->
            VarsOK cfg r1 (sc_vars sc2 ++ [mkVar n2 t imps]) /\
            map v_ty (sc_vars sc2 ++ [mkVar n2 t imps]) = map v_ty (sc_vars sc) ++ [t]).
  { intros n2 sc2 TI. split.
    - unfold VarsOK. rewrite map_app, TI. apply Forall_app. split.
      + apply (vars_ok_mono _ _ _ _ INC OKV).
      + constructor; [|constructor]. split; [exact OKI|exact COV].
    - rewrite map_app. cbn [map v_ty]. f_equal.
      assert (M : forall vs, map v_ty vs = map fst (map tyimps vs)).
      { intros vs. rewrite map_map. reflexivity. }
      rewrite !M, TI. reflexivity. }
  destruct (has_var vs1 n1 || str_mem n1 (sc_conflicted sc)).
  - destruct (resolve_var_name_conflict (mkScope vs1 (sc_conflicted sc)) n1) as [[n2 sc2]| | | |] eqn:R;
      try discriminate.
    cbn [bind] in E. inversion E; subst. cbn [sc_vars].
    pose proof (resolve_conflict_tyimps _ _ _ _ R) as TI2. cbn [sc_vars] in TI2.
    destruct (FIN n2 sc2 (eq_trans TI2 TI1)) as [F1 F2].
    split; [exact F1|]. split; [exact INC|]. split; [exact NEW|]. split; [exact F2|exact COVT].
  - cbn [bind] in E. inversion E; subst. cbn [sc_vars].
    destruct (FIN n1 (mkScope vs1 (sc_conflicted sc)) TI1) as [F1 F2].
    split; [exact F1|]. split; [exact INC|]. split; [exact NEW|]. split; [exact F2|exact COVT].
Qed.

Definition tys_refs (ts : list ty) : list pkg := flat_map refs ts.

Lemma add_vars_ok cfg suffix vs : forall r sc r' sc',
  add_vars cfg r sc vs suffix = Ok (r', sc') -> VarsOK cfg r (sc_vars sc) ->
  VarsOK cfg r' (sc_vars sc') /\ incl (map i_path r) (map i_path r') /\
  (forall x, In x (map i_path r') ->
     In x (map i_path r) \/ exists p, In p (tys_refs (map snd vs)) /\ x = ppath p) /\
  map v_ty (sc_vars sc') = map v_ty (sc_vars sc) ++ map snd vs /\
  Cov cfg r' (tys_refs (map snd vs)).
Proof.
  induction vs as [|[n t] vs IH]; intros r sc r' sc'; cbn [add_vars].
  - intros E OK. inversion E; subst. split; [exact OK|]. split; [apply incl_refl|].
    split; [intros x I; left; exact I|]. cbn [map]. rewrite app_nil_r. split; [reflexivity|intros q []].
  - destruct (add_var cfg r sc n t suffix) as [[[r1 sc1] idx]| | | |] eqn:A; try discriminate. cbn [bind].
    intros E OK. destruct (add_var_ok _ _ _ _ _ _ _ _ _ A OK) as [OK1 [INC1 [NEW1 [TY1 CV1]]]].
    destruct (IH _ _ _ _ E OK1) as [OK2 [INC2 [NEW2 [TY2 CV2]]]].
    split; [exact OK2|]. split; [eapply incl_tran; eassumption|]. split; [|split].
    + intros x I. cbn [map snd tys_refs flat_map].
      destruct (NEW2 x I) as [H|[p [Ip Q]]].
      * destruct (NEW1 x H) as [H1|[p [Ip Q]]]; [left; exact H1|].
        right. exists p. split; [apply in_or_app; left; exact Ip|exact Q].
      * right. exists p. split; [apply in_or_app; right; exact Ip|exact Q].
    + rewrite TY2, TY1. cbn [map snd]. rewrite <- app_assoc. reflexivity.
    + cbn [map snd tys_refs flat_map]. apply cov_app; [eapply cov_mono; eassumption|exact CV2].
Qed.

(* ---------- methods, mocks ---------- *)

Definition RawMethodOK cfg r (m : raw_method) : Prop := VarsOK cfg r (sc_vars (rm_scope m)).
Definition RawMockOK cfg r (k : raw_mock) : Prop :=
  VarsOK cfg r (sc_vars (rk_tscope k)) /\ Forall (RawMethodOK cfg r) (rk_methods k).

Lemma method_data_ok cfg r m r' rm :
  method_data cfg r m = Ok (r', rm) ->
  RawMethodOK cfg r' rm /\ incl (map i_path r) (map i_path r') /\
  (forall x, In x (map i_path r') ->
     In x (map i_path r) \/ exists p, In p (tys_refs (sig_types (m_sig m))) /\ x = ppath p) /\
  Cov cfg r' (tys_refs (sig_types (m_sig m))).
Proof.
  unfold method_data.
  destruct (add_vars cfg r empty_scope _ "") as [[r1 sc1]| | | |] eqn:A1; try discriminate. cbn [bind].
  destruct (add_vars cfg r1 sc1 _ "Out") as [[r2 sc2]| | | |] eqn:A2; try discriminate. cbn [bind].
  intros E. inversion E; subst.
  assert (OK0 : VarsOK cfg r (sc_vars empty_scope)) by constructor.
  destruct (add_vars_ok _ _ _ _ _ _ _ A1 OK0) as [OK1 [INC1 [NEW1 [_ CV1]]]].
  destruct (add_vars_ok _ _ _ _ _ _ _ A2 OK1) as [OK2 [INC2 [NEW2 [_ CV2]]]].
  split; [exact OK2|]. split; [eapply incl_tran; eassumption|]. split.
  - intros x I. unfold sig_types, tys_refs. rewrite flat_map_app.
    destruct (NEW2 x I) as [H|[p [Ip Q]]].
    + destruct (NEW1 x H) as [H1|[p [Ip Q]]]; [left; exact H1|].
      right. exists p. split; [apply in_or_app; left; exact Ip|exact Q].
    + right. exists p. split; [apply in_or_app; right; exact Ip|exact Q].
  - unfold sig_types, tys_refs. rewrite flat_map_app.
    apply cov_app; [eapply cov_mono; eassumption|exact CV2].
Qed.

Lemma raw_method_mono cfg r r' m :
  incl (map i_path r) (map i_path r') -> RawMethodOK cfg r m -> RawMethodOK cfg r' m.
Proof. intros INC. apply vars_ok_mono. exact INC. Qed.

Lemma methods_data_ok cfg ms : forall r r' rms,
  methods_data cfg r ms = Ok (r', rms) ->
  Forall (RawMethodOK cfg r') rms /\ incl (map i_path r) (map i_path r') /\
  (forall x, In x (map i_path r') ->
     In x (map i_path r) \/
     exists p, In p (tys_refs (flat_map (fun m => sig_types (m_sig m)) ms)) /\ x = ppath p) /\
  Cov cfg r' (tys_refs (flat_map (fun m => sig_types (m_sig m)) ms)).
Proof.
  induction ms as [|m ms IH]; intros r r' rms; cbn [methods_data].
  - intros E. inversion E; subst. split; [constructor|]. split; [apply incl_refl|].
    split; [intros x I; left; exact I|intros q []].
  - destruct (method_data cfg r m) as [[r1 rm]| | | |] eqn:M; try discriminate. cbn [bind].
    destruct (methods_data cfg r1 ms) as [[r2 rms2]| | | |] eqn:MS; try discriminate. cbn [bind].
    intros E. inversion E; subst.
    destruct (method_data_ok _ _ _ _ _ M) as [OK1 [INC1 [NEW1 CV1]]].
    destruct (IH _ _ _ MS) as [OK2 [INC2 [NEW2 CV2]]].
    split; [constructor; [eapply raw_method_mono; eassumption|exact OK2]|].
    split; [eapply incl_tran; eassumption|]. split.
    + intros x I. cbn [flat_map]. unfold tys_refs. rewrite flat_map_app.
      destruct (NEW2 x I) as [H|[p [Ip Q]]].
      * destruct (NEW1 x H) as [H1|[p [Ip Q]]]; [left; exact H1|].
        right. exists p. split; [apply in_or_app; left; exact Ip|exact Q].
      * right. exists p. split; [apply in_or_app; right; exact Ip|exact Q].
    + cbn [flat_map]. unfold tys_refs. rewrite flat_map_app.
      apply cov_app; [eapply cov_mono; eassumption|exact CV2].
Qed.

Lemma raw_mock_mono cfg r r' k :
  incl (map i_path r) (map i_path r') -> RawMockOK cfg r k -> RawMockOK cfg r' k.
Proof.
  intros INC [A B]. split; [eapply vars_ok_mono; eassumption|].
  eapply Forall_impl; [|exact B]. intros m. apply raw_method_mono. exact INC.
Qed.

(* the types of the requested interfaces, as the run meets them *)
Definition requested_types (i : input) (args : list string) : list ty :=
  flat_map (fun a => match assoc (fst (parse_interface_name a)) (in_lookup i) with
                     | Some l => iface_types l
                     | None => []
                     end) args.

Lemma collect_ok i cfg args : forall r r' rks,
  collect i cfg r args = Ok (r', rks) ->
  Forall (RawMockOK cfg r') rks /\ incl (map i_path r) (map i_path r') /\
  (forall x, In x (map i_path r') ->
     In x (map i_path r) \/ exists p, In p (tys_refs (requested_types i args)) /\ x = ppath p) /\
  Cov cfg r' (tys_refs (requested_types i args)).
Proof.
  induction args as [|np rest IH]; intros r r' rks; cbn [collect].
  - intros E. inversion E; subst. split; [constructor|]. split; [apply incl_refl|].
    split; [intros x I; left; exact I|intros q []].
  - cbn [requested_types flat_map]. destruct (parse_interface_name np) as [name mock_name] eqn:PN. cbn [fst].
    destruct (assoc name (in_lookup i)) as [[| |mset isty tps meths]|]; try discriminate.
    destruct (methods_data cfg r meths) as [[r1 rms]| | | |] eqn:M; try discriminate. cbn [bind].
    destruct (type_params cfg r1 tps) as [[r2 tsc]| | | |] eqn:T; try discriminate. cbn [bind].
    destruct (collect i cfg r2 rest) as [[r3 rks']| | | |] eqn:C; try discriminate. cbn [bind].
    intros E. inversion E; subst.
    destruct (methods_data_ok _ _ _ _ _ M) as [OK1 [INC1 [NEW1 CV1]]].
    unfold type_params in T.
    assert (OK0 : VarsOK cfg r1 (sc_vars empty_scope)) by constructor.
    destruct (add_vars_ok _ _ _ _ _ _ _ T OK0) as [OK2 [INC2 [NEW2 [_ CV2]]]].
    destruct (IH _ _ _ C) as [OK3 [INC3 [NEW3 CV3]]].
    split; [|split; [|split]].
    + constructor; [|exact OK3]. apply (raw_mock_mono _ r2 _ _ INC3). split; [exact OK2|].
      cbn [rk_methods]. eapply Forall_impl; [|exact OK1]. intros m. apply raw_method_mono. exact INC2.
    + eapply incl_tran; [exact INC1|]. eapply incl_tran; eassumption.
    + intros x I. unfold tys_refs. rewrite flat_map_app. cbn [iface_types]. rewrite flat_map_app.
      destruct (NEW3 x I) as [H|[p [Ip Q]]]; [|right; exists p; split; [apply in_or_app; right; exact Ip|exact Q]].
      destruct (NEW2 x H) as [H2|[p [Ip Q]]].
      * destruct (NEW1 x H2) as [H1|[p [Ip Q]]]; [left; exact H1|].
        right. exists p. split; [|exact Q]. apply in_or_app. left. apply in_or_app. right. exact Ip.
      * right. exists p. split; [|exact Q]. apply in_or_app. left. apply in_or_app. left.
        rewrite map_map in Ip. cbn [snd] in Ip. exact Ip.
    + unfold tys_refs. rewrite flat_map_app. cbn [iface_types]. rewrite flat_map_app.
      apply cov_app; [|exact CV3]. apply cov_app.
      * apply (cov_mono _ r2 _ _ INC3). rewrite map_map in CV2. cbn [snd] in CV2. exact CV2.
      * apply (cov_mono _ r1 _ _ (incl_tran INC2 INC3)). exact CV1.
Qed.

(* ---------- printing against the final registry ---------- *)

Lemma var_qualifier_final cfg rf v p :
  TyImpsOK cfg rf (tyimps v) -> In p (refs (v_ty v)) -> var_qualifier cfg rf v p = final_qual cfg rf p.
Proof.
  intros [OK COV] I. destruct (COV p I) as [b IB]. cbn [tyimps fst snd] in *.
  destruct (assoc_in _ _ _ IB) as [b0 [AS I0]].
  unfold var_qualifier, final_qual. fold (ppath p). rewrite AS.
  destruct (OK _ _ I0) as [[-> EQ]|[-> [NE INR]]].
  - rewrite EQ, String.eqb_refl. destruct (negb _ && _); reflexivity.
  - destruct (String.eqb_spec (ppath p) (moq_pkg_path cfg)); [contradiction|].
    destruct (String.eqb_spec (moq_pkg_path cfg) (ppath p)); [congruence|].
    rewrite andb_false_r. reflexivity.
Qed.

Lemma var_type_string_final cfg rf v :
  TyImpsOK cfg rf (tyimps v) -> var_type_string cfg rf v = type_string (final_qual cfg rf) (v_ty v).
Proof.
  intros OK. unfold var_type_string. apply type_string_ext. intros p I.
  apply var_qualifier_final; [exact OK|]. apply mentions_incl_refs. exact I.
Qed.

(* covered: the destination package or an import *)
Definition covered (cfg : rcfg) (rf : registry) (t : ty) : Prop :=
  forall q, In q (refs t) -> ppath q = moq_pkg_path cfg \/ In (ppath q) (map i_path rf).

Lemma tyimps_covered cfg rf v : TyImpsOK cfg rf (tyimps v) -> covered cfg rf (v_ty v).
Proof.
  intros [OK COV] q I. destruct (COV q I) as [b IB]. cbn [tyimps fst snd] in *.
  destruct (OK _ _ IB) as [[_ E]|[_ [_ INR]]]; [left; exact E|right; exact INR].
Qed.

(* find_path does not depend on the order of a registry whose paths are distinct *)
Lemma find_path_in r path i : find_path r path = Some i -> In i r /\ i_path i = path.
Proof. unfold find_path. intros F. apply find_some in F. destruct F as [I Q]. apply String.eqb_eq in Q. auto. Qed.
Lemma nodup_key_inj (r : registry) a b :
  NoDup (map i_path r) -> In a r -> In b r -> i_path a = i_path b -> a = b.
Proof.
  induction r as [|x r IH]; [intros _ []|]. cbn [map]. intros ND Ia Ib E.
  inversion ND as [|? ? NI NDr]; subst.
  destruct Ia as [<-|Ia], Ib as [<-|Ib]; [reflexivity| | |apply IH; assumption].
  - exfalso. apply NI. rewrite E. apply in_map. exact Ib.
  - exfalso. apply NI. rewrite <- E. apply in_map. exact Ia.
Qed.
Lemma find_path_perm r r' path :
  Permutation r r' -> NoDup (map i_path r) -> find_path r' path = find_path r path.
Proof.
  intros PERM ND.
  destruct (find_path r path) as [i|] eqn:F; destruct (find_path r' path) as [i'|] eqn:F'; try reflexivity.
  - destruct (find_path_in _ _ _ F) as [I Q]. destruct (find_path_in _ _ _ F') as [I' Q'].
    f_equal. apply (nodup_key_inj r); [exact ND|eapply Permutation_in; [apply Permutation_sym; exact PERM|exact I']|exact I|congruence].
  - exfalso. destruct (find_path_in _ _ _ F) as [I Q]. unfold find_path in F'.
    pose proof (Permutation_in _ PERM I) as I2. apply (find_none _ _ F') in I2.
    rewrite Q, String.eqb_refl in I2. discriminate.
  - exfalso. destruct (find_path_in _ _ _ F') as [I' Q']. unfold find_path in F.
    pose proof (Permutation_in _ (Permutation_sym PERM) I') as I. apply (find_none _ _ F) in I.
    rewrite Q', String.eqb_refl in I. discriminate.
Qed.

Lemma final_qual_sorted cfg r p :
  NoDup (map i_path r) -> final_qual cfg (imports_sorted r) p = final_qual cfg r p.
Proof.
  intros ND. unfold final_qual. destruct (String.eqb _ _); [reflexivity|].
  rewrite (find_path_perm r (imports_sorted r)); [reflexivity| |exact ND].
  apply Permutation_sym. apply sort_by_perm.
Qed.

(* ---------- the whole run ---------- *)

Definition some_method_raw (rks : list raw_mock) : bool :=
  existsb (fun k => match rk_methods k with [] => false | _ => true end) rks.

Lemma mocks_some_method_finish cfg rf rks :
  mocks_some_method (map (finish_mock cfg rf) rks) = some_method_raw rks.
Proof.
  unfold mocks_some_method, some_method_raw. induction rks as [|k rks IH]; [reflexivity|].
  cbn [map existsb]. rewrite IH. f_equal. cbn [finish_mock mk_methods]. destruct (rk_methods k); reflexivity.
Qed.

Lemma mock_run_parts i c args d :
  mock_run i c args = Ok d ->
  let cfg := rcfg_of i c in
  exists r1 rks r3,
    collect i cfg [] args = Ok (r1, rks) /\
    d_imports d = imports_sorted r3 /\ d_mocks d = map (finish_mock cfg r3) rks /\
    incl (map i_path r1) (map i_path r3) /\ NoDup (map i_path r3) /\
    forall x, In x (map i_path r3) ->
      In x (map i_path r1) \/
      (x = "sync"%string /\ some_method_raw rks = true) \/
      (x = ppath (in_src i) /\ p_name (in_src i) <> mock_pkg_name i c /\ c_skip_ensure c = false).
Proof.
  intros E cfg. pose proof E as E0. unfold mock_run in E. destruct args as [|a args]; [discriminate|].
  fold cfg in E.
  destruct (collect i cfg [] (a :: args)) as [[r1 rks]| | | |] eqn:C; try discriminate. cbn [bind] in E.
  fold (some_method_raw rks) in E.
  destruct (mock_run_registry _ _ _ _ E0) as [r3' [EQ3 [ND3 _]]].
  assert (S2 : forall r2,
            (if some_method_raw rks
             then match add_import cfg r1 sync_pkg with
                  | AddSelf => Ok r1 | AddOk r _ => Ok r
                  | AddDiverges => OutOfFuel "resolveImportConflict" end
             else Ok r1) = Ok r2 ->
            incl (map i_path r1) (map i_path r2) /\
            forall x, In x (map i_path r2) ->
              In x (map i_path r1) \/ (x = "sync"%string /\ some_method_raw rks = true)).
  { intros r2. destruct (some_method_raw rks).
    - destruct (add_import cfg r1 sync_pkg) as [|r path|] eqn:A; try discriminate; intros Q; inversion Q; subst.
      + split; [apply incl_refl|]. intros x I. left. exact I.
      + destruct (add_import_ok _ _ _ _ _ A) as [_ [_ [INC NEW]]]. split; [exact INC|].
        intros x I. destruct (NEW x I) as [H|H]; [left; exact H|right; split; [exact H|reflexivity]].
    - intros Q. inversion Q; subst. split; [apply incl_refl|]. intros x I. left. exact I. }
  destruct (if some_method_raw rks then _ else Ok r1) as [r2| | | |] eqn:E2; try discriminate. cbn [bind] in E.
  destruct (S2 r2 eq_refl) as [INC2 NEW2].
  assert (FIN : forall r3 srcq,
            incl (map i_path r2) (map i_path r3) ->
            (forall x, In x (map i_path r3) -> In x (map i_path r2) \/
               (x = ppath (in_src i) /\ p_name (in_src i) <> mock_pkg_name i c /\ c_skip_ensure c = false)) ->
            Ok (mkData (mock_pkg_name i c) srcq (imports_sorted r3) (map (finish_mock cfg r3) rks)
                       (c_stub c) (c_skip_ensure c) (c_with_resets c)) = Ok d ->
            NoDup (map i_path r3) ->
            exists r1' rks' r3,
              @Ok (registry * list raw_mock) (r1, rks) = Ok (r1', rks') /\
              d_imports d = imports_sorted r3 /\ d_mocks d = map (finish_mock cfg r3) rks' /\
              incl (map i_path r1') (map i_path r3) /\ NoDup (map i_path r3) /\
              forall x, In x (map i_path r3) ->
                In x (map i_path r1') \/
                (x = "sync"%string /\ some_method_raw rks' = true) \/
                (x = ppath (in_src i) /\ p_name (in_src i) <> mock_pkg_name i c /\ c_skip_ensure c = false)).
  { intros r3 srcq INC3 NEW3 Q ND. inversion Q; subst. exists r1, rks, r3. cbn [d_imports d_mocks].
    split; [reflexivity|]. split; [reflexivity|]. split; [reflexivity|].
    split; [eapply incl_tran; eassumption|]. split; [exact ND|].
    intros x I. destruct (NEW3 x I) as [H|H]; [|right; right; exact H].
    destruct (NEW2 x H) as [H1|H1]; [left; exact H1|right; left; exact H1]. }
  assert (NDOF : forall r3 srcq,
            Ok (mkData (mock_pkg_name i c) srcq (imports_sorted r3) (map (finish_mock cfg r3) rks)
                       (c_stub c) (c_skip_ensure c) (c_with_resets c)) = Ok d -> NoDup (map i_path r3)).
  { intros r3 srcq Q. inversion Q; subst. cbn [d_imports] in EQ3.
    eapply Permutation_NoDup; [|exact ND3].
    apply Permutation_map. eapply Permutation_trans; [apply Permutation_sym; apply (sort_by_perm (fun a b => String.ltb (i_path a) (i_path b)))|].
    unfold imports_sorted in EQ3. rewrite <- EQ3. apply sort_by_perm. }
  destruct (String.eqb_spec (p_name (in_src i)) (mock_pkg_name i c)) as [EQN|NEN].
  - cbn [bind] in E. destruct (FIN r2 ""%string (incl_refl _) (fun x I => or_introl I) E (NDOF _ _ E))
      as [a1 [a2 [a3 H]]]. exists a1, a2, a3. exact H.
  - destruct (c_skip_ensure c) eqn:SK.
    + cbn [bind] in E. destruct (FIN r2 _ (incl_refl _) (fun x I => or_introl I) E (NDOF _ _ E))
        as [a1 [a2 [a3 H]]]. exists a1, a2, a3. exact H.
    + destruct (add_import cfg r2 (in_src i)) as [|r path|] eqn:A; try discriminate; cbn [bind] in E.
      * destruct (FIN r2 _ (incl_refl _) (fun x I => or_introl I) E (NDOF _ _ E))
          as [a1 [a2 [a3 H]]]. exists a1, a2, a3. exact H.
      * destruct (add_import_ok _ _ _ _ _ A) as [_ [_ [INC NEW]]].
        assert (NEW' : forall x, In x (map i_path r) -> In x (map i_path r2) \/
                  (x = ppath (in_src i) /\ p_name (in_src i) <> mock_pkg_name i c /\ false = false)).
        { intros x I. destruct (NEW x I) as [H|H]; [left; exact H|right; auto]. }
        destruct (FIN r _ INC NEW' E (NDOF _ _ E)) as [a1 [a2 [a3 H]]]. exists a1, a2, a3. exact H.
Qed.

Lemma finish_params_in cfg rf vs : forall variadic p,
  In p (finish_params cfg rf variadic vs) -> exists v b, In v vs /\ p = finish_param cfg rf b v.
Proof.
  induction vs as [|v vs IH]; intros variadic p; [intros []|]. cbn [finish_params].
  destruct vs as [|w vs].
  - intros [<-|[]]. exists v, variadic. split; [left; reflexivity|reflexivity].
  - intros [<-|I].
    + exists v, false. split; [left; reflexivity|reflexivity].
    + destruct (IH _ _ I) as [v0 [b [Iv Q]]]. exists v0, b. split; [right; exact Iv|exact Q].
Qed.

Definition printed_ok (cfg : rcfg) (imports : list imp) (text : string) (t : ty) : Prop :=
  text = type_string (final_qual cfg imports) t /\ covered cfg imports t.

Lemma var_printed_ok cfg r3 v :
  NoDup (map i_path r3) -> TyImpsOK cfg r3 (tyimps v) ->
  printed_ok cfg (imports_sorted r3) (var_type_string cfg r3 v) (v_ty v).
Proof.
  intros ND OK. split.
  - rewrite (var_type_string_final _ _ _ OK). apply type_string_ext. intros p _.
    symmetry. apply final_qual_sorted. exact ND.
  - intros q I. destruct (tyimps_covered _ _ _ OK q I) as [H|H]; [left; exact H|right].
    eapply Permutation_in; [apply Permutation_map; apply Permutation_sym; apply sort_by_perm|exact H].
Qed.

(* NO MISSING IMPORT, NO WRONGLY RESOLVED QUALIFIER.  For every successful run, every
   parameter and result of every generated method, and every type-parameter constraint, is
   printed with, for each package it mentions, the qualifier of THE import of that package in
   the final import block -- or bare when it is the destination package -- and each such
   package is the destination or is imported. *)
Theorem imports_complete i c args d :
  mock_run i c args = Ok d ->
  forall k, In k (d_mocks d) ->
    (forall m p, In m (mk_methods k) -> In p (md_params m ++ md_returns m) ->
       printed_ok (rcfg_of i c) (d_imports d) (pd_type p) (pd_ty p)) /\
    (forall td, In td (mk_tparams k) ->
       exists t, printed_ok (rcfg_of i c) (d_imports d) (td_type td) t).
Proof.
  intros E. destruct (mock_run_parts _ _ _ _ E) as [r1 [rks [r3 [C [EI [EM [INC [ND _]]]]]]]].
  destruct (collect_ok _ _ _ _ _ _ C) as [OKS _].
  intros k IK. rewrite EM in IK. apply in_map_iff in IK. destruct IK as [rk [<- IRK]].
  rewrite Forall_forall in OKS. pose proof (raw_mock_mono _ _ _ _ INC (OKS _ IRK)) as [OKT OKM].
  rewrite EI. split.
  - intros m p IM IP. cbn [finish_mock mk_methods] in IM. apply in_map_iff in IM. destruct IM as [rm [<- IRM]].
    rewrite Forall_forall in OKM. pose proof (OKM _ IRM) as OKV. unfold RawMethodOK, VarsOK in OKV.
    rewrite Forall_forall in OKV.
    assert (FROM : exists v b, In v (sc_vars (rm_scope rm)) /\ p = finish_param (rcfg_of i c) r3 b v).
    { cbn [finish_method md_params md_returns] in IP. apply in_app_or in IP. destruct IP as [IP|IP].
      - destruct (finish_params_in _ _ _ _ _ IP) as [v [b [Iv Q]]]. exists v, b. split; [|exact Q].
        rewrite <- (firstn_skipn (rm_nparams rm)). apply in_or_app. left. exact Iv.
      - apply in_map_iff in IP. destruct IP as [v [Q Iv]]. exists v, false. split; [|symmetry; exact Q].
        rewrite <- (firstn_skipn (rm_nparams rm)). apply in_or_app. right. exact Iv. }
    destruct FROM as [v [b [Iv ->]]]. cbn [finish_param pd_type pd_ty].
    apply var_printed_ok; [exact ND|]. apply OKV. apply in_map. exact Iv.
  - intros td ITD. cbn [finish_mock mk_tparams] in ITD. unfold finish_tparams in ITD.
    apply in_map_iff in ITD. destruct ITD as [[v tp] [<- IC]]. apply in_combine_l in IC.
    exists (v_ty v). cbn [td_type]. apply var_printed_ok; [exact ND|].
    unfold VarsOK in OKT. rewrite Forall_forall in OKT. apply OKT. apply in_map. exact IC.
Qed.

(* NOTHING ELSE.  Every import of the output is sync (and then some mock has a method), the
   source package (and then the self-check line is emitted from another package), or a package
   the import walk met in a signature or a constraint of a requested interface. *)
Theorem imports_sound i c args d :
  mock_run i c args = Ok d ->
  forall im, In im (d_imports d) ->
    (i_path im = "sync"%string /\ mocks_some_method (d_mocks d) = true) \/
    (i_path im = ppath (in_src i) /\ p_name (in_src i) <> mock_pkg_name i c /\ c_skip_ensure c = false) \/
    exists q, In q (tys_refs (requested_types i args)) /\ i_path im = ppath q.
Proof.
  intros E im IM. destruct (mock_run_parts _ _ _ _ E) as [r1 [rks [r3 [C [EI [EM [_ [_ NEW]]]]]]]].
  destruct (collect_ok _ _ _ _ _ _ C) as [_ [_ [NEWC _]]].
  assert (I3 : In (i_path im) (map i_path r3)).
  { rewrite EI in IM. apply in_map. eapply Permutation_in; [apply sort_by_perm|exact IM]. }
  destruct (NEW _ I3) as [H|[[H1 H2]|H]].
  - destruct (NEWC _ H) as [[]|[q [Iq Q]]]. right. right. exists q. split; assumption.
  - left. split; [exact H1|]. rewrite EM, mocks_some_method_finish. exact H2.
  - right. left. exact H.
Qed.


(* the converse, at the level of the input: every package met in a signature or constraint of a
   requested interface is the destination package or is imported *)
Theorem imports_cover_requested i c args d :
  mock_run i c args = Ok d ->
  forall q, In q (tys_refs (requested_types i args)) ->
    ppath q = moq_pkg_path (rcfg_of i c) \/ In (ppath q) (map i_path (d_imports d)).
Proof.
  intros E q I. destruct (mock_run_parts _ _ _ _ E) as [r1 [rks [r3 [C [EI [_ [INC _]]]]]]].
  destruct (collect_ok _ _ _ _ _ _ C) as [_ [_ [_ CV]]].
  destruct (CV q I) as [H|H]; [left; exact H|right]. rewrite EI.
  eapply Permutation_in; [apply Permutation_map; apply Permutation_sym; apply sort_by_perm|].
  apply INC. exact H.
Qed.
