(* Pin_main_run.v -- the model was written from exactly this source text (tie, see DESIGN 2.4). *)
From Moq Require Import Strs SkeletonPins.
From Moq.gen Require Import Skeletons.
Theorem pin_main_run : src_main_run = pinned_main_run. Proof. reflexivity. Qed.
