(* P_C01.v -- C01: the generated source compiles in its destination package.
   What is proved here is the resolution-level backbone; the conjuncts of
   WellScoped.failing are evaluated per input and checked against go/types on the real
   output on every run (the type-level half is validated, not proved). *)
From Moq Require Import Strs Strs_Proofs GoTypes GoTypes_Proofs TypeString VarName Registry Scope Gen
     Registry_Proofs WellScoped P_C11.
Local Open Scope list_scope.

(* no missing import: the walk registers exactly the packages the printer qualifies *)
Theorem C01_walk_visits_what_is_printed t :
  walk_complete t = true -> mentions t = refs t.
Proof. exact (refs_eq_mentions t). Qed.

(* every package the walk visits is either the destination (printed bare) or recorded in the
   variable's import map as registered *)
Lemma populate_covers cfg r ps imps r' imps' :
  populate cfg r ps imps = Ok (r', imps') ->
  (forall k b, In (k, b) imps -> In (k, b) imps') /\
  forall p, In p ps ->
    exists b, assoc (strip_vendor (p_path p)) imps' = Some b \/ In (strip_vendor (p_path p), b) imps'.
Proof.
  revert r imps. induction ps as [|p ps IH]; intros r imps; simpl.
  - intros E. inversion E; subst. split; [auto|intros p []].
  - set (path := strip_vendor (p_path p)).
    destruct (add_import cfg r p) as [|r1 pth|] eqn:A; try discriminate.
    + intros E. destruct (IH _ _ E) as [KEEP COVER]. split.
      * intros k b I. apply KEEP. destruct (existsb _ imps); [exact I|apply in_or_app; left; exact I].
      * intros q [<-|IQ]; [|apply COVER; exact IQ].
        destruct (existsb (fun kv => String.eqb (fst kv) path) imps) eqn:EX.
        -- apply existsb_exists in EX. destruct EX as [[k b] [I Q]]. apply String.eqb_eq in Q. cbn in Q. subst k.
           exists b. right. apply KEEP. exact I.
        -- exists false. right. apply KEEP. apply in_or_app. right. left. reflexivity.
    + intros E. destruct (IH _ _ E) as [KEEP COVER]. split.
      * intros k b I. apply KEEP. destruct (existsb _ imps); [exact I|apply in_or_app; left; exact I].
      * intros q [<-|IQ]; [|apply COVER; exact IQ].
        destruct (existsb (fun kv => String.eqb (fst kv) path) imps) eqn:EX.
        -- apply existsb_exists in EX. destruct EX as [[k b] [I Q]]. apply String.eqb_eq in Q. cbn in Q. subst k.
           exists b. right. apply KEEP. exact I.
        -- exists true. right. apply KEEP. apply in_or_app. right. left. reflexivity.
Qed.

(* the import block never contains the destination package and never a path twice, so no
   "imported and not used: itself", no "redeclared" for equal paths *)
Theorem C01_import_paths_sound i c args d :
  mock_run i c args = Ok d ->
  NoDup (map i_path (d_imports d)) /\ ~ In (moq_pkg_path (rcfg_of i c)) (map i_path (d_imports d)).
Proof. intros E. split; [eapply C11_once; exact E|eapply C11_never_imports_destination; exact E]. Qed.

(* the full statement -- every accepted interface yields well-scoped output -- is false of
   the code; two of the witnesses (D6: method named like a generated accessor; D5: two
   parameters with one exported form), evaluated on the model *)
Definition src0 : pkg := mkPkg "example.com/x" "x".
Definition cfg0 : config := mkConfig "" false false true.
Definition t_int0 := TBasic "int" KInt false.
Example C01_refuted :
  (let i := mkInput src0 [] None
              [("R", LIface true true [] [mkMethod "Reset" (mkSig [] false [])])] in
   match mock_run i cfg0 ["R"] with Ok d => failing d | _ => [] end = ["method_name_clash"]%string) /\
  (let i := mkInput src0 [] None
              [("F", LIface true true [] [mkMethod "M" (mkSig [("a", t_int0); ("A", t_int0)] false [])])] in
   match mock_run i cfg0 ["F"] with Ok d => failing d | _ => [] end = ["fields_distinct"]%string).
Proof. vm_compute. split; reflexivity. Qed.

(* since the repair of D1 a lower-case type parameter is no longer a defect family *)
Example C01_tparam_fixed :
  let i := mkInput src0 [] None
             [("L", LIface true true [mkTparam "k" (TAlias None "any" []) [] false]
                           [mkMethod "Get" (mkSig [("key", TParam "k")] false [])])] in
  match mock_run i cfg0 ["L"] with Ok d => failing d | _ => ["?"%string] end = [].
Proof. vm_compute. reflexivity. Qed.
