(* P_C05.v -- C05: concurrent use is data-race free and loses no call record.
   For every mock whose bodies pass the lock-discipline checker [disciplined] (evaluated by
   vm_compute on the programs lifted from moq's current output), any number of threads,
   any programs of operations with re-entrant callbacks, any schedule. *)
From Moq Require Import Strs MockSem MockSpec MockSeq_Proofs MockConc MockConc_Proofs MockAcct_Proofs.
Local Open Scope list_scope.

(* no two threads are ever simultaneously about to make conflicting accesses to a call
   list; the writer holds the method's lock exclusively *)
Theorem C05_no_data_race grow mk progs s tr t1 t2 a1 a2 :
  disciplined mk = true ->
  reach grow mk (cinit progs) s tr -> t1 <> t2 ->
  next_access (cs_thr s t1) = Some a1 -> next_access (cs_thr s t2) = Some a2 ->
  conflicting a1 a2 = false.
Proof. intros D. exact (C05_lockset grow mk D progs s tr t1 t2 a1 a2). Qed.

Theorem C05_access_under_lock grow mk progs s tr t a :
  disciplined mk = true ->
  reach grow mk (cinit progs) s tr -> next_access (cs_thr s t) = Some a ->
  match a with
  | AWriteHdr x => rw_w (cs_lock s x) = Some t
  | AReadHdr x => rw_w (cs_lock s x) = Some t \/ In t (rw_r (cs_lock s x))
  end.
Proof. intros D. exact (C05_lock_held grow mk D progs s tr t a). Qed.

(* the records behave like one atomic append-only list per method *)
Theorem C05_atomic_logs grow mk progs s tr :
  (forall n, n < grow n) ->
  reach grow mk (cinit progs) s tr ->
  forall m, denote (cs_heap s) (cs_hdr s m) = replay tr m.
Proof. intros G R. exact (proj2 (C05_linearizable grow G mk progs s tr R)). Qed.

(* every snapshot ever handed out still denotes the log at the moment it was taken *)
Theorem C05_snapshots_never_change grow mk progs s tr :
  (forall n, n < grow n) ->
  reach grow mk (cinit progs) s tr ->
  Forall (snap_ok (cs_heap s)) (snaps_from empty_logs tr).
Proof. intros G. exact (C05_snapshots grow G mk progs s tr). Qed.

(* between resets every snapshot is a prefix of every later one *)
Theorem C05_prefix_between_resets lg tr m :
  resets_of m tr = false -> exists more, fold_left lin_apply tr lg m = lg m ++ more.
Proof. exact (C05_prefix lg tr m). Qed.

(* ---- no record is lost, torn or duplicated; program order is kept ---- *)

(* In every reachable state, for every thread: the records it has appended, followed by the
   one record its current call may still owe, are exactly the records of the calls it has
   started (those that record at all: function set, or -stub), in program order, each being
   the argument values of its call field by field. *)
Theorem C05_every_call_recorded_once grow stub resets mk progs s tr t :
  canonical stub resets mk = true ->
  (forall t, forallb (wf_op mk resets) (progs t) = true) ->
  reach grow mk (cinit progs) s tr ->
  expected stub mk t tr = appended t tr ++ pending stub (cs_thr s t).
Proof.
  intros CAN WF R. exact (ai_acct _ _ _ _ _ (reach_ainv grow stub resets mk CAN progs s tr WF R) t).
Qed.

(* after quiescence nothing is owed: what a thread appended is exactly what its calls are *)
Corollary C05_quiescent grow stub resets mk progs s tr t :
  canonical stub resets mk = true ->
  (forall t, forallb (wf_op mk resets) (progs t) = true) ->
  reach grow mk (cinit progs) s tr -> finished (cs_thr s t) ->
  appended t tr = expected stub mk t tr.
Proof.
  intros CAN WF R FIN. rewrite (C05_every_call_recorded_once grow stub resets mk progs s tr t CAN WF R).
  destruct (cs_thr s t) as [|[|[|] ?] [|]]; cbn in FIN; try contradiction; cbn [pending]; rewrite app_nil_r; reflexivity.
Qed.

(* between resets the memory of a method's call list is exactly the sequence of appends to
   it: the number of records is the number of (recording) calls linearised since then *)
Theorem C05_count grow mk progs s tr m :
  (forall n, n < grow n) ->
  reach grow mk (cinit progs) s tr -> resets_of m tr = false ->
  denote (cs_heap s) (cs_hdr s m) = appends_of m tr.
Proof.
  intros G R NR. rewrite (C05_atomic_logs grow mk progs s tr G R m).
  unfold replay. rewrite (fold_lin_apply_no_reset tr empty_logs m NR). reflexivity.
Qed.
