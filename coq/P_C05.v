(* P_C05.v -- C05: concurrent use is data-race free and loses no call record.
   For every mock whose bodies pass the lock-discipline checker [disciplined] (evaluated by
   vm_compute on the programs lifted from moq's current output), any number of threads,
   any programs of operations with re-entrant callbacks, any schedule. *)
From Moq Require Import Strs MockSem MockSpec MockSeq_Proofs MockConc MockConc_Proofs.
Local Open Scope list_scope.

(* no two threads are ever simultaneously about to make conflicting accesses to a call
   list; the writer holds the method's lock exclusively *)
Theorem C05_no_data_race grow mk progs s tr t1 t2 a1 a2 :
  disciplined mk = true ->
  reach grow mk (cinit progs) s tr -> t1 <> t2 ->
  next_access (cs_thr s t1) = Some a1 -> next_access (cs_thr s t2) = Some a2 ->
  conflicting a1 a2 = false.
Proof. intros D. exact (C05_lockset grow mk D progs s tr t1 t2 a1 a2). Qed.

Theorem C05_access_under_lock grow mk progs s tr t a :
  disciplined mk = true ->
  reach grow mk (cinit progs) s tr -> next_access (cs_thr s t) = Some a ->
  match a with
  | AWriteHdr x => rw_w (cs_lock s x) = Some t
  | AReadHdr x => rw_w (cs_lock s x) = Some t \/ In t (rw_r (cs_lock s x))
  end.
Proof. intros D. exact (C05_lock_held grow mk D progs s tr t a). Qed.

(* the records behave like one atomic append-only list per method *)
Theorem C05_atomic_logs grow mk progs s tr :
  (forall n, n < grow n) ->
  reach grow mk (cinit progs) s tr ->
  forall m, denote (cs_heap s) (cs_hdr s m) = replay tr m.
Proof. intros G R. exact (proj2 (C05_linearizable grow G mk progs s tr R)). Qed.

(* every snapshot ever handed out still denotes the log at the moment it was taken *)
Theorem C05_snapshots_never_change grow mk progs s tr :
  (forall n, n < grow n) ->
  reach grow mk (cinit progs) s tr ->
  Forall (snap_ok (cs_heap s)) (snaps_from empty_logs tr).
Proof. intros G. exact (C05_snapshots grow G mk progs s tr). Qed.

(* between resets every snapshot is a prefix of every later one *)
Theorem C05_prefix_between_resets lg tr m :
  resets_of m tr = false -> exists more, fold_left lin_apply tr lg m = lg m ++ more.
Proof. exact (C05_prefix lg tr m). Qed.
