(* P_C14.v -- C14: the output is a deterministic function of source package and options.
   The model is a function; the only nondeterminism of the code is the iteration order of
   three Go maps (Sites_Proofs.C14_map_range_sites).  Here: the result of each of the three
   iterations does not depend on that order (under the stated conditions). *)
From Moq Require Import Strs Strs_Proofs GoTypes Registry Scope Registry_Proofs.
From Coq Require Import Lia Permutation NArith.
Local Open Scope list_scope.

(* ---- the byte-wise order on import paths is a strict total order ---- *)

Lemma ascii_compare_lt_trans a b c :
  Ascii.compare a b = Lt -> Ascii.compare b c = Lt -> Ascii.compare a c = Lt.
Proof. unfold Ascii.compare. rewrite !N.compare_lt_iff. apply N.lt_trans. Qed.

Lemma ascii_compare_eq a b : Ascii.compare a b = Eq -> a = b.
Proof. apply Ascii.compare_eq_iff. Qed.

Lemma ascii_compare_refl a : Ascii.compare a a = Eq.
Proof. unfold Ascii.compare. apply N.compare_refl. Qed.

Lemma str_compare_lt_trans : forall a b c,
  String.compare a b = Lt -> String.compare b c = Lt -> String.compare a c = Lt.
Proof.
  induction a as [|x a IH]; intros b c; destruct b as [|y b], c as [|z c]; simpl; try discriminate; auto.
  destruct (Ascii.compare x y) eqn:XY; try discriminate;
    destruct (Ascii.compare y z) eqn:YZ; try discriminate; intros H1 H2.
  - apply ascii_compare_eq in XY. apply ascii_compare_eq in YZ. subst. rewrite ascii_compare_refl. eapply IH; eassumption.
  - apply ascii_compare_eq in XY. subst. rewrite YZ. reflexivity.
  - apply ascii_compare_eq in YZ. subst. rewrite XY. reflexivity.
  - rewrite (ascii_compare_lt_trans _ _ _ XY YZ). reflexivity.
Qed.

Lemma str_ltb_trans a b c : String.ltb a b = true -> String.ltb b c = true -> String.ltb a c = true.
Proof.
  unfold String.ltb. destruct (String.compare a b) eqn:AB; try discriminate.
  destruct (String.compare b c) eqn:BC; try discriminate. intros _ _.
  rewrite (str_compare_lt_trans _ _ _ AB BC). reflexivity.
Qed.

Lemma str_ltb_total a b : a <> b -> String.ltb a b = true \/ String.ltb b a = true.
Proof.
  intros NE. unfold String.ltb. rewrite (String.compare_antisym b a).
  destruct (String.compare a b) eqn:AB; simpl; auto.
  apply String.compare_eq_iff in AB. contradiction.
Qed.

Lemma str_ltb_irrefl a : String.ltb a a = false.
Proof.
  unfold String.ltb. replace (String.compare a a) with Eq; [reflexivity|].
  symmetry. induction a as [|x a IH]; simpl; [reflexivity|]. rewrite ascii_compare_refl. exact IH.
Qed.

(* ---- Imports(): sorting makes the map order irrelevant ---- *)

Definition plt (a b : imp) : bool := String.ltb (i_path a) (i_path b).

(* every element after the head is strictly greater than it *)
Inductive ssorted : list imp -> Prop :=
| SsNil : ssorted []
| SsCons x l : Forall (fun y => plt x y = true) l -> ssorted l -> ssorted (x :: l).

Lemma insert_ssorted x l :
  ssorted l -> ~ In (i_path x) (map i_path l) -> ssorted (insert_by plt x l).
Proof.
  induction 1 as [|y l F S IH]; intros NI; simpl.
  - constructor; constructor.
  - destruct (plt y x) eqn:YX.
    + constructor.
      * assert (P : Permutation (insert_by plt x l) (x :: l)) by apply insert_by_perm.
        apply (Permutation_Forall (Permutation_sym P)). constructor; assumption.
      * apply IH. intros I. apply NI. right. exact I.
    + assert (XY : plt x y = true).
      { unfold plt in *. destruct (str_ltb_total (i_path x) (i_path y)) as [H|H]; [|exact H|congruence].
        intros E. apply NI. left. symmetry. exact E. }
      constructor; [|constructor; assumption].
      constructor; [exact XY|]. eapply Forall_impl; [|exact F].
      intros z YZ. unfold plt in *. eapply str_ltb_trans; eassumption.
Qed.

Lemma sort_ssorted l : NoDup (map i_path l) -> ssorted (sort_by plt l).
Proof.
  induction l as [|x l IH]; intros ND; simpl; [constructor|]. inversion ND; subst.
  apply insert_ssorted; [apply IH; assumption|].
  intros I. match goal with H : ~ In _ _ |- _ => apply H end.
  eapply Permutation_in; [apply Permutation_map; apply sort_by_perm|exact I].
Qed.

Lemma ssorted_head_min x l y : ssorted (x :: l) -> In y (x :: l) -> y = x \/ plt x y = true.
Proof.
  intros S [E|I]; [left; symmetry; exact E|]. right. inversion S; subst.
  match goal with F : Forall _ l |- _ => rewrite Forall_forall in F; apply F; exact I end.
Qed.

Lemma ssorted_unique : forall l1 l2, ssorted l1 -> ssorted l2 -> Permutation l1 l2 -> l1 = l2.
Proof.
  induction l1 as [|x l1 IH]; intros l2 S1 S2 P.
  - apply Permutation_nil in P. subst. reflexivity.
  - destruct l2 as [|y l2]; [apply Permutation_sym, Permutation_nil in P; discriminate|].
    assert (x = y).
    { assert (I1 : In x (y :: l2)) by (eapply Permutation_in; [exact P|left; reflexivity]).
      assert (I2 : In y (x :: l1)) by (eapply Permutation_in; [apply Permutation_sym; exact P|left; reflexivity]).
      destruct (ssorted_head_min _ _ _ S2 I1) as [E|L1]; [exact E|].
      destruct (ssorted_head_min _ _ _ S1 I2) as [E|L2]; [symmetry; exact E|].
      exfalso. unfold plt in *. pose proof (str_ltb_trans _ _ _ L1 L2) as T. rewrite str_ltb_irrefl in T. discriminate. }
    subst y. f_equal. inversion S1; subst. inversion S2; subst.
    apply IH; try assumption. eapply Permutation_cons_inv. exact P.
Qed.

(* Whatever order the Go map hands the imports out in, the sorted block is the same. *)
Theorem C14_imports_order r1 r2 :
  Permutation r1 r2 -> NoDup (map i_path r1) -> imports_sorted r1 = imports_sorted r2.
Proof.
  intros P ND. unfold imports_sorted. fold plt.
  assert (ND2 : NoDup (map i_path r2)) by (eapply Permutation_NoDup; [apply Permutation_map; exact P|exact ND]).
  apply ssorted_unique; [apply sort_ssorted; exact ND|apply sort_ssorted; exact ND2|].
  eapply Permutation_trans; [apply sort_by_perm|].
  eapply Permutation_trans; [exact P|apply Permutation_sym; apply sort_by_perm].
Qed.

(* ---- searchImport: with pairwise distinct qualifiers at most one entry matches ---- *)

Lemma matches_perm r1 r2 q : Permutation r1 r2 -> Permutation (matches r1 q) (matches r2 q).
Proof.
  unfold matches. induction 1; simpl.
  - constructor.
  - destruct (String.eqb (qualifier x) q); [apply perm_skip|]; assumption.
  - destruct (String.eqb (qualifier x) q), (String.eqb (qualifier y) q); try apply Permutation_refl.
    apply perm_swap.
  - eapply Permutation_trans; eassumption.
Qed.

Lemma nodupb_NoDup l : nodupb l = true -> NoDup l.
Proof.
  induction l as [|x l IH]; simpl; [constructor|]. intros H. apply andb_prop in H. destruct H as [H1 H2].
  constructor; [|apply IH; exact H2]. intros I.
  assert (str_mem x l = true) as E; [|rewrite E in H1; discriminate].
  unfold str_mem. apply existsb_exists. exists x. split; [exact I|apply String.eqb_refl].
Qed.

Lemma matches_at_most_one r q : NoDup (map qualifier r) -> List.length (matches r q) <= 1.
Proof.
  unfold matches. induction r as [|x r IH]; simpl; [lia|]. intros ND. inversion ND as [|? ? NI ND']; subst.
  destruct (String.eqb_spec (qualifier x) q) as [E|NE]; [|apply IH; exact ND']. simpl.
  assert (filter (fun i => String.eqb (qualifier i) q) r = []) as ->; [|simpl; lia].
  destruct (filter _ r) as [|y l] eqn:F; [reflexivity|]. exfalso.
  assert (I : In y (filter (fun i => String.eqb (qualifier i) q) r)) by (rewrite F; left; reflexivity).
  apply filter_In in I. destruct I as [I Q]. apply String.eqb_eq in Q. apply NI. rewrite E, <- Q. apply in_map. exact I.
Qed.

Theorem C14_search_order_free r1 r2 q :
  Permutation r1 r2 -> inv_distinct r1 = true -> search_import r1 q = search_import r2 q.
Proof.
  intros P INV. unfold inv_distinct in INV. apply nodupb_NoDup in INV.
  pose proof (matches_perm _ _ q P) as PM. pose proof (matches_at_most_one r1 q INV) as L1.
  unfold search_import. destruct (matches r1 q) as [|a [|b l]] eqn:M1; simpl in L1; try lia.
  - apply Permutation_nil in PM. rewrite PM. reflexivity.
  - apply Permutation_length_1_inv in PM. rewrite PM. reflexivity.
Qed.

(* ---- resolveImportVarConflicts: the renames commute unless one qualifier is another one
   followed by MoqParam.  [rename_for_imports] performs them in list order; the Go code in
   map order.  Under the condition the model checks before it commits to an order
   (rename_order_sensitive = false) every order gives the same variables. ---- *)
Definition mp (q : string) : string := q ++ "MoqParam".

Lemma rename_step q vs :
  (if has_var vs q then rename_first vs q (mp q) else vs) = rename_first vs q (mp q).
Proof.
  destruct (has_var vs q) eqn:H; [reflexivity|].
  induction vs as [|v r IH]; [reflexivity|]. cbn [has_var existsb] in H. apply orb_false_iff in H.
  destruct H as [H1 H2]. cbn [rename_first]. rewrite H1. f_equal. apply IH. exact H2.
Qed.

Lemma rename_for_imports_steps : forall quals vs,
  rename_for_imports vs quals = fold_left (fun vs q => rename_first vs q (mp q)) quals vs.
Proof.
  induction quals as [|q r IH]; intros vs; cbn [rename_for_imports fold_left]; [reflexivity|].
  fold (mp q). rewrite rename_step. apply IH.
Qed.

Definition named (vs : list var) : Prop := forall v, In v vs -> v_name v <> "".

Lemma mp_nonempty q : mp q <> "".
Proof. unfold mp. destruct q; discriminate. Qed.

Lemma rename_first_named vs q : named vs -> named (rename_first vs q (mp q)).
Proof.
  unfold named. induction vs as [|v r IH]; intros N w I; [destruct I|]. cbn [rename_first] in I.
  destruct (String.eqb (v_name v) q).
  - destruct I as [E|I]; [subst w; cbn [v_name]; apply mp_nonempty|apply N; right; exact I].
  - destruct I as [E|I]; [apply N; left; exact E|]. apply IH; [|exact I]. intros u Iu. apply N. right. exact Iu.
Qed.

Lemma rename_first_swap : forall vs x y,
  named vs -> (x <> "" -> y <> mp x) -> (y <> "" -> x <> mp y) ->
  rename_first (rename_first vs x (mp x)) y (mp y) = rename_first (rename_first vs y (mp y)) x (mp x).
Proof.
  intros vs x y N XY YX. destruct (String.eqb_spec x y) as [E|NE]; [subst y; reflexivity|].
  induction vs as [|v r IH]; [reflexivity|].
  assert (Nv : v_name v <> "") by (apply N; left; reflexivity).
  assert (Nr : named r) by (intros u Iu; apply N; right; exact Iu).
  cbn [rename_first].
  destruct (String.eqb_spec (v_name v) x) as [Vx|Vx].
  - (* v is called x *)
    assert (x <> "") as X0 by congruence.
    destruct (String.eqb_spec (v_name v) y) as [Vy|Vy]; [congruence|].
    cbn [rename_first v_name].
    destruct (String.eqb_spec (mp x) y) as [B|_]; [exfalso; apply (XY X0); symmetry; exact B|].
    destruct (String.eqb_spec (v_name v) x) as [_|B]; [reflexivity|contradiction].
  - destruct (String.eqb_spec (v_name v) y) as [Vy|Vy].
    + assert (y <> "") as Y0 by congruence.
      cbn [rename_first v_name].
      destruct (String.eqb_spec (v_name v) y) as [_|B]; [|contradiction].
      destruct (String.eqb_spec (mp y) x) as [B|_]; [exfalso; apply (YX Y0); symmetry; exact B|].
      reflexivity.
    + cbn [rename_first].
      destruct (String.eqb_spec (v_name v) y) as [B|_]; [contradiction|].
      destruct (String.eqb_spec (v_name v) x) as [B|_]; [contradiction|].
      f_equal. apply IH. exact Nr.
Qed.

(* no qualifier is another (non-empty) one followed by MoqParam *)
Definition independent (quals : list string) : Prop :=
  forall a b, In a quals -> In b quals -> a <> "" -> b <> mp a.

Lemma independent_of_check quals : rename_order_sensitive quals = false -> independent quals.
Proof.
  unfold rename_order_sensitive, independent. intros H a b Ia Ib A0 E.
  apply orb_false_iff in H. destruct H as [H _].
  assert (existsb (fun q => negb (String.eqb q "") && str_mem (q ++ "MoqParam") quals) quals = true) as T;
    [|rewrite T in H; discriminate].
  apply existsb_exists. exists a. split; [exact Ia|]. apply andb_true_iff. split.
  - destruct (String.eqb_spec a ""); [contradiction|reflexivity].
  - unfold str_mem. apply existsb_exists. exists b. split; [exact Ib|]. subst b. apply String.eqb_refl.
Qed.

Lemma renames_perm : forall q1 q2, Permutation q1 q2 ->
  forall vs, named vs -> independent q1 ->
  fold_left (fun vs q => rename_first vs q (mp q)) q1 vs =
  fold_left (fun vs q => rename_first vs q (mp q)) q2 vs.
Proof.
  induction 1 as [|x l l' P IH|x y l|l l' l'' P1 IH1 P2 IH2]; intros vs N I.
  - reflexivity.
  - cbn [fold_left]. apply IH; [apply rename_first_named; exact N|].
    intros a b Ia Ib. apply I; right; assumption.
  - cbn [fold_left]. f_equal. apply rename_first_swap; [exact N| |].
    + intros Y0. apply I; [left; reflexivity|right; left; reflexivity|exact Y0].
    + intros X0. apply I; [right; left; reflexivity|left; reflexivity|exact X0].
  - rewrite (IH1 vs N I). apply IH2; [exact N|].
    intros a b Ia Ib. apply I; eapply Permutation_in; try (apply Permutation_sym; exact P1); assumption.
Qed.

Theorem C14_renames_order_free vs quals quals' :
  rename_order_sensitive quals = false -> named vs -> Permutation quals quals' ->
  rename_for_imports vs quals = rename_for_imports vs quals'.
Proof.
  intros S N P. rewrite !rename_for_imports_steps.
  apply renames_perm; [exact P|exact N|apply independent_of_check; exact S].
Qed.

(* ---- since the repair of D16 the code visits the variable's imports in the order of their
   sorted paths: whatever order the Go map hands them out in, the renames see the same list ---- *)

Definition klt (a b : string * bool) : bool := String.ltb (fst a) (fst b).
Definition as_imp (kb : string * bool) : imp := mkImp (fst kb) "" (if snd kb then "t" else "f").

Lemma as_imp_inj a b : as_imp a = as_imp b -> a = b.
Proof.
  destruct a as [k1 b1], b as [k2 b2]. unfold as_imp. cbn [fst snd]. intros E. inversion E; subst.
  destruct b1, b2; try discriminate; reflexivity.
Qed.

Lemma map_as_imp_inj : forall l1 l2, map as_imp l1 = map as_imp l2 -> l1 = l2.
Proof.
  induction l1 as [|a l1 IH]; intros [|b l2] E; try discriminate; [reflexivity|].
  cbn [map] in E.
  assert (H1 : as_imp a = as_imp b) by (injection E; intros; unfold as_imp; congruence).
  assert (H2 : map as_imp l1 = map as_imp l2) by (injection E; auto).
  f_equal; [apply as_imp_inj; exact H1|apply IH; exact H2].
Qed.

Lemma insert_by_as_imp x l : map as_imp (insert_by klt x l) = insert_by plt (as_imp x) (map as_imp l).
Proof.
  induction l as [|y l IH]; [reflexivity|]. cbn [insert_by map].
  change (plt (as_imp y) (as_imp x)) with (klt y x). destruct (klt y x); cbn [map]; [rewrite IH|]; reflexivity.
Qed.

Lemma sort_by_as_imp l : map as_imp (sort_by klt l) = sort_by plt (map as_imp l).
Proof.
  induction l as [|x l IH]; [reflexivity|]. cbn [sort_by fold_right map].
  change (fold_right (insert_by klt) [] l) with (sort_by klt l).
  change (fold_right (insert_by plt) [] (map as_imp l)) with (sort_by plt (map as_imp l)).
  rewrite insert_by_as_imp, IH. reflexivity.
Qed.

Theorem C14_var_quals_order_free r1 imps imps' :
  Permutation imps imps' -> NoDup (map fst imps) -> var_quals r1 imps = var_quals r1 imps'.
Proof.
  intros P ND. unfold var_quals. f_equal. fold klt. apply map_as_imp_inj.
  rewrite !sort_by_as_imp.
  assert (ND' : NoDup (map i_path (map as_imp imps))).
  { rewrite map_map. cbn [as_imp i_path]. exact ND. }
  exact (C14_imports_order (map as_imp imps) (map as_imp imps') (Permutation_map as_imp P) ND').
Qed.

(* the witness of D16 on the repaired model: one result, whatever the map order *)
Example C14_renames_fixed :
  let r1 := [mkImp "x/a" "a" ""; mkImp "x/b" "aMoqParam" ""] in
  let vs := [mkVar "a" (TParam "x") []; mkVar "b" (TParam "x") []] in
  map v_name (rename_for_imports vs (var_quals r1 [("x/b", true); ("x/a", true)])) =
  map v_name (rename_for_imports vs (var_quals r1 [("x/a", true); ("x/b", true)])) /\
  var_quals r1 [("x/b", true); ("x/a", true)] = ["a"; "aMoqParam"]%string.
Proof. vm_compute. split; reflexivity. Qed.

(* without the fixed order it shows (what D16 was), evaluated witness *)
Example C14_renames_refuted :
  let vs := [mkVar "a" (TParam "x") []; mkVar "b" (TParam "x") []] in
  map v_name (rename_for_imports vs ["a"; "aMoqParam"]) <> map v_name (rename_for_imports vs ["aMoqParam"; "a"])
  /\ rename_order_sensitive ["a"; "aMoqParam"] = true.
Proof. vm_compute. split; [discriminate|reflexivity]. Qed.
