(* Cli.v -- main.run as a transformer of an abstract file system, with fault points.
   The function below is written by hand from main.go:65-112; it is PINNED to the current
   source: gen/Skeletons.v carries the normalised statements of run (and of the functions
   around it) as regenerated from /repo, and Cli_Proofs.v requires them to be exactly the
   statements this model was written from.  Definitions only. *)
From Moq Require Import Strs.
Local Open Scope list_scope.

Definition path := list string.             (* components; [] is "no path" (flag not given) *)

Inductive node := NFile (content : string) | NDir.
Definition fs := path -> option node.

Definition path_eqb (a b : path) : bool := list_eqb a b String.eqb.
Definition fs_set (f : fs) (p : path) (n : option node) : fs :=
  fun q => if path_eqb q p then n else f q.

(* proper ancestors of a path, shortest first: a/b/c -> [a; a/b] *)
Fixpoint ancestors_from (pre : path) (p : path) : list path :=
  match p with
  | [] => []
  | [_] => []
  | c :: rest => (pre ++ [c]) :: ancestors_from (pre ++ [c]) rest
  end.
Definition ancestors (p : path) : list path := ancestors_from [] p.
Definition parent (p : path) : path := removelast p.

Fixpoint is_prefix (a b : path) : bool :=
  match a, b with
  | [], _ => true
  | x :: a', y :: b' => String.eqb x y && is_prefix a' b'
  | _ :: _, [] => false
  end.

(* ---------- faults ---------- *)
Inductive write_fault :=
| WNone
| WOpenFails                      (* read-only file system, immutable file, EACCES ... *)
| WAfterTrunc (n : nat).          (* the write fails after n bytes (ENOSPC, EFBIG) *)

Record faults := mkFaults {
  ft_remove : bool;               (* os.Remove fails with something other than not-exist *)
  ft_mkdir_at : option nat;       (* MkdirAll fails when creating the k-th missing directory *)
  ft_write : write_fault }.
Definition no_faults : faults := mkFaults false None WNone.

Inductive rm_result := RmOk (f : fs) | RmNotExist | RmErr.

(* os.Remove on a file or an absent path; a directory at the path is an error for the
   purposes of moq (non-empty: ENOTEMPTY; the model does not remove directories) *)
Definition os_remove (ft : faults) (f : fs) (p : path) : rm_result :=
  match f p with
  | None => RmNotExist
  | Some (NFile _) => if ft_remove ft then RmErr else RmOk (fs_set f p None)
  | Some NDir => RmErr
  end.

(* os.MkdirAll: walk the ancestors-and-self of dir top down; an existing directory is
   kept, an existing file is ENOTDIR, a missing one is created unless the fault hits *)
Fixpoint mkdir_walk (ft : option nat) (f : fs) (todo : list path) (created : nat) : fs * bool :=
  match todo with
  | [] => (f, true)
  | d :: rest =>
    match f d with
    | Some NDir => mkdir_walk ft f rest created
    | Some (NFile _) => (f, false)
    | None =>
      if match ft with Some k => Nat.eqb k created | None => false end
      then (f, false)
      else mkdir_walk ft (fs_set f d (Some NDir)) rest (S created)
    end
  end.
Definition os_mkdir_all (ft : faults) (f : fs) (dir : path) : fs * bool :=
  match dir with
  | [] => (f, true)                               (* filepath.Dir of a bare name is "." *)
  | _ => mkdir_walk (ft_mkdir_at ft) f (ancestors dir ++ [dir]) 0
  end.

Fixpoint take_str (n : nat) (s : string) : string :=
  match n, s with
  | S k, String c r => String c (take_str k r)
  | _, _ => EmptyString
  end.

(* os.WriteFile: O_WRONLY|O_CREATE|O_TRUNC, write, close *)
Definition os_write_file (ft : faults) (f : fs) (p : path) (data : string) : fs * bool :=
  let parent_ok := match parent p with [] => true | d => match f d with Some NDir => true | _ => false end end in
  if negb parent_ok then (f, false)
  else match f p with
       | Some NDir => (f, false)
       | _ =>
         match ft_write ft with
         | WOpenFails => (f, false)
         | WAfterTrunc n => (fs_set f p (Some (NFile (take_str n data))), false)
         | WNone => (fs_set f p (Some (NFile data)), true)
         end
       end.

(* ---------- main.run ---------- *)

Record flags := mkFlags {
  fl_out : path;                  (* [] = -out not given: write to stdout *)
  fl_rm : bool;
  fl_nargs : nat }.               (* len(flag.Args()) *)

Inductive gen_result := GenOk (bytes : string) | GenErr (msg : string).

Record outcome := mkOutcome {
  oc_fs : fs;
  oc_stdout : string;             (* Go source written to standard output *)
  oc_err : option string }.       (* Some: exit status 1, diagnostic on standard error *)

Section Run.
(* moq.New followed by Mocker.Mock: loads the package from the file system as it is at that
   moment and either returns the complete bytes (handed to the writer in ONE Write) or an
   error (nothing handed to the writer): see src_mocker_mock. *)
Variable gen : fs -> gen_result.
Variable ft : faults.

(* everything after the optional removal *)
Definition run_tail (fl : flags) (f1 : fs) : outcome :=
  match gen f1 with
  | GenErr e => mkOutcome f1 "" (Some e)
  | GenOk bytes =>
    if path_eqb (fl_out fl) [] then mkOutcome f1 bytes None
    else
      match os_mkdir_all ft f1 (parent (fl_out fl)) with
      | (f2, false) => mkOutcome f2 "" (Some "mkdir")
      | (f2, true) =>
        match os_write_file ft f2 (fl_out fl) bytes with
        | (f3, false) => mkOutcome f3 "" (Some "write")
        | (f3, true) => mkOutcome f3 "" None
        end
      end
  end.

Definition run (fl : flags) (f0 : fs) : outcome :=
  if Nat.ltb (fl_nargs fl) 2 then mkOutcome f0 "" (Some "not enough arguments")
  else
    let after_rm :=
      if fl_rm fl && negb (path_eqb (fl_out fl) [])
      then match os_remove ft f0 (fl_out fl) with
           | RmOk f1 => inl f1
           | RmNotExist => inl f0
           | RmErr => inr "remove"
           end
      else inl f0 in
    match after_rm with
    | inr e => mkOutcome f0 "" (Some e)
    | inl f1 => run_tail fl f1
    end.
End Run.

(* ---------- Mocker.format ---------- *)
Section Format.
Variables gofmt goimports : string -> gen_result.
Definition format (fmt : string) (src : string) : gen_result :=
  if String.eqb fmt "goimports" then goimports src
  else if String.eqb fmt "noop" then GenOk src
  else gofmt src.
End Format.
