(* MockSpec.v -- the abstract specification of a mock: one append-only list of call
   records per method.  This is the whole of it; C03, C04, C07, C08 are read off these
   few lines, and MockSeq_Proofs.v shows every canonical program refines them. *)
From Moq Require Import Strs MockSem.
Local Open Scope list_scope.

Definition logs := string -> list record.
Definition empty_logs : logs := fun _ => [].
Definition log_set (lg : logs) (m : string) (l : list record) : logs :=
  fun x => if String.eqb x m then l else lg x.

Inductive sevent :=
| SInvoke (m : string) (args : list val)    (* MFunc invoked once with exactly these values *)
| SReturn (m : string) (rs : list val)
| SPanicUser (m : string) (v : val)         (* MFunc's panic value reaches the caller *)
| SPanicNil (m : string) (msg : string)
| SSnapshot (m : string) (recs : list record)
| SReset (m : option string).

(* the record of a call: one field per parameter, in parameter order *)
Definition rec_of (mm : mmethod) (args : list val) : record := combine (mm_record mm) args.

Definition nil_msg (mm : mmethod) : string :=
  match mm_body mm with
  | Some (INilPanic _ msg :: _) => msg
  | _ => ""
  end.

Section Spec.
Variable stub : bool.
Variable mk : mmock.

Fixpoint spec_op (o : op) (lg : logs) {struct o} : option (logs * list sevent) :=
  let spec_ops := fix go (l : list op) (lg : logs) : option (logs * list sevent) :=
    match l with
    | [] => Some (lg, [])
    | o :: r =>
      match spec_op o lg with
      | None => None
      | Some (lg1, e1) =>
        match go r lg1 with
        | None => None
        | Some (lg2, e2) => Some (lg2, e1 ++ e2)
        end
      end
    end in
  match o with
  | OCall m args f =>
    match find_method mk m with
    | None => None
    | Some mm =>
      let recorded := log_set lg m (lg m ++ [rec_of mm args]) in
      match f with
      | None =>
        if stub then Some (recorded, [SReturn m (repeat zero_val (mm_nresults mm))])
        else Some (lg, [SPanicNil m (nil_msg mm)])
      | Some (Impl cb res) =>
        (* recorded BEFORE the function runs; stays recorded whatever it does *)
        match spec_ops cb recorded with
        | None => None
        | Some (lg2, evs) =>
          Some (lg2, SInvoke m args :: evs ++
                     [match res with
                      | FRet rs => SReturn m (if Nat.eqb (mm_nresults mm) 0 then [] else rs)
                      | FPanic v => SPanicUser m v
                      end])
        end
      end
    end
  | OCalls m =>
    match find_method mk m with
    | None => None
    | Some _ => Some (lg, [SSnapshot m (lg m)])
    end
  | OReset m =>
    match find_method mk m with
    | None => None
    | Some _ => Some (log_set lg m [], [SReset (Some m)])
    end
  | OResetAll =>
    Some (fun x => if str_mem x (map mm_name (mo_methods mk)) then [] else lg x, [SReset None])
  end.

Fixpoint spec_ops (l : list op) (lg : logs) : option (logs * list sevent) :=
  match l with
  | [] => Some (lg, [])
  | o :: r =>
    match spec_op o lg with
    | None => None
    | Some (lg1, e1) =>
      match spec_ops r lg1 with
      | None => None
      | Some (lg2, e2) => Some (lg2, e1 ++ e2)
      end
    end
  end.

(* histories the Go compiler would accept: existing methods, right argument counts,
   resets only when they were generated *)
Fixpoint wf_op (resets : bool) (o : op) : bool :=
  match o with
  | OCall m args f =>
    match find_method mk m with
    | Some mm => Nat.eqb (List.length args) (mm_nparams mm)
    | None => false
    end
    && match f with
       | Some (Impl cb _) => forallb (wf_op resets) cb
       | None => true
       end
  | OCalls m => match find_method mk m with Some _ => true | None => false end
  | OReset m => resets && match find_method mk m with Some _ => true | None => false end
  | OResetAll => resets
  end.
End Spec.
