(* TmplExec.v -- an interpreter for the subset of text/template that moqTemplate uses,
   run on the parse tree regenerated from /repo (gen/TemplateSrc.v), plus the
   embedding of Gen.data as a template value.  Validated byte-for-byte against the
   real text/template on every run.  Definitions only. *)
From Moq Require Import Strs GoTypes VarName Registry Scope Gen TmplAst.
From Moq.gen Require Import Tables.

Inductive value :=
| VStr (s : string)
| VBool (b : bool)
| VInt (n : nat)
| VList (l : list value)
| VRec (fields : list (string * value))
| VNil.

Definition truth (v : value) : bool :=
  match v with
  | VStr s => negb (String.eqb s "")
  | VBool b => b
  | VInt n => negb (Nat.eqb n 0)
  | VList l => match l with [] => false | _ => true end
  | VRec _ => true
  | VNil => false
  end.

Record env := mkEnv { e_dot : value; e_vars : list (string * value) }.

Definition field (v : value) (name : string) : option value :=
  match v with
  | VRec fs => assoc name fs
  | _ => None
  end.

(* the template functions (templateFuncs in template.go) and the builtin not *)
Definition import_statement (v : value) : option value :=
  match field v "Alias", field v "Path" with
  | Some (VStr a), Some (VStr p) =>
    Some (VStr (if String.eqb a "" then """" ++ p ++ """" else a ++ " """ ++ p ++ """"))
  | _, _ => None
  end.
Definition sync_pkg_qualifier (v : value) : option value :=
  match v with
  | VList l =>
    Some (VStr
      ((fix go (l : list value) : string :=
          match l with
          | [] => "sync"
          | x :: r =>
            match field x "Path", field x "Qualifier" with
            | Some (VStr p), Some (VStr q) => if String.eqb p "sync" then q else go r
            | _, _ => go r
            end
          end) l))
  | _ => None
  end.

Definition call_fn (fn : string) (args : list value) : option value :=
  if String.eqb fn "not" then
    match args with [v] => Some (VBool (negb (truth v))) | _ => None end
  else if String.eqb fn "Exported" then
    match args with [VStr s] => Some (VStr (exported s)) | _ => None end
  else if String.eqb fn "ImportStatement" then
    match args with [v] => import_statement v | _ => None end
  else if String.eqb fn "SyncPkgQualifier" then
    match args with [v] => sync_pkg_qualifier v | _ => None end
  else None.

Fixpoint eval (e : texpr) (en : env) : option value :=
  match e with
  | EDot => Some (e_dot en)
  | EVar n => assoc n (e_vars en)
  | EField b n => match eval b en with Some v => field v n | None => None end
  | ECall fn args =>
    (fix go (l : list texpr) (acc : list value) : option value :=
       match l with
       | [] => call_fn fn (rev acc)
       | a :: r => match eval a en with Some v => go r (v :: acc) | None => None end
       end) args []
  | EStr s => Some (VStr s)
  | EUnknown _ => None
  end.

Definition print_value (v : value) : option string :=
  match v with
  | VStr s => Some s
  | _ => None        (* moq's template only ever prints strings *)
  end.

Definition bind_var (n : string) (v : value) (vars : list (string * value)) :=
  if String.eqb n "" then vars else (n, v) :: vars.

Definition oapp (a b : option string) : option string :=
  match a, b with Some x, Some y => Some (x ++ y) | _, _ => None end.

Fixpoint exec (n : tnode) (en : env) {struct n} : option string :=
  let exec_list := fix go (l : list tnode) (en : env) : option string :=
    match l with
    | [] => Some ""
    | x :: r => oapp (exec x en) (go r en)
    end in
  match n with
  | NText s => Some s
  | NAction e => match eval e en with Some v => print_value v | None => None end
  | NIf c thn els =>
    match eval c en with
    | Some v => if truth v then exec_list thn en else exec_list els en
    | None => None
    end
  | NRange iv vv e body =>
    match eval e en with
    | Some (VList items) =>
      (fix loop (items : list value) (i : nat) : option string :=
         match items with
         | [] => Some ""
         | it :: r =>
           oapp (exec_list body
                   (mkEnv it (bind_var vv it (bind_var iv (VInt i) (e_vars en)))))
                (loop r (S i))
         end) items 0
    | _ => None
    end
  | NUnknown _ => None
  end.

Fixpoint exec_nodes (l : list tnode) (en : env) : option string :=
  match l with
  | [] => Some ""
  | x :: r => oapp (exec x en) (exec_nodes r en)
  end.

(* ---------- Gen.data as a template value ---------- *)

Definition v_param (p : param_d) : value :=
  VRec [("Name", VStr (pd_name p)); ("TypeString", VStr (pd_type p))].
Definition v_method (m : method_d) : value :=
  VRec [("Name", VStr (md_name m));
        ("Params", VList (map v_param (md_params m)));
        ("Returns", VList (map v_param (md_returns m)));
        ("ArgList", VStr (arg_list m));
        ("ArgCallList", VStr (arg_call_list m));
        ("ReturnArgTypeList", VStr (return_arg_type_list m));
        ("ReturnArgNameList", VStr (return_arg_name_list m))].
Definition v_tparam (t : tparam_d) : value :=
  VRec [("Name", VStr (td_name t)); ("TypeString", VStr (td_type t));
        ("Constraint", match td_constraint t with
                       | Some s => VRec [("String", VStr s)]
                       | None => VNil
                       end)].
Definition v_mock (m : mock_d) : value :=
  VRec [("InterfaceName", VStr (mk_iface m)); ("MockName", VStr (mk_name m));
        ("TypeParams", VList (map v_tparam (mk_tparams m)));
        ("Methods", VList (map v_method (mk_methods m)))].
Definition v_import (i : imp) : value :=
  VRec [("Alias", VStr (i_alias i)); ("Path", VStr (i_path i)); ("Qualifier", VStr (qualifier i))].
Definition v_data (d : data) : value :=
  VRec [("PkgName", VStr (d_pkg_name d)); ("SrcPkgQualifier", VStr (d_src_qualifier d));
        ("Imports", VList (map v_import (d_imports d)));
        ("Mocks", VList (map v_mock (d_mocks d)));
        ("StubImpl", VBool (d_stub d)); ("SkipEnsure", VBool (d_skip_ensure d));
        ("WithResets", VBool (d_with_resets d))].

Definition render_with (tmpl : list tnode) (d : data) : option string :=
  let v := v_data d in exec_nodes tmpl (mkEnv v [("$", v)]).
