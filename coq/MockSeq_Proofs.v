(* MockSeq_Proofs.v -- every canonical program refines MockSpec, for all sequential
   histories with arbitrary re-entrant callbacks (C03, C04, C07, C08). *)
From Moq Require Import Strs MockSem MockSpec.
From Coq Require Import Lia.
Local Open Scope list_scope.

(* ---------- association lists ---------- *)

Lemma assoc_upd_same {A} (l : list (string * A)) k v : assoc k (upd l k v) = Some v.
Proof. unfold upd. simpl. rewrite String.eqb_refl. reflexivity. Qed.

Lemma assoc_filter_ne {A} (l : list (string * A)) k k' :
  k' <> k -> assoc k' (filter (fun kv => negb (String.eqb (fst kv) k)) l) = assoc k' l.
Proof.
  intros H. induction l as [|[a b] l IH]; simpl; [reflexivity|].
  destruct (String.eqb a k) eqn:E; simpl.
  - apply String.eqb_eq in E. subst a.
    destruct (String.eqb k' k) eqn:E2; [apply String.eqb_eq in E2; contradiction|]. exact IH.
  - destruct (String.eqb k' a); [reflexivity|exact IH].
Qed.

Lemma assoc_upd_other {A} (l : list (string * A)) k k' v :
  k' <> k -> assoc k' (upd l k v) = assoc k' l.
Proof.
  intros H. unfold upd. simpl.
  destruct (String.eqb k' k) eqn:E; [apply String.eqb_eq in E; contradiction|].
  apply assoc_filter_ne. exact H.
Qed.

Lemma hdr_set_same st m s : hdr (set_hdr st m s) m = s.
Proof. unfold hdr, set_hdr. cbn [st_hdr]. rewrite assoc_upd_same. reflexivity. Qed.
Lemma hdr_set_other st m m' s : m' <> m -> hdr (set_hdr st m s) m' = hdr st m'.
Proof. intros H. unfold hdr, set_hdr. cbn [st_hdr]. rewrite assoc_upd_other by exact H. reflexivity. Qed.
Lemma hdr_set_lock st m l x : hdr (set_lock st m l) x = hdr st x.
Proof. reflexivity. Qed.
Lemma lock_set_same st m l : lock_of (set_lock st m l) m = l.
Proof. unfold lock_of, set_lock. cbn [st_locks]. rewrite assoc_upd_same. reflexivity. Qed.
Lemma lock_set_other st m m' l : m' <> m -> lock_of (set_lock st m l) m' = lock_of st m'.
Proof. intros H. unfold lock_of, set_lock. cbn [st_locks]. rewrite assoc_upd_other by exact H. reflexivity. Qed.
Lemma lock_set_hdr st m s x : lock_of (set_hdr st m s) x = lock_of st x.
Proof. reflexivity. Qed.

(* ---------- heaps ---------- *)

Lemma nth_set_nth_same {A} (l : list A) n x d : n < List.length l -> nth n (set_nth l n x) d = x.
Proof.
  revert n. induction l as [|y l IH]; intros n H; simpl in *; [lia|].
  destruct n; simpl; [reflexivity|]. apply IH. lia.
Qed.
Lemma nth_set_nth_other {A} (l : list A) n k x d : k <> n -> nth k (set_nth l n x) d = nth k l d.
Proof.
  revert n k. induction l as [|y l IH]; intros n k H; simpl; [destruct n; reflexivity|].
  destruct n, k; simpl; try reflexivity; try lia. apply IH. lia.
Qed.
Lemma length_set_nth {A} (l : list A) n x : List.length (set_nth l n x) = List.length l.
Proof. revert n. induction l; intros n; simpl; [destruct n; reflexivity|]. destruct n; simpl; auto. Qed.

(* every array of h is still there in h', its written cells extended at the end only *)
Definition heap_ext (h h' : heap) : Prop :=
  List.length h <= List.length h' /\
  forall a, exists more, a_cells (get_arr h' a) = a_cells (get_arr h a) ++ more.

Lemma heap_ext_refl h : heap_ext h h.
Proof. split; [lia|]. intros a. exists []. rewrite app_nil_r. reflexivity. Qed.
Lemma heap_ext_trans h1 h2 h3 : heap_ext h1 h2 -> heap_ext h2 h3 -> heap_ext h1 h3.
Proof.
  intros [L1 E1] [L2 E2]. split; [lia|]. intros a.
  destruct (E1 a) as [m1 H1]. destruct (E2 a) as [m2 H2].
  exists (m1 ++ m2). rewrite H2, H1, app_assoc. reflexivity.
Qed.

(* a slice whose cells have all been written denotes the same records in every extension *)
Lemma denote_stable h h' s :
  heap_ext h h' -> s_len s <= List.length (a_cells (get_arr h (s_arr s))) ->
  denote h' s = denote h s.
Proof.
  intros [_ E] L. unfold denote. destruct (E (s_arr s)) as [more H]. rewrite H.
  rewrite firstn_app. replace (s_len s - _) with 0 by lia. simpl. rewrite app_nil_r. reflexivity.
Qed.

Lemma get_arr_out h a : List.length h < a -> get_arr h a = mkArr [] 0.
Proof. intros H. destruct a; [lia|]. simpl. apply nth_overflow. lia. Qed.

Lemma get_arr_app_old h b a : a <= List.length h -> get_arr (h ++ [b]) a = get_arr h a.
Proof. intros H. destruct a; [reflexivity|]. simpl. apply app_nth1. lia. Qed.
Lemma get_arr_app_new h b : get_arr (h ++ [b]) (S (List.length h)) = b.
Proof. simpl. rewrite app_nth2 by lia. replace (_ - _) with 0 by lia. reflexivity. Qed.

Lemma get_set_arr_same h a b : 1 <= a <= List.length h -> get_arr (set_arr h a b) a = b.
Proof. intros H. destruct a; [lia|]. simpl. apply nth_set_nth_same. lia. Qed.
Lemma get_set_arr_other h a a' b : a' <> a -> get_arr (set_arr h a b) a' = get_arr h a'.
Proof.
  intros H. destruct a; [reflexivity|]. destruct a'; [reflexivity|]. simpl.
  apply nth_set_nth_other. lia.
Qed.
Lemma length_set_arr h a b : List.length (set_arr h a b) = List.length h.
Proof. destruct a; [reflexivity|]. apply length_set_nth. Qed.

Section WithGrow.
Variable grow : nat -> nat.
Hypothesis grow_grows : forall n, n < grow n.

(* a header: nil, or a slice covering exactly the written cells of a live array *)
Definition slice_ok (h : heap) (s : slice) : Prop :=
  (s_arr s = 0 /\ s_len s = 0) \/
  (1 <= s_arr s <= List.length h /\
   s_len s = List.length (a_cells (get_arr h (s_arr s))) /\
   s_len s <= a_cap (get_arr h (s_arr s))).

Lemma slice_ok_len h s : slice_ok h s -> s_len s = List.length (a_cells (get_arr h (s_arr s))).
Proof. intros [[A L]|[_ [L _]]]; [rewrite A, L; reflexivity|exact L]. Qed.

Lemma go_append_spec h s r h' s' :
  slice_ok h s -> go_append grow h s r = (h', s') ->
  slice_ok h' s' /\ s_arr s' <> 0 /\
  denote h' s' = denote h s ++ [r] /\
  heap_ext h h' /\
  (forall a, a <> s_arr s' -> a <= List.length h -> get_arr h' a = get_arr h a) /\
  (s_arr s' = s_arr s \/ s_arr s' = S (List.length h)).
Proof.
  intros OK. pose proof (slice_ok_len h s OK) as LEN. unfold go_append.
  set (cells := a_cells (get_arr h (s_arr s))) in *.
  assert (FA : firstn (s_len s) cells = cells) by (rewrite LEN; apply firstn_all).
  assert (DN : firstn (S (s_len s)) (cells ++ [r]) = cells ++ [r]).
  { apply firstn_all2. rewrite app_length. simpl. lia. }
  destruct (Nat.ltb (s_len s) (a_cap (get_arr h (s_arr s)))) eqn:CAP.
  - (* in place *)
    apply Nat.ltb_lt in CAP.
    assert (NZ : 1 <= s_arr s <= List.length h).
    { destruct OK as [[A L]|[R _]]; [|exact R]. rewrite A in CAP. simpl in CAP. lia. }
    assert (NOTLT : Nat.ltb (s_len s) (List.length cells) = false) by (apply Nat.ltb_ge; lia).
    rewrite NOTLT, FA. intros E. inversion E; subst h' s'; clear E. cbn [s_arr s_len].
    split; [|split; [|split; [|split; [|split]]]].
    + right. cbn [s_arr s_len]. rewrite length_set_arr, get_set_arr_same by exact NZ.
      cbn [a_cells a_cap]. rewrite app_length. simpl. repeat split; lia.
    + lia.
    + unfold denote. cbn [s_arr s_len]. rewrite get_set_arr_same by exact NZ.
      cbn [a_cells]. fold cells. rewrite DN, FA. reflexivity.
    + split; [rewrite length_set_arr; lia|].
      intros a. destruct (Nat.eq_dec a (s_arr s)) as [->|NE].
      * rewrite get_set_arr_same by exact NZ. cbn [a_cells]. eexists. reflexivity.
      * rewrite get_set_arr_other by exact NE. exists []. rewrite app_nil_r. reflexivity.
    + intros a NE _. apply get_set_arr_other. exact NE.
    + left. reflexivity.
  - (* fresh array *)
    apply Nat.ltb_ge in CAP. rewrite FA. intros E. inversion E; subst h' s'; clear E.
    cbn [s_arr s_len].
    split; [|split; [|split; [|split; [|split]]]].
    + right. cbn [s_arr s_len]. rewrite get_arr_app_new. cbn [a_cells a_cap].
      rewrite !app_length. cbn [List.length].
      pose proof (grow_grows (s_len s)). repeat split; lia.
    + lia.
    + unfold denote. cbn [s_arr s_len]. rewrite get_arr_app_new. cbn [a_cells].
      fold cells. rewrite DN, FA. reflexivity.
    + split; [rewrite app_length; simpl; lia|].
      intros a. destruct (Nat.le_gt_cases a (List.length h)) as [LE|GT].
      * rewrite get_arr_app_old by exact LE. exists []. rewrite app_nil_r. reflexivity.
      * rewrite (get_arr_out h a GT). simpl. eexists. reflexivity.
    + intros a NE LE. apply get_arr_app_old. exact LE.
    + right. reflexivity.
Qed.
End WithGrow.

(* ---------- small list facts ---------- *)

Lemma list_eqb_eq {A} (eqb : A -> A -> bool) (l1 l2 : list A) :
  (forall x y, eqb x y = true -> x = y) -> list_eqb l1 l2 eqb = true -> l1 = l2.
Proof.
  intros E. revert l2. induction l1 as [|x l1 IH]; destruct l2 as [|y l2]; simpl; try discriminate; auto.
  intros H. apply andb_prop in H. destruct H as [H1 H2]. f_equal; auto.
Qed.
Lemma nat_eqb_true x y : Nat.eqb x y = true -> x = y.
Proof. apply Nat.eqb_eq. Qed.
Lemma str_eqb_true x y : String.eqb x y = true -> x = y.
Proof. apply String.eqb_eq. Qed.
Lemma bool_eqb_true x y : Bool.eqb x y = true -> x = y.
Proof. apply Bool.eqb_prop. Qed.

Lemma seq_from_S i n : seq_from (S i) n = map S (seq_from i n).
Proof. revert i. induction n; intros i; simpl; [reflexivity|]. rewrite IHn. reflexivity. Qed.

Lemma map_nth_seq {A} (l : list A) (d : A) :
  map (fun i => nth i l d) (seq_from 0 (List.length l)) = l.
Proof.
  induction l as [|x l IH]; simpl; [reflexivity|]. f_equal.
  rewrite seq_from_S, map_map. simpl. exact IH.
Qed.

Lemma length_seq_from i n : List.length (seq_from i n) = n.
Proof. revert i. induction n; intros; simpl; auto. Qed.

(* ---------- the state invariant and the abstraction ---------- *)

Record SInv (st : mstate) : Prop := mkSInv {
  inv_locks : forall m, lock_of st m = LFree;
  inv_hdr : forall m, slice_ok (st_heap st) (hdr st m);
  inv_sep : forall m1 m2,
      s_arr (hdr st m1) <> 0 -> s_arr (hdr st m1) = s_arr (hdr st m2) -> m1 = m2 }.

Definition abs (st : mstate) : logs := fun m => denote (st_heap st) (hdr st m).

Lemma init_inv : SInv init_state.
Proof.
  split; intros; try reflexivity.
  - left. split; reflexivity.
  - exfalso. apply H. reflexivity.
Qed.
Lemma init_abs m : abs init_state m = [].
Proof. reflexivity. Qed.

Section Refine.
Variable grow : nat -> nat.
Hypothesis grow_grows : forall n, n < grow n.

(* the effect of  Lock; append; Unlock  on the state *)
Definition do_record (st : mstate) (m : string) (r : record) : mstate :=
  let st1 := set_lock st m LW in
  let '(h, s) := go_append grow (st_heap st1) (hdr st1 m) r in
  set_lock (set_hdr (mkSt h (st_hdr st1) (st_locks st1)) m s) m LFree.

Lemma slice_ok_ext h h' s :
  slice_ok h s -> List.length h <= List.length h' ->
  (s_arr s <> 0 -> get_arr h' (s_arr s) = get_arr h (s_arr s)) -> slice_ok h' s.
Proof.
  intros [[A L]|[R [L C]]] LE G; [left; auto|]. right.
  assert (NZ : s_arr s <> 0) by lia. rewrite (G NZ). repeat split; try lia; assumption.
Qed.

Lemma do_record_spec st m r :
  SInv st ->
  SInv (do_record st m r) /\
  heap_ext (st_heap st) (st_heap (do_record st m r)) /\
  abs (do_record st m r) m = abs st m ++ [r] /\
  (forall x, x <> m -> abs (do_record st m r) x = abs st x).
Proof.
  intros [IL IH IS]. unfold do_record.
  destruct (go_append grow (st_heap (set_lock st m LW)) (hdr (set_lock st m LW) m) r) as [h s] eqn:GA.
  change (st_heap (set_lock st m LW)) with (st_heap st) in GA.
  rewrite hdr_set_lock in GA.
  destruct (go_append_spec grow grow_grows _ _ _ _ _ (IH m) GA) as [OK [NZ [DN [EXT [OTHER WHERE]]]]].
  set (st' := set_lock (set_hdr (mkSt h (st_hdr (set_lock st m LW)) (st_locks (set_lock st m LW))) m s) m LFree).
  assert (HH : st_heap st' = h) by reflexivity.
  assert (HM : hdr st' m = s).
  { unfold st'. rewrite hdr_set_lock. apply hdr_set_same. }
  assert (HO : forall x, x <> m -> hdr st' x = hdr st x).
  { intros x NE. unfold st'. rewrite hdr_set_lock. rewrite hdr_set_other by exact NE. reflexivity. }
  assert (FRESH : forall x, x <> m -> s_arr (hdr st x) <> 0 -> s_arr (hdr st x) <> s_arr s).
  { intros x NE NZx EQ. destruct WHERE as [W|W].
    - apply NE. apply (IS x m NZx). congruence.
    - destruct (IH x) as [[A _]|[[_ R] _]]; [contradiction|]. rewrite EQ, W in R. lia. }
  assert (OKX : forall x, x <> m -> slice_ok h (hdr st x)).
  { intros x NE. apply (slice_ok_ext (st_heap st)); [apply IH|apply EXT|].
    intros NZx. apply OTHER; [apply FRESH; assumption|].
    destruct (IH x) as [[A _]|[[_ R] _]]; [contradiction|exact R]. }
  split; [split|split; [|split]].
  - intros x. unfold st'. destruct (String.eqb_spec x m) as [->|NE].
    + apply lock_set_same.
    + rewrite lock_set_other by exact NE. rewrite lock_set_hdr.
      change (lock_of (set_lock st m LW) x = LFree). rewrite lock_set_other by exact NE. apply IL.
  - intros x. rewrite HH. destruct (String.eqb_spec x m) as [->|NE].
    + rewrite HM. exact OK.
    + rewrite (HO x NE). apply OKX. exact NE.
  - intros m1 m2 NZ1 EQ.
    destruct (String.eqb_spec m1 m) as [->|NE1]; destruct (String.eqb_spec m2 m) as [->|NE2]; auto.
    + rewrite HM in *. rewrite (HO m2 NE2) in EQ. exfalso.
      apply (FRESH m2 NE2); [rewrite <- EQ; exact NZ|symmetry; exact EQ].
    + rewrite HM in EQ. rewrite (HO m1 NE1) in *. exfalso. apply (FRESH m1 NE1 NZ1 EQ).
    + rewrite (HO m1 NE1), (HO m2 NE2) in *. apply IS; assumption.
  - exact EXT.
  - unfold abs. rewrite HH, HM. exact DN.
  - intros x NE. unfold abs. rewrite HH, (HO x NE).
    apply denote_stable; [exact EXT|]. rewrite (slice_ok_len _ _ (IH x)). lia.
Qed.

Ltac exec_cases :=
  try match goal with
      | |- context [match lock_of ?st ?x with _ => _ end] => destruct (lock_of st x) as [| |[|[|?]]]
      end;
  try match goal with
      | |- context [go_append ?g ?h ?s ?r] => destruct (go_append g h s r)
      end.

(* exec does not care how the callback runner is written, only what it computes *)
Lemma exec_ext mm args f c1 c2 body :
  (forall st, c1 st = c2 st) ->
  forall lc st, exec grow mm args f c1 body lc st = exec grow mm args f c2 body lc st.
Proof.
  intros E. induction body as [|i rest IH]; intros lc st; [reflexivity|].
  destruct i; cbn [exec];
    exec_cases; repeat rewrite IH; try reflexivity.
  destruct (if String.eqb m (mm_name mm) then f else Some (Impl [] (FRet []))) as [[cb res]|]; [|reflexivity].
  rewrite E. destruct (if String.eqb m (mm_name mm) then c2 st else Some (st, [])) as [[st1 evs]|]; [|reflexivity].
  destruct res; [|reflexivity]. destruct ret; [reflexivity|]. rewrite IH. reflexivity.
Qed.

(* unfolding equations that replace run_op's local loop by the top-level run_ops *)
Lemma run_ops_local mk l st :
  (fix go (l : list op) (st : mstate) : option (mstate * list event) :=
     match l with
     | [] => Some (st, [])
     | o :: r =>
       match run_op grow mk o st with
       | None => None
       | Some (st1, e1) =>
         match go r st1 with
         | None => None
         | Some (st2, e2) => Some (st2, e1 ++ e2)
         end
       end
     end) l st = run_ops grow mk l st.
Proof. revert st. induction l as [|o r IH]; intros st; simpl; [reflexivity|]. 
  destruct (run_op grow mk o st) as [[st1 e1]|]; [|reflexivity]. rewrite IH. reflexivity. Qed.

Lemma run_op_call mk m args f st :
  run_op grow mk (OCall m args f) st =
  match find_method mk m with
  | Some mm =>
    match mm_body mm with
    | Some body =>
      exec grow mm args f
           (fun st => match f with
                      | Some (Impl cb _) => run_ops grow mk cb st
                      | None => Some (st, [])
                      end) body (mkLoc [] nil_slice) st
    | None => None
    end
  | None => None
  end.
Proof.
  destruct f as [[cb res]|]; cbn [run_op]; destruct (find_method mk m) as [mm|]; try reflexivity;
    destruct (mm_body mm) as [body|]; try reflexivity.
  apply exec_ext. intros st'. apply run_ops_local.
Qed.

(* ---------- what a canonical body computes ---------- *)

Lemma canonical_record mm fs args :
  canonical_fields mm fs = true -> List.length args = mm_nparams mm ->
  map (fun '(n, i) => (n, nth i args zero_val)) fs = rec_of mm args.
Proof.
  unfold canonical_fields, rec_of. intros H L.
  apply andb_prop in H. destruct H as [H _]. apply andb_prop in H. destruct H as [H1 H2].
  apply (list_eqb_eq _ _ _ nat_eqb_true) in H1. apply (list_eqb_eq _ _ _ str_eqb_true) in H2.
  rewrite <- H2. rewrite <- L in H1. clear H2 L.
  assert (G : forall (fs : list (string * nat)) (idx : list nat) (vs : list val),
             map snd fs = idx -> map (fun i => nth i args zero_val) idx = vs ->
             map (fun '(n, i) => (n, nth i args zero_val)) fs = combine (map fst fs) vs).
  { clear. induction fs as [|[n i] fs IH]; intros idx vs E1 E2; simpl in *.
    - reflexivity.
    - subst idx. simpl in E2. subst vs. simpl. f_equal. apply (IH _ _ eq_refl eq_refl). }
  apply (G fs _ args H1). apply map_nth_seq.
Qed.

Lemma canonical_argvals mm spec args :
  canonical_args mm spec = true -> List.length args = mm_nparams mm ->
  map (arg_of args (mm_variadic mm) (mm_nparams mm)) spec = map ASame args.
Proof.
  unfold canonical_args. intros H L. apply andb_prop in H. destruct H as [H1 H2].
  apply (list_eqb_eq _ _ _ nat_eqb_true) in H1. apply (list_eqb_eq _ _ _ bool_eqb_true) in H2.
  assert (G : forall (spec : list (nat * bool)) (idx : list nat),
             map fst spec = idx ->
             map snd spec = map (fun i => mm_variadic mm && Nat.eqb (S i) (mm_nparams mm)) idx ->
             map (arg_of args (mm_variadic mm) (mm_nparams mm)) spec =
             map (fun i => ASame (nth i args zero_val)) idx).
  { clear. induction spec as [|[i b] spec IH]; intros idx E1 E2; simpl in *.
    - subst idx. reflexivity.
    - subst idx. cbn [map fst snd] in *. inversion E2 as [[Eb Er]]. f_equal.
      + unfold arg_of.
        match goal with
        | |- (if ?c && negb ?d then _ else _) = _ => change d with c; destruct c; reflexivity
        end.
      + apply IH; [reflexivity|exact Er]. }
  rewrite (G spec _ H1 H2). rewrite <- L. rewrite <- (map_map (fun i => nth i args zero_val) ASame).
  rewrite map_nth_seq. reflexivity.
Qed.

Definition final_event (mm : mmethod) (res : fres) : event :=
  match res with
  | FRet rs => EvReturn (mm_name mm) (if Nat.eqb (mm_nresults mm) 0 then [] else rs)
  | FPanic v => EvPanic (mm_name mm) (PUser v)
  end.

Lemma lock_of_mk h hd st' x : lock_of (mkSt h hd (st_locks st')) x = lock_of st' x.
Proof. reflexivity. Qed.

Lemma lock_cycle st m :
  lock_of st m = LFree -> lock_of (set_lock st m LW) m = LW.
Proof. intros _. apply lock_set_same. Qed.

Ltac next_instr H body :=
  destruct body as [|?i body]; [simpl in H; discriminate H|];
  match goal with i : instr |- _ => destruct i; simpl in H; try discriminate H end.

Lemma canonical_body_inv stub mm body :
  canonical_body stub mm body = true ->
  exists msg fs spec,
    let m := mm_name mm in
    let core := [IBuildRec fs; ILock m; IAppend m; IUnlock m] in
    let call := ICall m spec (negb (Nat.eqb (mm_nresults mm) 0)) in
    body = (if stub then core ++ [INilRetZero m (mm_nresults mm); call]
            else INilPanic m msg :: core ++ [call]) /\
    canonical_fields mm fs = true /\ canonical_args mm spec = true.
Proof.
  intros H. unfold canonical_body in H. destruct stub.
  - next_instr H body. next_instr H body. next_instr H body. next_instr H body.
    next_instr H body. next_instr H body.
    destruct body; [|discriminate H].
    repeat (apply andb_prop in H; destruct H as [H ?]).
    repeat match goal with E : String.eqb _ _ = true |- _ => apply String.eqb_eq in E; subst end.
    try (apply String.eqb_eq in H; subst).
    match goal with E : Bool.eqb _ _ = true |- _ => apply Bool.eqb_prop in E; subst end.
    match goal with E : Nat.eqb _ _ = true |- _ => apply Nat.eqb_eq in E; subst end.
    exists "", fields, args. cbn. repeat split; assumption.
  - next_instr H body. next_instr H body. next_instr H body. next_instr H body.
    next_instr H body. next_instr H body.
    destruct body; [|discriminate H].
    repeat (apply andb_prop in H; destruct H as [H ?]).
    repeat match goal with E : String.eqb _ _ = true |- _ => apply String.eqb_eq in E; subst end.
    try (apply String.eqb_eq in H; subst).
    match goal with E : Bool.eqb _ _ = true |- _ => apply Bool.eqb_prop in E; subst end.
    exists msg, fields, args. cbn. repeat split; assumption.
Qed.

(* a call whose function field is set: record, then invoke once with the caller's
   values, then hand the result or the panic to the caller *)
Lemma exec_call_some stub mm body args cb res cbrun st :
  canonical_body stub mm body = true -> SInv st -> List.length args = mm_nparams mm ->
  exec grow mm args (Some (Impl cb res)) cbrun body (mkLoc [] nil_slice) st =
  match cbrun (do_record st (mm_name mm) (rec_of mm args)) with
  | None => None
  | Some (st2, evs) =>
    Some (st2, EvInvoke (mm_name mm) (map ASame args) :: evs ++ [final_event mm res])
  end.
Proof.
  intros CAN INV LEN. pose proof (inv_locks st INV (mm_name mm)) as FREE.
  destruct (canonical_body_inv _ _ _ CAN) as [msg [fs [spec [BODY [CF CA]]]]]. cbn zeta in BODY.
  subst body.
  destruct stub; cbn [app exec]; rewrite FREE; cbn [lc_rec lc_loaded];
    rewrite (canonical_record mm _ args CF LEN);
    unfold do_record;
    destruct (go_append grow (st_heap (set_lock st (mm_name mm) LW))
                        (hdr (set_lock st (mm_name mm) LW) (mm_name mm)) (rec_of mm args)) as [h s];
    rewrite lock_set_hdr, lock_of_mk, lock_set_same; rewrite String.eqb_refl;
    rewrite (canonical_argvals mm _ args CA LEN);
    (match goal with |- context [cbrun ?x] => destruct (cbrun x) as [[st2 evs]|] end; [|reflexivity]);
    unfold final_event; (destruct res; [|reflexivity]);
    destruct (Nat.eqb (mm_nresults mm) 0); reflexivity.
Qed.

(* ---------- nil function field, accessor, resets ---------- *)

Lemma exec_call_nil_nostub mm body args cbrun st :
  canonical_body false mm body = true -> mm_body mm = Some body ->
  exec grow mm args None cbrun body (mkLoc [] nil_slice) st =
  Some (st, [EvPanic (mm_name mm) (PNil (nil_msg mm))]).
Proof.
  intros CAN MB. destruct (canonical_body_inv _ _ _ CAN) as [msg [fs [spec [BODY _]]]].
  cbn zeta in BODY. subst body. unfold nil_msg. rewrite MB. reflexivity.
Qed.

Lemma exec_call_nil_stub mm body args cbrun st :
  canonical_body true mm body = true -> SInv st -> List.length args = mm_nparams mm ->
  exec grow mm args None cbrun body (mkLoc [] nil_slice) st =
  Some (do_record st (mm_name mm) (rec_of mm args),
        [EvReturn (mm_name mm) (repeat zero_val (mm_nresults mm))]).
Proof.
  intros CAN INV LEN. pose proof (inv_locks st INV (mm_name mm)) as FREE.
  destruct (canonical_body_inv _ _ _ CAN) as [msg [fs [spec [BODY [CF CA]]]]]. cbn zeta in BODY.
  subst body. cbn [app exec]. rewrite FREE. cbn [lc_rec lc_loaded].
  rewrite (canonical_record mm _ args CF LEN). unfold do_record.
  destruct (go_append grow (st_heap (set_lock st (mm_name mm) LW))
                      (hdr (set_lock st (mm_name mm) LW) (mm_name mm)) (rec_of mm args)) as [h s].
  rewrite lock_set_hdr, lock_of_mk, lock_set_same. reflexivity.
Qed.

(* taking and releasing a lock leaves everything as it was *)
Definition relock (st : mstate) (m : string) (l : lockst) : mstate :=
  set_lock (set_lock st m l) m LFree.

Lemma relock_spec st m l :
  SInv st -> SInv (relock st m l) /\ st_heap (relock st m l) = st_heap st /\
             (forall x, hdr (relock st m l) x = hdr st x).
Proof.
  intros [IL IH IS]. unfold relock. split; [split|split]; try reflexivity.
  - intros x. destruct (String.eqb_spec x m) as [->|NE]; [apply lock_set_same|].
    rewrite !lock_set_other by exact NE. apply IL.
  - intros x. apply IH.
  - intros m1 m2. apply IS.
Qed.

Lemma exec_calls mm body st :
  canonical_calls mm body = true -> SInv st ->
  exec grow mm [] None (fun st => Some (st, [])) body (mkLoc [] nil_slice) st =
  Some (relock st (mm_name mm) (LR 1), [EvSnapshot (mm_name mm) (hdr st (mm_name mm))]).
Proof.
  intros H INV. pose proof (inv_locks st INV (mm_name mm)) as FREE. unfold canonical_calls in H.
  next_instr H body. next_instr H body. next_instr H body. next_instr H body. next_instr H body.
  destruct body; [|discriminate H].
  repeat (apply andb_prop in H; destruct H as [H ?]).
  repeat match goal with E : String.eqb _ _ = true |- _ => apply String.eqb_eq in E; subst end.
  cbn [exec]. rewrite FREE. cbn [lc_rec lc_loaded]. rewrite lock_set_same. reflexivity.
Qed.

Definition do_reset (st : mstate) (m : string) : mstate :=
  set_lock (set_hdr (set_lock st m LW) m nil_slice) m LFree.

Lemma do_reset_spec st m :
  SInv st -> SInv (do_reset st m) /\ st_heap (do_reset st m) = st_heap st /\
             hdr (do_reset st m) m = nil_slice /\
             (forall x, x <> m -> hdr (do_reset st m) x = hdr st x).
Proof.
  intros [IL IH IS]. unfold do_reset.
  assert (HM : hdr (set_lock (set_hdr (set_lock st m LW) m nil_slice) m LFree) m = nil_slice).
  { rewrite hdr_set_lock. apply hdr_set_same. }
  assert (HO : forall x, x <> m ->
               hdr (set_lock (set_hdr (set_lock st m LW) m nil_slice) m LFree) x = hdr st x).
  { intros x NE. rewrite hdr_set_lock, hdr_set_other by exact NE. reflexivity. }
  split; [split|split; [reflexivity|split; assumption]].
  - intros x. destruct (String.eqb_spec x m) as [->|NE]; [apply lock_set_same|].
    rewrite lock_set_other by exact NE. rewrite lock_set_hdr. rewrite lock_set_other by exact NE. apply IL.
  - intros x. change (st_heap _) with (st_heap st).
    destruct (String.eqb_spec x m) as [->|NE]; [rewrite HM; left; split; reflexivity|].
    rewrite (HO x NE). apply IH.
  - intros m1 m2 NZ EQ.
    destruct (String.eqb_spec m1 m) as [->|NE1]; [rewrite HM in NZ; simpl in NZ; contradiction|].
    destruct (String.eqb_spec m2 m) as [->|NE2].
    + rewrite HM in EQ. rewrite (HO m1 NE1) in *. simpl in EQ. contradiction.
    + rewrite (HO m1 NE1), (HO m2 NE2) in *. apply IS; assumption.
Qed.

Lemma exec_reset_steps mm0 m rest lc st :
  lock_of st m = LFree ->
  exec grow mm0 [] None (fun st => Some (st, [])) (ILock m :: ISetNil m :: IUnlock m :: rest) lc st =
  exec grow mm0 [] None (fun st => Some (st, [])) rest lc (do_reset st m).
Proof.
  intros FREE. cbn [exec]. rewrite FREE. rewrite lock_set_hdr, lock_set_same. reflexivity.
Qed.

Lemma exec_reset_all mm0 ms body lc st :
  canonical_reset_all ms body = true -> SInv st ->
  exists st',
    exec grow mm0 [] None (fun st => Some (st, [])) body lc st = Some (st', [EvReturn (mm_name mm0) []]) /\
    SInv st' /\ st_heap st' = st_heap st /\
    (forall x, In x ms -> hdr st' x = nil_slice) /\
    (forall x, ~ In x ms -> hdr st' x = hdr st x).
Proof.
  revert body st. induction ms as [|m ms IH]; intros body st H INV.
  - destruct body; [|discriminate H]. exists st. split; [reflexivity|]. split; [exact INV|].
    split; [reflexivity|]. split; [intros x []|intros; reflexivity].
  - cbn [canonical_reset_all] in H.
    destruct body as [|[] body]; try discriminate H.
    destruct body as [|[] body]; try discriminate H.
    destruct body as [|[] body]; try discriminate H.
    repeat (apply andb_prop in H; destruct H as [H ?]).
    repeat match goal with E : String.eqb _ _ = true |- _ => apply String.eqb_eq in E; subst end.
    rewrite exec_reset_steps by (apply (inv_locks _ INV)).
    destruct (do_reset_spec st m INV) as [INV1 [HP1 [HM1 HO1]]].
    match goal with E : canonical_reset_all ms body = true |- _ =>
      destruct (IH body (do_reset st m) E INV1) as [st' [EX [INV' [HP' [HN' HO']]]]] end.
    exists st'. split; [exact EX|]. split; [exact INV'|]. split; [congruence|]. split.
    + intros x [<-|IN]; [|apply HN'; exact IN].
      destruct (in_dec string_dec m ms) as [I|NI]; [apply HN'; exact I|].
      rewrite (HO' m NI). exact HM1.
    + intros x NI. rewrite HO' by (intros I; apply NI; right; exact I).
      apply HO1. intros ->. apply NI. left. reflexivity.
Qed.
End Refine.

(* ---------- induction over operation trees ---------- *)

Section OpInd.
Variable P : op -> Prop.
Hypothesis Hnil : forall m args, P (OCall m args None).
Hypothesis Hsome : forall m args cb res, Forall P cb -> P (OCall m args (Some (Impl cb res))).
Hypothesis Hcalls : forall m, P (OCalls m).
Hypothesis Hreset : forall m, P (OReset m).
Hypothesis Hall : P OResetAll.

Fixpoint op_ind' (o : op) : P o :=
  match o with
  | OCall m args None => Hnil m args
  | OCall m args (Some (Impl cb res)) =>
    Hsome m args cb res
          ((fix go (l : list op) : Forall P l :=
              match l with
              | [] => Forall_nil P
              | x :: r => Forall_cons x (op_ind' x) (go r)
              end) cb)
  | OCalls m => Hcalls m
  | OReset m => Hreset m
  | OResetAll => Hall
  end.
End OpInd.

(* ---------- events of the program against events of the specification ---------- *)

Definition ev_match (h : heap) (e : event) (se : sevent) : Prop :=
  match e, se with
  | EvInvoke m args, SInvoke m' vs => m = m' /\ args = map ASame vs
  | EvReturn m rs, SReturn m' rs' => m = m' /\ rs = rs'
  | EvPanic m (PUser v), SPanicUser m' v' => m = m' /\ v = v'
  | EvPanic m (PNil msg), SPanicNil m' msg' => m = m' /\ msg = msg'
  | EvSnapshot m s, SSnapshot m' recs =>
    (* the slice handed out denotes those records now and in every later heap *)
    m = m' /\ forall h', heap_ext h h' -> denote h' s = recs
  | EvReset m, SReset m' => m = m'
  | _, _ => False
  end.

Lemma ev_match_ext h h' e se : heap_ext h h' -> ev_match h e se -> ev_match h' e se.
Proof.
  intros E. destruct e, se; simpl; auto.
  intros [-> H]. split; [reflexivity|]. intros h2 E2. apply H. eapply heap_ext_trans; eassumption.
Qed.

Lemma Forall2_ev_ext h h' evs sevs :
  heap_ext h h' -> Forall2 (ev_match h) evs sevs -> Forall2 (ev_match h') evs sevs.
Proof. intros E F. induction F; constructor; auto. eapply ev_match_ext; eassumption. Qed.

Section Main.
Variable grow : nat -> nat.
Hypothesis grow_grows : forall n, n < grow n.
Variables stub resets : bool.
Variable mk : mmock.
Hypothesis CAN : canonical stub resets mk = true.

Lemma find_method_canonical m mm :
  find_method mk m = Some mm -> canonical_method stub resets mm = true /\ mm_name mm = m.
Proof.
  unfold find_method. intros F. apply find_some in F. destruct F as [IN E].
  apply String.eqb_eq in E. split; [|exact E].
  pose proof CAN as C0. unfold canonical in C0.
  repeat (apply andb_prop in C0; destruct C0 as [C0 ?]).
  rewrite forallb_forall in C0. apply C0. exact IN.
Qed.

Lemma spec_ops_local l lg :
  (fix go (l : list op) (lg : logs) : option (logs * list sevent) :=
     match l with
     | [] => Some (lg, [])
     | o :: r =>
       match spec_op stub mk o lg with
       | None => None
       | Some (lg1, e1) =>
         match go r lg1 with
         | None => None
         | Some (lg2, e2) => Some (lg2, e1 ++ e2)
         end
       end
     end) l lg = spec_ops stub mk l lg.
Proof.
  revert lg. induction l as [|o r IH]; intros lg; simpl; [reflexivity|].
  destruct (spec_op stub mk o lg) as [[lg1 e1]|]; [|reflexivity]. rewrite IH. reflexivity.
Qed.

Definition refines_op (o : op) : Prop :=
  wf_op mk resets o = true ->
  forall st lg, SInv st -> (forall x, abs st x = lg x) ->
  exists st' evs lg' sevs,
    run_op grow mk o st = Some (st', evs) /\
    spec_op stub mk o lg = Some (lg', sevs) /\
    SInv st' /\ heap_ext (st_heap st) (st_heap st') /\
    (forall x, abs st' x = lg' x) /\
    Forall2 (ev_match (st_heap st')) evs sevs.

Definition refines_ops (l : list op) : Prop :=
  forallb (wf_op mk resets) l = true ->
  forall st lg, SInv st -> (forall x, abs st x = lg x) ->
  exists st' evs lg' sevs,
    run_ops grow mk l st = Some (st', evs) /\
    spec_ops stub mk l lg = Some (lg', sevs) /\
    SInv st' /\ heap_ext (st_heap st) (st_heap st') /\
    (forall x, abs st' x = lg' x) /\
    Forall2 (ev_match (st_heap st')) evs sevs.

Lemma refines_ops_of_forall l : Forall refines_op l -> refines_ops l.
Proof.
  induction 1 as [|o r HO _ IH]; intros WF st lg INV ABS.
  - exists st, [], lg, []. simpl. split; [reflexivity|]. split; [reflexivity|]. split; [exact INV|].
    split; [apply heap_ext_refl|]. split; [exact ABS|constructor].
  - simpl in WF. apply andb_prop in WF. destruct WF as [WF1 WF2].
    destruct (HO WF1 st lg INV ABS) as [st1 [e1 [lg1 [s1 [R1 [S1 [I1 [X1 [A1 M1]]]]]]]]].
    destruct (IH WF2 st1 lg1 I1 A1) as [st2 [e2 [lg2 [s2 [R2 [S2 [I2 [X2 [A2 M2]]]]]]]]].
    exists st2, (e1 ++ e2), lg2, (s1 ++ s2). simpl. rewrite R1, R2, S1, S2.
    split; [reflexivity|]. split; [reflexivity|]. split; [exact I2|].
    split; [eapply heap_ext_trans; eassumption|]. split; [exact A2|].
    apply Forall2_app; [|exact M2]. eapply Forall2_ev_ext; eassumption.
Qed.

Lemma denote_nil h : denote h nil_slice = [].
Proof. reflexivity. Qed.

Lemma retarget_one n e : retarget [EvReturn n []] e = [e].
Proof. reflexivity. Qed.

Lemma canonical_reset_as_all m b : canonical_reset m b = true -> canonical_reset_all [m] b = true.
Proof.
  unfold canonical_reset. intros H.
  destruct b as [|[] b]; try discriminate H.
  destruct b as [|[] b]; try discriminate H.
  destruct b as [|[] b]; try discriminate H.
  destruct b; [|discriminate H]. simpl. rewrite H. reflexivity.
Qed.

Theorem refine_op : forall o, refines_op o.
Proof.
  apply op_ind'.
  - (* call, function field nil *)
    intros m args WF st lg INV ABS. simpl in WF.
    destruct (find_method mk m) as [mm|] eqn:FM; [|discriminate WF].
    rewrite andb_true_r in WF. apply Nat.eqb_eq in WF.
    destruct (find_method_canonical m mm FM) as [CM NAME].
    unfold canonical_method in CM. repeat (apply andb_prop in CM; destruct CM as [CM ?]).
    destruct (mm_body mm) as [body|] eqn:MB; [|discriminate].
    rewrite run_op_call, FM, MB. cbn [spec_op]. rewrite FM.
    destruct stub.
    + rewrite (exec_call_nil_stub grow mm body args _ st) by assumption. rewrite NAME.
      destruct (do_record_spec grow grow_grows st m (rec_of mm args) INV) as [I1 [X1 [AM AO]]].
      do 4 eexists. split; [reflexivity|]. split; [reflexivity|].
      split; [exact I1|]. split; [exact X1|]. split.
      * intros x. unfold log_set. destruct (String.eqb_spec x m) as [->|NE].
        -- rewrite AM, ABS. reflexivity.
        -- rewrite (AO x NE). apply ABS.
      * constructor; [|constructor]. simpl. split; reflexivity.
    + rewrite (exec_call_nil_nostub grow mm body args _ st) by assumption. rewrite NAME.
      do 4 eexists. split; [reflexivity|]. split; [reflexivity|].
      split; [exact INV|]. split; [apply heap_ext_refl|]. split; [exact ABS|].
      constructor; [|constructor]. simpl. split; reflexivity.
  - (* call, function field set; the callback is any tree of operations *)
    intros m args cb res IHcb WF st lg INV ABS. simpl in WF.
    destruct (find_method mk m) as [mm|] eqn:FM; [|discriminate WF].
    apply andb_prop in WF. destruct WF as [WF WFcb]. apply Nat.eqb_eq in WF.
    destruct (find_method_canonical m mm FM) as [CM NAME].
    unfold canonical_method in CM. repeat (apply andb_prop in CM; destruct CM as [CM ?]).
    destruct (mm_body mm) as [body|] eqn:MB; [|discriminate].
    rewrite run_op_call, FM, MB. cbn [spec_op]. rewrite FM.
    rewrite (exec_call_some grow stub mm body args cb res _ st) by assumption. rewrite NAME.
    destruct (do_record_spec grow grow_grows st m (rec_of mm args) INV) as [I1 [X1 [AM AO]]].
    assert (A1 : forall x, abs (do_record grow st m (rec_of mm args)) x =
                           log_set lg m (lg m ++ [rec_of mm args]) x).
    { intros x. unfold log_set. destruct (String.eqb_spec x m) as [->|NE].
      - rewrite AM, ABS. reflexivity.
      - rewrite (AO x NE). apply ABS. }
    destruct (refines_ops_of_forall cb IHcb WFcb _ _ I1 A1)
      as [st2 [e2 [lg2 [s2 [R2 [S2 [I2 [X2 [A2 M2]]]]]]]]].
    rewrite R2. rewrite spec_ops_local, S2.
    do 4 eexists. split; [reflexivity|]. split; [reflexivity|].
    split; [exact I2|]. split; [eapply heap_ext_trans; eassumption|]. split; [exact A2|].
    constructor; [simpl; split; reflexivity|].
    apply Forall2_app; [exact M2|]. constructor; [|constructor].
    unfold final_event. rewrite NAME. destruct res; simpl; split; reflexivity.
  - (* accessor *)
    intros m WF st lg INV ABS. simpl in WF.
    destruct (find_method mk m) as [mm|] eqn:FM; [|discriminate WF].
    destruct (find_method_canonical m mm FM) as [CM NAME].
    unfold canonical_method in CM. repeat (apply andb_prop in CM; destruct CM as [CM ?]).
    destruct (mm_calls mm) as [body|] eqn:MC; [|discriminate].
    cbn [run_op spec_op]. rewrite FM, MC. rewrite (exec_calls grow mm body st) by assumption.
    rewrite NAME. destruct (relock_spec st m (LR 1) INV) as [I1 [HP HH]].
    do 4 eexists. split; [reflexivity|]. split; [reflexivity|].
    split; [exact I1|]. split; [rewrite HP; apply heap_ext_refl|]. split.
    + intros x. unfold abs. rewrite HP, HH. apply ABS.
    + constructor; [|constructor]. simpl. split; [reflexivity|]. intros h' E. try rewrite HP in E.
      rewrite <- ABS. apply denote_stable; [exact E|].
      rewrite (slice_ok_len _ _ (inv_hdr st INV m)). lia.
  - (* ResetMCalls *)
    intros m WF st lg INV ABS. simpl in WF. apply andb_prop in WF. destruct WF as [RS WF].
    destruct (find_method mk m) as [mm|] eqn:FM; [|discriminate WF].
    destruct (find_method_canonical m mm FM) as [CM NAME].
    unfold canonical_method in CM. repeat (apply andb_prop in CM; destruct CM as [CM ?]).
    destruct (mm_reset mm) as [body|] eqn:MR; [|rewrite RS in *; discriminate].
    match goal with E : _ && canonical_reset _ _ = true |- _ =>
      apply andb_prop in E; destruct E as [_ CR] end.
    rewrite NAME in CR. apply canonical_reset_as_all in CR.
    cbn [run_op spec_op]. rewrite FM, MR. unfold exec_plain.
    destruct (exec_reset_all grow (mkMM m 0 false 0 None None None [] false) [m] body
                             (mkLoc [] nil_slice) st CR INV)
      as [st' [EX [I1 [HP [HN HO]]]]].
    rewrite EX. cbn [mm_name]. rewrite retarget_one.
    do 4 eexists. split; [reflexivity|]. split; [reflexivity|].
    split; [exact I1|]. split; [rewrite HP; apply heap_ext_refl|]. split.
    + intros x. unfold abs, log_set. rewrite HP. destruct (String.eqb_spec x m) as [->|NE].
      * rewrite HN by (left; reflexivity). reflexivity.
      * rewrite HO by (intros [E|[]]; congruence). apply ABS.
    + constructor; [|constructor]. reflexivity.
  - (* ResetCalls *)
    intros WF st lg INV ABS. simpl in WF.
    assert (CAN' := CAN). unfold canonical in CAN'.
    repeat (apply andb_prop in CAN'; destruct CAN' as [CAN' ?]).
    destruct (mo_reset_all mk) as [body|] eqn:RA; [|rewrite WF in *; discriminate].
    match goal with E : _ && canonical_reset_all _ _ = true |- _ =>
      apply andb_prop in E; destruct E as [_ CR] end.
    cbn [run_op spec_op]. rewrite RA. unfold exec_plain.
    destruct (exec_reset_all grow (mkMM "" 0 false 0 None None None [] false) _ body
                             (mkLoc [] nil_slice) st CR INV)
      as [st' [EX [I1 [HP [HN HO]]]]].
    rewrite EX. cbn [mm_name]. rewrite retarget_one.
    do 4 eexists. split; [reflexivity|]. split; [reflexivity|].
    split; [exact I1|]. split; [rewrite HP; apply heap_ext_refl|]. split.
    + intros x. unfold abs. rewrite HP.
      destruct (str_mem x (map mm_name (mo_methods mk))) eqn:SM.
      * rewrite HN; [reflexivity|]. unfold str_mem in SM. apply existsb_exists in SM.
        destruct SM as [y [IN E]]. apply String.eqb_eq in E. subst. exact IN.
      * rewrite HO; [apply ABS|]. intros IN. unfold str_mem in SM.
        assert (existsb (String.eqb x) (map mm_name (mo_methods mk)) = true).
        { apply existsb_exists. exists x. split; [exact IN|apply String.eqb_refl]. }
        congruence.
    + constructor; [|constructor]. reflexivity.
Qed.

(* every sequential history, callbacks included *)
Theorem refine_ops : forall l, refines_ops l.
Proof. intros l. apply refines_ops_of_forall. apply Forall_forall. intros o _. apply refine_op. Qed.

End Main.
