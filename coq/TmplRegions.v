(* TmplRegions.v -- the closedness obligation of TmplClosed.v, split by region of the
   template, so that a new conditional in (say) the reset methods voids the finite-shape
   argument only for the properties that are about resets.  Regions are found structurally
   in the tree regenerated from /repo; if the structure is not found every region is open. *)
From Moq Require Import Strs TmplAst TmplClosed.
From Moq.gen Require Import TemplateSrc.
Local Open Scope string_scope.

Fixpoint str_contains_aux (fuel : nat) (needle s : string) : bool :=
  match fuel with
  | O => false
  | S f =>
    String.prefix needle s ||
    match s with EmptyString => false | String _ r => str_contains_aux f needle r end
  end.
Definition str_contains (needle s : string) : bool := str_contains_aux (S (String.length s)) needle s.

Definition text_has (needle : string) (n : tnode) : bool :=
  match n with NText t => str_contains needle t | _ => false end.

Definition accessor_marker : string := "Calls gets all the calls".

(* the range over .Methods that emits the method, its accessor and its reset *)
Definition is_big_methods_range (n : tnode) : bool :=
  match n with
  | NRange _ _ (EField EDot "Methods") body => existsb (text_has accessor_marker) body
  | _ => false
  end.

Definition mocks_body (t : list tnode) : list tnode :=
  match find (fun n => match n with NRange _ _ (EField EDot "Mocks") _ => true | _ => false end) t with
  | Some (NRange _ _ _ body) => body
  | _ => []
  end.
Definition big_range_body (t : list tnode) : list tnode :=
  match find is_big_methods_range (mocks_body t) with
  | Some (NRange _ _ _ body) => body
  | _ => []
  end.

Fixpoint take_until {A} (p : A -> bool) (l : list A) : list A :=
  match l with [] => [] | x :: r => if p x then [] else x :: take_until p r end.
Fixpoint drop_until {A} (p : A -> bool) (l : list A) : list A :=
  match l with [] => [] | x :: r => if p x then l else drop_until p r end.

Definition is_resets_if (n : tnode) : bool :=
  match n with NIf (EField (EVar "$") "WithResets") _ _ => true | _ => false end.

Definition method_region (t : list tnode) : list tnode := take_until (text_has accessor_marker) (big_range_body t).
Definition accessor_region (t : list tnode) : list tnode :=
  take_until is_resets_if (drop_until (text_has accessor_marker) (big_range_body t)).
Definition reset_region (t : list tnode) : list tnode :=
  filter is_resets_if (big_range_body t) ++ filter is_resets_if (mocks_body t).
(* everything else: header, imports, self-check, type declaration *)
Definition rest_region (t : list tnode) : list tnode :=
  filter (fun n => negb (match n with NRange _ _ (EField EDot "Mocks") _ => true | _ => false end)) t
  ++ filter (fun n => negb (is_big_methods_range n) && negb (is_resets_if n)) (mocks_body t).

Definition regions_found (t : list tnode) : bool :=
  negb (match method_region t with [] => true | _ => false end)
  && negb (match accessor_region t with [] => true | _ => false end)
  && Nat.eqb (List.length (reset_region t)) 2
  (* nothing of the big range is outside the three regions, except plain text after the reset *)
  && Nat.eqb (List.length (filter is_resets_if (big_range_body t))) 1
  && forallb (fun n => match n with NText _ => true | _ => false end)
             (tl (drop_until is_resets_if (big_range_body t)))
  && Nat.eqb (List.length (method_region t) + List.length (accessor_region t)
              + List.length (drop_until is_resets_if (big_range_body t)))
             (List.length (big_range_body t)).

Definition closed (ns : list tnode) : bool := forallb node_closed ns.

