(* Names_Proofs.v -- C12 / C13: every name AddVar gives a variable is a valid (ASCII) Go
   identifier, whatever the type it is derived from, the suffix, the MoqParam escapes and the
   numbering -- given that the names of the types it is derived from are identifiers.  (The
   model names a nested basic type by its NAME; the code used its printed form until fix
   ec39d16, and `unsafe.Pointers` is what this theorem's hypothesis-free reading refuted.) *)
From Moq Require Import Strs Strs_Proofs GoTypes TypeString VarName Registry Scope.
From Moq.gen Require Import Tables.
From Coq Require Import Lia DecimalString Decimal.
Local Open Scope string_scope.

Lemma forall_str_app f a b : forall_str f (a ++ b) = forall_str f a && forall_str f b.
Proof. induction a as [|c a IH]; simpl; [reflexivity|]. rewrite IH, andb_assoc. reflexivity. Qed.

Lemma ident_chars s : is_identifier s = true -> forall_str is_ident_char s = true.
Proof.
  destruct s as [|c r]; [discriminate|]. simpl. intros H. apply andb_prop in H. destruct H as [L R].
  unfold is_ident_char at 1. rewrite L, R. reflexivity.
Qed.

Lemma ident_app a b : is_identifier a = true -> forall_str is_ident_char b = true -> is_identifier (a ++ b) = true.
Proof.
  destruct a as [|c r]; [discriminate|]. simpl. intros H B. apply andb_prop in H. destruct H as [L R].
  rewrite L, forall_str_app, R, B. reflexivity.
Qed.

Lemma letter_lower c : is_letter c = true -> is_letter (lower c) = true.
Proof. destruct c as [[] [] [] [] [] [] [] []]; vm_compute; auto. Qed.
Lemma letter_upper c : is_letter c = true -> is_letter (upper c) = true.
Proof. destruct c as [[] [] [] [] [] [] [] []]; vm_compute; auto. Qed.

Lemma ident_decap s : is_identifier s = true -> is_identifier (decapitalise s) = true.
Proof.
  destruct s as [|c r]; [discriminate|]. simpl. intros H. apply andb_prop in H. destruct H as [L R].
  rewrite (letter_lower _ L), R. reflexivity.
Qed.
Lemma ident_cap s : is_identifier s = true -> is_identifier (capitalise s) = true.
Proof.
  destruct s as [|c r]; [discriminate|]. simpl. intros H. apply andb_prop in H. destruct H as [L R].
  rewrite (letter_upper _ L), R. reflexivity.
Qed.

(* decimal numerals are identifier characters *)
Lemma uint_chars d : forall_str is_ident_char (NilEmpty.string_of_uint d) = true.
Proof. induction d; simpl; try rewrite IHd; reflexivity. Qed.
Lemma itoa_chars n : forall_str is_ident_char (itoa n) = true.
Proof. apply uint_chars. Qed.

(* the type names a derived name is built from *)
Fixpoint names_ok (t : ty) : bool :=
  match t with
  | TNamed _ name _ => is_identifier name
  | TBasic name _ _ => is_identifier name
  | TArray _ e | TSlice e | TPtr e | TChan _ e => names_ok e
  | TMap k v => names_ok k && names_ok v
  | _ => true
  end.

Definition nested_name (t : ty) : string :=
  match t with TBasic name _ _ => decapitalise name | _ => var_name_for_type t end.

Lemma var_name_for_type_unfold t :
  var_name_for_type t =
  match t with
  | TNamed _ name _ =>
    if String.eqb name "error" then "err"
    else let n := decapitalise name in if String.eqb n name then n ++ "MoqParam" else n
  | TBasic _ k _ => basic_var_name k
  | TArray _ e => nested_name e ++ "s"
  | TSlice e => nested_name e ++ "s"
  | TStruct _ => "val"
  | TPtr e => var_name_for_type e
  | TFunc _ _ _ => "fn"
  | TIface _ _ _ => "ifaceVal"
  | TMap k v => nested_name k ++ "To" ++ capitalise (nested_name v)
  | TChan _ e => nested_name e ++ "Ch"
  | TAlias _ _ _ => "v"
  | TParam _ => "v"
  | TUnion _ => "v"
  end.
Proof. destruct t; reflexivity. Qed.

Theorem var_name_for_type_identifier : forall t,
  names_ok t = true -> is_identifier (var_name_for_type t) = true.
Proof.
  fix IH 1. intros t OK.
  assert (NESTED : forall e, names_ok e = true -> (names_ok e = true -> is_identifier (var_name_for_type e) = true) ->
                             is_identifier (nested_name e) = true).
  { intros e OKe REC. destruct e; try (apply REC; exact OKe). cbn [nested_name]. apply ident_decap. exact OKe. }
  rewrite var_name_for_type_unfold. destruct t; try reflexivity.
  - destruct k; reflexivity.
  - cbn [names_ok] in OK. destruct (String.eqb name "error"); [reflexivity|]. cbv zeta.
    destruct (String.eqb (decapitalise name) name).
    + apply ident_app; [apply ident_decap; exact OK|reflexivity].
    + apply ident_decap. exact OK.
  - apply IH. exact OK.
  - apply ident_app; [|reflexivity]. apply NESTED; [exact OK|apply IH].
  - apply ident_app; [|reflexivity]. apply NESTED; [exact OK|apply IH].
  - cbn [names_ok] in OK. apply andb_prop in OK. destruct OK as [O1 O2].
    apply ident_app; [apply NESTED; [exact O1|apply IH]|].
    rewrite forall_str_app. apply ident_chars. apply ident_cap. apply NESTED; [exact O2|apply IH].
  - apply ident_app; [|reflexivity]. apply NESTED; [exact OK|apply IH].
Qed.

(* what a declared name may be: absent, blank, or an identifier *)
Definition declared_ok (name : string) : bool :=
  String.eqb name "" || String.eqb name "_" || is_identifier name.

(* varName *)
Theorem var_name_identifier name t suffix :
  declared_ok name = true -> names_ok t = true -> forall_str is_ident_char suffix = true ->
  is_identifier (var_name name t suffix) = true.
Proof.
  unfold var_name, var_name_with, declared_ok. intros D OK S.
  destruct (String.eqb name "") eqn:E1; cbn [negb andb].
  - destruct (str_mem _ reserved_names).
    + apply ident_app; [apply ident_app; [apply var_name_for_type_identifier; exact OK|exact S]|reflexivity].
    + apply ident_app; [apply var_name_for_type_identifier; exact OK|exact S].
  - destruct (String.eqb name "_") eqn:E2; cbn [negb].
    + destruct (str_mem _ reserved_names).
      * apply ident_app; [apply ident_app; [apply var_name_for_type_identifier; exact OK|exact S]|reflexivity].
      * apply ident_app; [apply var_name_for_type_identifier; exact OK|exact S].
    + cbn [orb] in D. cbv zeta.
      destruct (String.eqb (name ++ suffix) "mock" || String.eqb (name ++ suffix) "callInfo").
      * apply ident_app; [apply ident_app; [exact D|exact S]|reflexivity].
      * apply ident_app; [exact D|exact S].
Qed.

(* ---------- through AddVar: every variable of the scope has an identifier as its name ---------- *)

Definition AllIdent (vs : list var) : Prop := Forall (fun v => is_identifier (v_name v) = true) vs.

Lemma rename_first_ident vs a b : AllIdent vs -> is_identifier b = true -> AllIdent (rename_first vs a b).
Proof.
  induction 1 as [|v vs Hv F IH]; intros B; [constructor|]. cbn [rename_first].
  destruct (String.eqb (v_name v) a).
  - constructor; [exact B|exact F].
  - constructor; [exact Hv|apply IH; exact B].
Qed.

Lemma has_var_ident vs q : AllIdent vs -> has_var vs q = true -> is_identifier q = true.
Proof.
  intros A H. unfold has_var in H. apply existsb_exists in H. destruct H as [v [I Q]].
  apply String.eqb_eq in Q. subst q. unfold AllIdent in A. rewrite Forall_forall in A. apply A. exact I.
Qed.

Lemma rename_for_imports_ident qs : forall vs, AllIdent vs -> AllIdent (rename_for_imports vs qs).
Proof.
  induction qs as [|q qs IH]; intros vs A; [exact A|]. cbn [rename_for_imports]. apply IH.
  destruct (has_var vs q) eqn:H; [|exact A].
  apply rename_first_ident; [exact A|]. apply ident_app; [eapply has_var_ident; eassumption|reflexivity].
Qed.

Lemma resolve_conflict_ident sc s n sc' :
  AllIdent (sc_vars sc) -> is_identifier s = true ->
  resolve_var_name_conflict sc s = Ok (n, sc') -> AllIdent (sc_vars sc') /\ is_identifier n = true.
Proof.
  intros A S. unfold resolve_var_name_conflict.
  destruct (first_free _ (sc_vars sc) s 1) as [[|[|k]]|]; try discriminate.
  - intros E. inversion E; subst. split; [exact A|]. apply ident_app; [exact S|apply itoa_chars].
  - destruct (first_free _ _ s 2) as [m|]; [|discriminate]. intros E. inversion E; subst. cbn [sc_vars]. split.
    + destruct (has_var (sc_vars sc) s); [|exact A]. apply rename_first_ident; [exact A|].
      apply ident_app; [exact S|reflexivity].
    + apply ident_app; [exact S|apply itoa_chars].
  - intros E. inversion E; subst. split; [exact A|]. apply ident_app; [exact S|apply itoa_chars].
Qed.

(* AddVar: the names of a scope stay identifiers, and the new variable gets one *)
Theorem add_var_identifiers cfg r sc name t suffix r' sc' idx :
  add_var cfg r sc name t suffix = Ok (r', sc', idx) ->
  AllIdent (sc_vars sc) -> declared_ok name = true -> names_ok t = true ->
  forall_str is_ident_char suffix = true ->
  AllIdent (sc_vars sc').
Proof.
  unfold add_var. destruct (populate cfg r (refs t) []) as [[r1 imps]| | | |]; try discriminate.
  cbn [bind]. intros E A D OK S.
  set (vs1 := rename_for_imports (sc_vars sc) (var_quals r1 imps)) in *.
  assert (A1 : AllIdent vs1) by (apply rename_for_imports_ident; exact A).
  set (n0 := var_name name t suffix) in *.
  assert (I0 : is_identifier n0 = true) by (apply var_name_identifier; assumption).
  set (n1 := match search_import r1 n0 with Some _ => n0 ++ "MoqParam" | None => n0 end) in *.
  assert (I1 : is_identifier n1 = true).
  { unfold n1. destruct (search_import r1 n0); [apply ident_app; [exact I0|reflexivity]|exact I0]. }
  destruct (has_var vs1 n1 || str_mem n1 (sc_conflicted sc)).
  - destruct (resolve_var_name_conflict (mkScope vs1 (sc_conflicted sc)) n1) as [[n2 sc2]| | | |] eqn:R;
      try discriminate.
    cbn [bind] in E. inversion E; subst. cbn [sc_vars].
    destruct (resolve_conflict_ident (mkScope vs1 (sc_conflicted sc)) _ _ _ A1 I1 R) as [A2 I2].
    apply Forall_app. split; [exact A2|]. constructor; [exact I2|constructor].
  - cbn [bind] in E. inversion E; subst. cbn [sc_vars].
    apply Forall_app. split; [exact A1|]. constructor; [exact I1|constructor].
Qed.

(* the witness of D33, on the model: named after the type's name *)
Example unsafe_pointer_names :
  var_name "" (TSlice (TBasic "Pointer" KOther true)) "" = "pointers" /\
  var_name "" (TMap (TBasic "string" KString false) (TBasic "Pointer" KOther true)) "" = "stringToPointer".
Proof. vm_compute. split; reflexivity. Qed.
