(* P_C08.v -- C08: reset API exists only on request and clears exactly what it names. *)
From Moq Require Import Strs MockSem MockSpec MockSeq_Proofs.
Local Open Scope list_scope.

(* presence: a checked mock has ResetMCalls for every M and ResetCalls exactly when the
   flag is on, and no method outside the known families *)
Theorem C08_presence stub resets mk :
  canonical stub resets mk = true ->
  (forall mm, In mm (mo_methods mk) ->
     (if resets then mm_reset mm <> None else mm_reset mm = None)) /\
  (if resets then mo_reset_all mk <> None else mo_reset_all mk = None) /\
  mo_extra mk = [].
Proof.
  intros CAN. unfold canonical in CAN. repeat (apply andb_prop in CAN; destruct CAN as [CAN ?]).
  split; [|split].
  - rewrite forallb_forall in CAN. intros mm IN. specialize (CAN mm IN).
    unfold canonical_method in CAN. repeat (apply andb_prop in CAN; destruct CAN as [CAN ?]).
    destruct (mm_reset mm), resets; try discriminate; congruence.
  - destruct (mo_reset_all mk), resets; try discriminate; congruence.
  - destruct (mo_extra mk); [reflexivity|discriminate].
Qed.

Section C08.
Variable grow : nat -> nat.
Hypothesis grow_grows : forall n, n < grow n.
Variable stub : bool.
Variable mk : mmock.
Hypothesis CAN : canonical stub true mk = true.

(* ResetMCalls() empties the record of M and of no other method *)
Theorem C08_reset_one m mm st :
  find_method mk m = Some mm -> SInv st ->
  exists st',
    run_op grow mk (OReset m) st = Some (st', [EvReset (Some m)]) /\ SInv st' /\
    abs st' m = [] /\ (forall x, x <> m -> abs st' x = abs st x).
Proof.
  intros FM INV.
  assert (WF : wf_op mk true (OReset m) = true) by (simpl; rewrite FM; reflexivity).
  destruct (refine_op grow grow_grows stub true mk CAN (OReset m) WF st (abs st) INV (fun _ => eq_refl))
    as [st' [evs [lg' [sevs [R [S [I [_ [A M]]]]]]]]].
  cbn [spec_op] in S. rewrite FM in S. inversion S; subst lg' sevs; clear S.
  inversion M as [|e se l1 l2 ME ML]; subst. inversion ML; subst.
  destruct e; simpl in ME; try contradiction; try (destruct p; contradiction). subst.
  exists st'. split; [exact R|]. split; [exact I|]. split.
  - rewrite A. unfold log_set. rewrite String.eqb_refl. reflexivity.
  - intros x NE. rewrite A. unfold log_set.
    destruct (String.eqb_spec x m); [contradiction|reflexivity].
Qed.

(* ResetCalls() empties the records of all methods *)
Theorem C08_reset_all st :
  SInv st ->
  exists st',
    run_op grow mk OResetAll st = Some (st', [EvReset None]) /\ SInv st' /\
    (forall mm, In mm (mo_methods mk) -> abs st' (mm_name mm) = []).
Proof.
  intros INV.
  destruct (refine_op grow grow_grows stub true mk CAN OResetAll eq_refl st (abs st) INV (fun _ => eq_refl))
    as [st' [evs [lg' [sevs [R [S [I [_ [A M]]]]]]]]].
  cbn [spec_op] in S. inversion S; subst lg' sevs; clear S.
  inversion M as [|e se l1 l2 ME ML]; subst. inversion ML; subst.
  destruct e; simpl in ME; try contradiction; try (destruct p; contradiction). subst.
  exists st'. split; [exact R|]. split; [exact I|].
  intros mm IN. rewrite A.
  assert (str_mem (mm_name mm) (map mm_name (mo_methods mk)) = true) as ->; [|reflexivity].
  unfold str_mem. apply existsb_exists. exists (mm_name mm). split; [|apply String.eqb_refl].
  apply in_map. exact IN.
Qed.

(* recording afterwards starts again from empty *)
Theorem C08_restart m mm args st st1 :
  find_method mk m = Some mm -> List.length args = mm_nparams mm -> SInv st ->
  run_op grow mk (OReset m) st = Some (st1, [EvReset (Some m)]) ->
  abs (do_record grow st1 m (rec_of mm args)) m = [rec_of mm args].
Proof.
  intros FM LEN INV R.
  destruct (C08_reset_one m mm st FM INV) as [st' [R' [I' [E' _]]]].
  rewrite R in R'. inversion R'; subst st'.
  destruct (do_record_spec grow grow_grows st1 m (rec_of mm args) I') as [_ [_ [AM _]]].
  rewrite AM, E'. reflexivity.
Qed.
End C08.
