(* TmplClosedAll.v -- the whole template regenerated from /repo is closed (TmplClosed.v). *)
From Moq Require Import Strs TmplAst TmplClosed.
From Moq.gen Require Import TemplateSrc.

Theorem moq_template_control_closed : template_control_closed moq_template = true.
Proof. vm_compute. reflexivity. Qed.
