(* VarName.v -- model of internal/registry/var.go (varName, varNameForType,
   basicTypeVarName, capitalise, deCapitalise) and of the template function
   Exported (internal/template/template.go). *)
From Moq Require Import Strs GoTypes.
From Moq.gen Require Import Tables.

(* strings.ToUpper(s[:1]) + s[1:]  -- ASCII first byte; "" would panic in Go, the
   callers never pass it (C19_no_slice_panic) *)
Definition capitalise (s : string) : string :=
  match s with EmptyString => EmptyString | String c r => String (upper c) r end.
Definition decapitalise (s : string) : string :=
  match s with EmptyString => EmptyString | String c r => String (lower c) r end.

(* template function Exported, parametric in the initialism table *)
Definition exported_with (inits : list string) (s : string) : string :=
  match s with
  | EmptyString => EmptyString
  | String c r =>
    match find (String.eqb (to_upper s)) inits with
    | Some i => i
    | None => String (upper c) r
    end
  end.
Definition exported : string -> string := exported_with initialisms.

Definition basic_var_name (k : bkind) : string :=
  match k with
  | KBool => "b" | KInt => "n" | KFloat => "f" | KString => "s" | KOther => "v"
  end.

Fixpoint var_name_for_type (t : ty) : string :=
  let nested := fun (t : ty) =>
    match t with
    | TBasic name _ _ => decapitalise name
    | _ => var_name_for_type t
    end in
  match t with
  | TNamed _ name _ =>
    if String.eqb name "error" then "err"
    else let n := decapitalise name in
         if String.eqb n name then n ++ "MoqParam" else n
  | TBasic _ k _ => basic_var_name k
  | TArray _ e => nested e ++ "s"
  | TSlice e => nested e ++ "s"
  | TStruct _ => "val"
  | TPtr e => var_name_for_type e
  | TFunc _ _ _ => "fn"
  | TIface _ _ _ => "ifaceVal"
  | TMap k v => nested k ++ "To" ++ capitalise (nested v)
  | TChan _ e => nested e ++ "Ch"
  | TAlias _ _ _ => "v"
  | TParam _ => "v"
  | TUnion _ => "v"
  end.

(* varName(vr, suffix) *)
Definition var_name_with (reserved : list string) (rsuffix : string)
           (name : string) (t : ty) (suffix : string) : string :=
  if negb (String.eqb name "") && negb (String.eqb name "_") then
    (* a user name; the generated body declares mock and callInfo itself *)
    let n := name ++ suffix in
    if String.eqb n "mock" || String.eqb n "callInfo" then n ++ "MoqParam" else n
  else
    let n := var_name_for_type t ++ suffix in
    if str_mem n reserved then n ++ rsuffix else n.
Definition var_name : string -> ty -> string -> string :=
  var_name_with reserved_names reserved_suffix.
