(* Pin_goimports.v -- the model was written from exactly this source text (tie, see DESIGN 2.4). *)
From Moq Require Import Strs SkeletonPins.
From Moq.gen Require Import Skeletons.
Theorem pin_goimports : src_goimports = pinned_goimports. Proof. reflexivity. Qed.
