(* MockConc_Proofs.v -- invariants of the interleaving semantics for every mock whose
   bodies pass the lock-discipline checker: lockset (no data race on the call lists),
   no lock held in user code, no deadlock, and the call lists as linearised logs. *)
From Moq Require Import Strs MockSem MockSpec MockSeq_Proofs MockConc.
From Coq Require Import Lia.
Local Open Scope list_scope.

Definition top_mode (st : list frame) : mode :=
  match st with FBody _ _ _ _ _ md :: _ => md | _ => MNone end.

(* frames strictly below the top: suspended at a call, holding nothing *)
Fixpoint below_ok (st : list frame) : Prop :=
  match st with
  | [] => True
  | FBody _ _ _ rest _ md :: r => md = MNone /\ disciplined_from MNone rest = true /\ below_ok r
  | FUser _ _ :: r => below_ok r
  end.
Definition stack_ok (st : list frame) : Prop :=
  match st with
  | [] => True
  | FBody _ _ _ rest _ md :: r => disciplined_from md rest = true /\ below_ok r
  | FUser _ _ :: r => below_ok r
  end.

Lemma below_ok_stack_ok st : below_ok st -> stack_ok st.
Proof. destruct st as [|[] r]; simpl; try tauto. intros [-> [D B]]. auto. Qed.
Lemma below_ok_mode st : below_ok st -> top_mode st = MNone.
Proof. destruct st as [|[] r]; simpl; tauto. Qed.

Section Conc.
Variable grow : nat -> nat.
Hypothesis grow_grows : forall n, n < grow n.
Variable mk : mmock.
Hypothesis DISC : disciplined mk = true.

Lemma enter_disciplined o fr :
  enter mk o = Some fr ->
  exists mm args f body lc, fr = FBody mm args f body lc MNone /\ disciplined_from MNone body = true.
Proof.
  pose proof DISC as D. unfold disciplined in D.
  apply andb_prop in D. destruct D as [D _]. apply andb_prop in D. destruct D as [DM DA].
  rewrite forallb_forall in DM.
  assert (FM : forall m mm, find_method mk m = Some mm -> disciplined_method mm = true).
  { intros m mm F. unfold find_method in F. apply find_some in F. apply DM. tauto. }
  destruct o as [m args f|m|m|]; simpl; intros E.
  - destruct (find_method mk m) as [mm|] eqn:F; [|discriminate].
    destruct (mm_body mm) as [b|] eqn:B; [|discriminate]. inversion E; subst.
    specialize (FM m mm F). unfold disciplined_method in FM. rewrite B in FM.
    apply andb_prop in FM. destruct FM as [FM _]. apply andb_prop in FM. destruct FM as [FM _].
    repeat eexists. exact FM.
  - destruct (find_method mk m) as [mm|] eqn:F; [|discriminate].
    destruct (mm_calls mm) as [b|] eqn:B; [|discriminate]. inversion E; subst.
    specialize (FM m mm F). unfold disciplined_method in FM. rewrite B in FM.
    apply andb_prop in FM. destruct FM as [FM _]. apply andb_prop in FM. destruct FM as [_ FM].
    repeat eexists. exact FM.
  - destruct (find_method mk m) as [mm|] eqn:F; [|discriminate].
    destruct (mm_reset mm) as [b|] eqn:B; [|discriminate]. inversion E; subst.
    specialize (FM m mm F). unfold disciplined_method in FM. rewrite B in FM.
    apply andb_prop in FM. destruct FM as [_ FM].
    repeat eexists. exact FM.
  - destruct (mo_reset_all mk) as [b|] eqn:B; [|discriminate]. inversion E; subst.
    repeat eexists. exact DA.
Qed.

(* ---------- the invariant ---------- *)

Record CInv (s : cstate) : Prop := mkCInv {
  ci_stack : forall t, stack_ok (cs_thr s t);
  ci_w : forall x t, rw_w (cs_lock s x) = Some t <-> top_mode (cs_thr s t) = MW x;
  ci_r : forall x t, In t (rw_r (cs_lock s x)) <-> top_mode (cs_thr s t) = MR x;
  ci_excl : forall x t, rw_w (cs_lock s x) = Some t -> rw_r (cs_lock s x) = [];
  ci_pend : forall x t, In t (rw_p (cs_lock s x)) ->
      exists mm args f rest lc below,
        cs_thr s t = FBody mm args f (ILock x :: rest) lc MNone :: below;
  ci_pnodup : forall x, NoDup (rw_p (cs_lock s x));
  ci_rnodup : forall x, NoDup (rw_r (cs_lock s x)) }.

Lemma tupd_same {A} (f : nat -> A) k v : tupd f k v k = v.
Proof. unfold tupd. rewrite Nat.eqb_refl. reflexivity. Qed.
Lemma tupd_other {A} (f : nat -> A) k k' v : k' <> k -> tupd f k v k' = f k'.
Proof. intros H. unfold tupd. destruct (Nat.eqb_spec k' k); [contradiction|reflexivity]. Qed.
Lemma fupd_same {A} (f : string -> A) k v : fupd f k v k = v.
Proof. unfold fupd. rewrite String.eqb_refl. reflexivity. Qed.
Lemma fupd_other {A} (f : string -> A) k k' v : k' <> k -> fupd f k v k' = f k'.
Proof. intros H. unfold fupd. destruct (String.eqb_spec k' k); [contradiction|reflexivity]. Qed.

Lemma disc_none_head i rest md :
  disciplined_from md (i :: rest) = true ->
  match i with
  | ILock _ | IRLock _ | INilPanic _ _ | INilRetZero _ _ | ICall _ _ _ | IRetLoaded => md = MNone
  | IUnlock x | IAppend x | ISetNil x => md = MW x
  | IRUnlock x => md = MR x
  | ILoad x => md = MW x \/ md = MR x
  | IUnknown _ => False
  | _ => True
  end.
Proof.
  destruct i, md; simpl; intros H; try discriminate; auto;
    try (apply andb_prop in H; destruct H as [H _]; apply String.eqb_eq in H; subst; auto).
Qed.

Lemma disc_tail i rest md :
  disciplined_from md (i :: rest) = true ->
  match i with
  | ILock x => disciplined_from (MW x) rest = true
  | IRLock x => disciplined_from (MR x) rest = true
  | IUnlock _ | IRUnlock _ => disciplined_from MNone rest = true
  | IRetLoaded | IUnknown _ => True
  | _ => disciplined_from md rest = true
  end.
Proof.
  destruct i, md; simpl; intros H; try discriminate; auto;
    try (apply andb_prop in H; destruct H as [_ H]; exact H).
Qed.


Lemma cinv_thr s t st' h hd :
  CInv s -> stack_ok st' -> top_mode st' = top_mode (cs_thr s t) ->
  (forall x, ~ In t (rw_p (cs_lock s x))) ->
  CInv (mkCs h hd (cs_lock s) (tupd (cs_thr s) t st')).
Proof.
  intros [S W R E P ND RND] SK TM NP. split; cbn [cs_thr cs_lock].
  - intros t'. destruct (Nat.eq_dec t' t) as [->|NE]; [rewrite tupd_same; exact SK|].
    rewrite tupd_other by exact NE. apply S.
  - intros x t'. destruct (Nat.eq_dec t' t) as [->|NE].
    + rewrite tupd_same, TM. apply W.
    + rewrite tupd_other by exact NE. apply W.
  - intros x t'. destruct (Nat.eq_dec t' t) as [->|NE].
    + rewrite tupd_same, TM. apply R.
    + rewrite tupd_other by exact NE. apply R.
  - exact E.
  - intros x t' IN. destruct (Nat.eq_dec t' t) as [->|NE]; [exfalso; apply (NP x IN)|].
    rewrite tupd_other by exact NE. apply P. exact IN.
  - exact ND.
  - exact RND.
Qed.

Lemma memb_In t l : memb t l = true <-> In t l.
Proof.
  unfold memb. rewrite existsb_exists. split.
  - intros [y [I E]]. apply Nat.eqb_eq in E. subst. exact I.
  - intros I. exists t. split; [exact I|apply Nat.eqb_refl].
Qed.
Lemma In_remove_one t t' l : In t' (remove_one t l) -> In t' l.
Proof.
  induction l as [|y l IH]; simpl; [tauto|]. destruct (Nat.eqb_spec y t); [auto|].
  intros [->|I]; auto.
Qed.
Lemma remove_one_nodup t l : NoDup l -> NoDup (remove_one t l) /\ ~ In t (remove_one t l).
Proof.
  induction 1 as [|y l NI ND IH]; simpl; [split; [constructor|tauto]|].
  destruct (Nat.eqb_spec y t) as [->|NE]; [split; assumption|].
  destruct IH as [N1 N2]. split.
  - constructor; [|exact N1]. intros I. apply NI. eapply In_remove_one. exact I.
  - intros [E|I]; [congruence|tauto].
Qed.
Lemma In_remove_one_other t t' l : t' <> t -> In t' l -> In t' (remove_one t l).
Proof.
  intros NE. induction l as [|y l IH]; simpl; [tauto|].
  destruct (Nat.eqb_spec y t) as [->|NY]; intros [E|I]; subst; auto; try congruence.
  - left. reflexivity.
  - right. auto.
Qed.

Lemma below_ok_tail f st : below_ok (f :: st) -> below_ok st.
Proof. destruct f; simpl; tauto. Qed.

Ltac lk_cases x0 x t' t :=
  let NEx := fresh "NEx" in let NEt := fresh "NEt" in
  destruct (String.eqb_spec x0 x) as [->|NEx];
  [rewrite ?fupd_same|rewrite ?fupd_other by exact NEx];
  (destruct (Nat.eq_dec t' t) as [->|NEt];
   [rewrite ?tupd_same|rewrite ?tupd_other by exact NEt]);
  cbn [rw_w rw_r rw_p top_mode].

Ltac stack_facts INV H :=
  let SK := fresh "SK" in
  pose proof (ci_stack _ INV) as SK;
  match type of H with cs_thr ?s ?t = _ => specialize (SK t); rewrite H in SK; cbn [stack_ok below_ok] in SK end.

Ltac not_pending INV H :=
  let x := fresh "x" in let IN := fresh "IN" in
  intros x IN; destruct (ci_pend _ INV _ _ IN) as (? & ? & ? & ? & ? & ? & EQ);
  rewrite H in EQ; discriminate EQ.

Theorem step_inv s t s' e : CInv s -> step grow mk s t s' e -> CInv s'.
Proof.
  intros INV ST. inversion ST; subst; clear ST;
    match goal with HS : cs_thr s t = _ |- _ => rename HS into HT end.
  - (* start *)
    stack_facts INV HT. match goal with HE : enter mk _ = Some _ |- _ => destruct (enter_disciplined _ _ HE) as (mm & args & f & body & lc & -> & D) end.
    (* *)
    apply cinv_thr; [exact INV| cbn [stack_ok below_ok]; auto | rewrite HT; reflexivity | not_pending INV HT].
  - (* user ret *)
    stack_facts INV HT.
    apply cinv_thr; [exact INV| apply below_ok_stack_ok; exact SK
                    | rewrite HT; apply below_ok_mode; exact SK | not_pending INV HT].
  - (* user panic *)
    stack_facts INV HT. apply below_ok_tail in SK.
    apply cinv_thr; [exact INV| apply below_ok_stack_ok; exact SK
                    | rewrite HT; apply below_ok_mode; exact SK | not_pending INV HT].
  - (* body end *)
    stack_facts INV HT. destruct SK as [D B]. destruct md; try discriminate D.
    apply cinv_thr; [exact INV| apply below_ok_stack_ok; exact B
                    | rewrite HT; apply below_ok_mode; exact B | not_pending INV HT].
  - (* nil panic, nil *)
    stack_facts INV HT. destruct SK as [D B]. pose proof (disc_none_head _ _ _ D) as M. cbn beta iota in M. subst md.
    apply cinv_thr; [exact INV| apply below_ok_stack_ok; exact B
                    | rewrite HT; apply below_ok_mode; exact B | not_pending INV HT].
  - (* nil panic, set *)
    stack_facts INV HT. destruct SK as [D B]. pose proof (disc_tail _ _ _ D) as T. cbn beta iota in T.
    apply cinv_thr; [exact INV| cbn [stack_ok below_ok]; auto | rewrite HT; reflexivity | not_pending INV HT].
  - (* build rec *)
    stack_facts INV HT. destruct SK as [D B]. pose proof (disc_tail _ _ _ D) as T. cbn beta iota in T.
    apply cinv_thr; [exact INV| cbn [stack_ok below_ok]; auto | rewrite HT; reflexivity | not_pending INV HT].
  - (* lock announce *)
    destruct INV as [S W R E P ND RND]. split; cbn [cs_thr cs_lock set_lk]; auto.
    + intros x0 t'. destruct (String.eqb_spec x0 x) as [->|NE];
        [rewrite fupd_same|rewrite fupd_other by exact NE]; apply W.
    + intros x0 t'. destruct (String.eqb_spec x0 x) as [->|NE];
        [rewrite fupd_same|rewrite fupd_other by exact NE]; apply R.
    + intros x0 t'. destruct (String.eqb_spec x0 x) as [->|NE];
        [rewrite fupd_same|rewrite fupd_other by exact NE]; apply E.
    + intros x0 t'. destruct (String.eqb_spec x0 x) as [->|NE].
      * rewrite fupd_same. cbn [rw_p]. intros [<-|IN]; [repeat eexists; exact HT|apply P; exact IN].
      * rewrite fupd_other by exact NE. apply P.
    + intros x0. destruct (String.eqb_spec x0 x) as [->|NE].
      * rewrite fupd_same. cbn [rw_p]. constructor; [|apply ND].
        intros I. apply memb_In in I. match goal with HM : memb t _ = false |- _ => congruence end.
      * rewrite fupd_other by exact NE. apply ND.
    + intros x0. destruct (String.eqb_spec x0 x) as [->|NE];
        [rewrite fupd_same|rewrite fupd_other by exact NE]; apply RND.
  - (* lock acquire *)
    stack_facts INV HT. destruct SK as [D B]. pose proof (disc_tail _ _ _ D) as T. cbn beta iota in T.
    destruct INV as [S W R E P ND RND]. split; cbn [cs_thr cs_lock set_lk set_thr].
    + intros t'. destruct (Nat.eq_dec t' t) as [->|NE]; [rewrite tupd_same; cbn [stack_ok]; auto|].
      rewrite tupd_other by exact NE. apply S.
    + intros x0 t'. destruct (String.eqb_spec x0 x) as [->|NEx].
      * rewrite fupd_same. cbn [rw_w]. destruct (Nat.eq_dec t' t) as [->|NE].
        -- rewrite tupd_same. cbn [top_mode]. tauto.
        -- rewrite tupd_other by exact NE. split; [intros EQ; inversion EQ; congruence|].
           intros M. apply W in M. congruence.
      * rewrite fupd_other by exact NEx. destruct (Nat.eq_dec t' t) as [->|NE].
        -- rewrite tupd_same. cbn [top_mode]. split; [|intros EQ; inversion EQ; congruence].
           intros WW. apply W in WW. rewrite HT in WW. discriminate WW.
        -- rewrite tupd_other by exact NE. apply W.
    + intros x0 t'. destruct (String.eqb_spec x0 x) as [->|NEx].
      * rewrite fupd_same. cbn [rw_r]. destruct (Nat.eq_dec t' t) as [->|NE].
        -- rewrite tupd_same. cbn [top_mode]. split; [intros []|discriminate].
        -- rewrite tupd_other by exact NE. split; [intros []|]. intros M. apply R in M. match goal with HR : rw_r (cs_lock s x) = [] |- _ => rewrite HR in M end. exact M.
      * rewrite fupd_other by exact NEx. destruct (Nat.eq_dec t' t) as [->|NE].
        -- rewrite tupd_same. cbn [top_mode]. split; [|discriminate].
           intros RR. apply R in RR. rewrite HT in RR. discriminate RR.
        -- rewrite tupd_other by exact NE. apply R.
    + intros x0 t'. destruct (String.eqb_spec x0 x) as [->|NEx].
      * rewrite fupd_same. reflexivity.
      * rewrite fupd_other by exact NEx. apply E.
    + intros x0 t' IN.
      assert (NEt : t' <> t).
      { intros ->. destruct (String.eqb_spec x0 x) as [->|NEx].
        - rewrite fupd_same in IN. cbn [rw_p] in IN.
          apply (proj2 (remove_one_nodup t _ (ND x))). exact IN.
        - rewrite fupd_other in IN by exact NEx.
          destruct (P _ _ IN) as (? & ? & ? & ? & ? & ? & EQ). rewrite HT in EQ. inversion EQ. congruence. }
      rewrite tupd_other by exact NEt. apply P.
      destruct (String.eqb_spec x0 x) as [->|NEx].
      * rewrite fupd_same in IN. cbn [rw_p] in IN. eapply In_remove_one. exact IN.
      * rewrite fupd_other in IN by exact NEx. exact IN.
    + intros x0. destruct (String.eqb_spec x0 x) as [->|NEx].
      * rewrite fupd_same. cbn [rw_p]. apply remove_one_nodup. apply ND.
      * rewrite fupd_other by exact NEx. apply ND.
    + intros x0. destruct (String.eqb_spec x0 x) as [->|NEx];
        [rewrite fupd_same; constructor|rewrite fupd_other by exact NEx; apply RND].
  - (* unlock *)
    stack_facts INV HT. destruct SK as [D B]. pose proof (disc_tail _ _ _ D) as T. cbn beta iota in T.
    pose proof (proj2 (ci_w _ INV x t)) as WT. rewrite HT in WT. specialize (WT eq_refl).
    destruct INV as [S W R E P ND RND]. split; cbn [cs_thr cs_lock set_lk set_thr].
    + intros t'. destruct (Nat.eq_dec t' t) as [->|NE]; [rewrite tupd_same; cbn [stack_ok]; auto|].
      rewrite tupd_other by exact NE. apply S.
    + intros x0 t'. lk_cases x0 x t' t.
      * split; discriminate.
      * split; [discriminate|]. intros M. apply W in M. congruence.
      * split; [|discriminate]. intros WW. apply W in WW. rewrite HT in WW. inversion WW. congruence.
      * apply W.
    + intros x0 t'. lk_cases x0 x t' t.
      * split; [|discriminate]. intros RR. apply R in RR. rewrite HT in RR. discriminate RR.
      * apply R.
      * split; [|discriminate]. intros RR. apply R in RR. rewrite HT in RR. discriminate RR.
      * apply R.
    + intros x0 t'. destruct (String.eqb_spec x0 x) as [->|NEx];
        [rewrite fupd_same; discriminate|rewrite fupd_other by exact NEx; apply E].
    + intros x0 t' IN.
      assert (IN0 : In t' (rw_p (cs_lock s x0))).
      { destruct (String.eqb_spec x0 x) as [->|NEx];
          [rewrite fupd_same in IN|rewrite fupd_other in IN by exact NEx]; exact IN. }
      assert (NEt : t' <> t).
      { intros ->. destruct (P _ _ IN0) as (? & ? & ? & ? & ? & ? & EQ). rewrite HT in EQ. discriminate EQ. }
      rewrite tupd_other by exact NEt. apply P. exact IN0.
    + intros x0. destruct (String.eqb_spec x0 x) as [->|NEx];
        [rewrite fupd_same|rewrite fupd_other by exact NEx]; apply ND.
    + intros x0. destruct (String.eqb_spec x0 x) as [->|NEx];
        [rewrite fupd_same|rewrite fupd_other by exact NEx]; apply RND.
  - (* rlock *)
    stack_facts INV HT. destruct SK as [D B]. pose proof (disc_tail _ _ _ D) as T. cbn beta iota in T.
    destruct INV as [S W R E P ND RND]. split; cbn [cs_thr cs_lock set_lk set_thr].
    + intros t'. destruct (Nat.eq_dec t' t) as [->|NE]; [rewrite tupd_same; cbn [stack_ok]; auto|].
      rewrite tupd_other by exact NE. apply S.
    + intros x0 t'. lk_cases x0 x t' t.
      * split; discriminate.
      * split; [discriminate|]. intros M. apply W in M.
        match goal with HW : rw_w (cs_lock s x) = None |- _ => congruence end.
      * split; [|discriminate]. intros WW. apply W in WW. rewrite HT in WW. discriminate WW.
      * apply W.
    + intros x0 t'. lk_cases x0 x t' t.
      * split; [reflexivity|]. intros _. left. reflexivity.
      * split.
        -- intros [EQ|IN]; [congruence|]. apply R. exact IN.
        -- intros M. right. apply R. exact M.
      * split; [|intros EQ; inversion EQ; congruence].
        intros RR. apply R in RR. rewrite HT in RR. discriminate RR.
      * apply R.
    + intros x0 t'. destruct (String.eqb_spec x0 x) as [->|NEx];
        [rewrite fupd_same; discriminate|rewrite fupd_other by exact NEx; apply E].
    + intros x0 t' IN.
      destruct (String.eqb_spec x0 x) as [->|NEx]; [rewrite fupd_same in IN; destruct IN|].
      rewrite fupd_other in IN by exact NEx.
      assert (NEt : t' <> t).
      { intros ->. destruct (P _ _ IN) as (? & ? & ? & ? & ? & ? & EQ). rewrite HT in EQ. discriminate EQ. }
      rewrite tupd_other by exact NEt. apply P. exact IN.
    + intros x0. destruct (String.eqb_spec x0 x) as [->|NEx];
        [rewrite fupd_same; constructor|rewrite fupd_other by exact NEx; apply ND].
    + intros x0. destruct (String.eqb_spec x0 x) as [->|NEx];
        [rewrite fupd_same|rewrite fupd_other by exact NEx; apply RND].
      cbn [rw_r]. constructor; [|apply RND].
      intros IN. apply R in IN. rewrite HT in IN. discriminate IN.
  - (* runlock *)
    stack_facts INV HT. destruct SK as [D B]. pose proof (disc_tail _ _ _ D) as T. cbn beta iota in T.
    destruct INV as [S W R E P ND RND]. split; cbn [cs_thr cs_lock set_lk set_thr].
    + intros t'. destruct (Nat.eq_dec t' t) as [->|NE]; [rewrite tupd_same; cbn [stack_ok]; auto|].
      rewrite tupd_other by exact NE. apply S.
    + intros x0 t'. lk_cases x0 x t' t.
      * split; [|discriminate]. intros WW. apply W in WW. rewrite HT in WW. discriminate WW.
      * apply W.
      * split; [|discriminate]. intros WW. apply W in WW. rewrite HT in WW. discriminate WW.
      * apply W.
    + intros x0 t'. lk_cases x0 x t' t.
      * split; [|discriminate]. intros IN.
        exfalso. apply (proj2 (remove_one_nodup t _ (RND x))). exact IN.
      * split.
        -- intros IN. apply R. eapply In_remove_one. exact IN.
        -- intros M. apply In_remove_one_other; [exact NEt|]. apply R. exact M.
      * split; [|discriminate]. intros RR. apply R in RR. rewrite HT in RR. inversion RR. congruence.
      * apply R.
    + intros x0 t'. destruct (String.eqb_spec x0 x) as [->|NEx];
        [rewrite fupd_same|rewrite fupd_other by exact NEx; apply E].
      cbn [rw_w rw_r]. intros WW. exfalso.
      assert (IN : In t (rw_r (cs_lock s x))) by (apply R; rewrite HT; reflexivity).
      rewrite (E _ _ WW) in IN. destruct IN.
    + intros x0 t' IN.
      assert (IN0 : In t' (rw_p (cs_lock s x0))).
      { destruct (String.eqb_spec x0 x) as [->|NEx];
          [rewrite fupd_same in IN|rewrite fupd_other in IN by exact NEx]; exact IN. }
      assert (NEt : t' <> t).
      { intros ->. destruct (P _ _ IN0) as (? & ? & ? & ? & ? & ? & EQ). rewrite HT in EQ. discriminate EQ. }
      rewrite tupd_other by exact NEt. apply P. exact IN0.
    + intros x0. destruct (String.eqb_spec x0 x) as [->|NEx];
        [rewrite fupd_same|rewrite fupd_other by exact NEx]; apply ND.
    + intros x0. destruct (String.eqb_spec x0 x) as [->|NEx];
        [rewrite fupd_same|rewrite fupd_other by exact NEx; apply RND].
      cbn [rw_r]. apply remove_one_nodup. apply RND.
  - (* append *)
    stack_facts INV HT. destruct SK as [D B]. pose proof (disc_tail _ _ _ D) as T. cbn beta iota in T.
    apply cinv_thr; [exact INV| cbn [stack_ok below_ok]; auto | rewrite HT; reflexivity | not_pending INV HT].
  - (* set nil *)
    stack_facts INV HT. destruct SK as [D B]. pose proof (disc_tail _ _ _ D) as T. cbn beta iota in T.
    apply cinv_thr; [exact INV| cbn [stack_ok below_ok]; auto | rewrite HT; reflexivity | not_pending INV HT].
  - (* decl calls *)
    stack_facts INV HT. destruct SK as [D B]. pose proof (disc_tail _ _ _ D) as T. cbn beta iota in T.
    apply cinv_thr; [exact INV| cbn [stack_ok below_ok]; auto | rewrite HT; reflexivity | not_pending INV HT].
  - (* load *)
    stack_facts INV HT. destruct SK as [D B]. pose proof (disc_tail _ _ _ D) as T. cbn beta iota in T.
    apply cinv_thr; [exact INV| cbn [stack_ok below_ok]; auto | rewrite HT; reflexivity | not_pending INV HT].
  - (* return calls *)
    stack_facts INV HT. destruct SK as [D B]. pose proof (disc_none_head _ _ _ D) as M. cbn beta iota in M. subst md.
    apply cinv_thr; [exact INV| apply below_ok_stack_ok; exact B
                    | rewrite HT; apply below_ok_mode; exact B | not_pending INV HT].
  - (* nil ret zero, nil *)
    stack_facts INV HT. destruct SK as [D B]. pose proof (disc_none_head _ _ _ D) as M. cbn beta iota in M. subst md.
    apply cinv_thr; [exact INV| apply below_ok_stack_ok; exact B
                    | rewrite HT; apply below_ok_mode; exact B | not_pending INV HT].
  - (* nil ret zero, set *)
    stack_facts INV HT. destruct SK as [D B]. pose proof (disc_tail _ _ _ D) as T. cbn beta iota in T.
    apply cinv_thr; [exact INV| cbn [stack_ok below_ok]; auto | rewrite HT; reflexivity | not_pending INV HT].
  - (* call: the callback goes on top of this thread's stack *)
    stack_facts INV HT. destruct SK as [D B]. pose proof (disc_none_head _ _ _ D) as M. cbn beta iota in M. subst md.
    pose proof (disc_tail _ _ _ D) as T. cbn beta iota in T.
    apply cinv_thr; [exact INV| | rewrite HT; reflexivity | not_pending INV HT].
    cbn [stack_ok below_ok]. split; [reflexivity|]. split; [|exact B].
    destruct ret; [reflexivity|exact T].
  - (* call of a nil function *)
    stack_facts INV HT. destruct SK as [D B]. pose proof (disc_none_head _ _ _ D) as M. cbn beta iota in M. subst md.
    apply cinv_thr; [exact INV| apply below_ok_stack_ok; exact B
                    | rewrite HT; apply below_ok_mode; exact B | not_pending INV HT].
Qed.


Lemma cinit_inv progs : CInv (cinit progs).
Proof.
  split; cbn [cinit cs_thr cs_lock rw_free rw_w rw_r rw_p top_mode stack_ok below_ok]; auto.
  - intros x t. split; discriminate.
  - intros x t. split; [intros []|discriminate].
  - intros x t []. 
  - intros x. constructor.
  - intros x. constructor.
Qed.

Theorem reach_inv s0 s tr : CInv s0 -> reach grow mk s0 s tr -> CInv s.
Proof. intros I R. induction R; [exact I|]. eapply step_inv; eassumption. Qed.

(* ---------- C05: lockset, hence no data race on the call lists ---------- *)

Lemma access_mode st a :
  stack_ok st -> next_access st = Some a ->
  match a with
  | AWriteHdr x => top_mode st = MW x
  | AReadHdr x => top_mode st = MW x \/ top_mode st = MR x
  end.
Proof.
  destruct st as [|[mm args f [|i rest] lc md|] below]; cbn [next_access]; try discriminate.
  intros [D _] E. pose proof (disc_none_head _ _ _ D) as M.
  destruct i; try discriminate E; injection E as <-; cbn beta iota in M; cbn [top_mode]; exact M.
Qed.

(* In every reachable state, two different threads are never both about to perform
   conflicting accesses to the same method's call list: the one that writes holds the
   method's lock exclusively.  (Accesses by the same thread are ordered by program order;
   successive holders are ordered by Unlock/Lock.) *)
Theorem C05_lockset progs s tr t1 t2 a1 a2 :
  reach grow mk (cinit progs) s tr -> t1 <> t2 ->
  next_access (cs_thr s t1) = Some a1 -> next_access (cs_thr s t2) = Some a2 ->
  conflicting a1 a2 = false.
Proof.
  intros R NE A1 A2. pose proof (reach_inv _ _ _ (cinit_inv progs) R) as INV.
  pose proof (access_mode _ _ (ci_stack _ INV t1) A1) as M1.
  pose proof (access_mode _ _ (ci_stack _ INV t2) A2) as M2.
  destruct a1 as [x|x], a2 as [y|y]; cbn [conflicting]; try reflexivity;
    destruct (String.eqb_spec x y) as [->|]; try reflexivity; exfalso.
  - apply (ci_w _ INV) in M1. apply (ci_w _ INV) in M2. congruence.
  - apply (ci_w _ INV) in M1. destruct M2 as [M2|M2].
    + apply (ci_w _ INV) in M2. congruence.
    + apply (ci_r _ INV) in M2. rewrite (ci_excl _ INV _ _ M1) in M2. destruct M2.
  - apply (ci_w _ INV) in M2. destruct M1 as [M1|M1].
    + apply (ci_w _ INV) in M1. congruence.
    + apply (ci_r _ INV) in M1. rewrite (ci_excl _ INV _ _ M2) in M1. destruct M1.
Qed.

(* the accessing thread holds the lock the access needs *)
Theorem C05_lock_held progs s tr t a :
  reach grow mk (cinit progs) s tr -> next_access (cs_thr s t) = Some a ->
  match a with
  | AWriteHdr x => rw_w (cs_lock s x) = Some t
  | AReadHdr x => rw_w (cs_lock s x) = Some t \/ In t (rw_r (cs_lock s x))
  end.
Proof.
  intros R A. pose proof (reach_inv _ _ _ (cinit_inv progs) R) as INV.
  pose proof (access_mode _ _ (ci_stack _ INV t) A) as M.
  destruct a as [x|x].
  - apply (ci_w _ INV). exact M.
  - destruct M as [M|M]; [left; apply (ci_w _ INV)|right; apply (ci_r _ INV)]; exact M.
Qed.

(* ---------- C06: no internal lock is held while user code runs ---------- *)

Definition in_user_code (st : list frame) : Prop :=
  match st with FUser _ _ :: _ => True | _ => False end.

Theorem C06_no_lock_in_callback progs s tr t x :
  reach grow mk (cinit progs) s tr -> in_user_code (cs_thr s t) ->
  rw_w (cs_lock s x) <> Some t /\ ~ In t (rw_r (cs_lock s x)).
Proof.
  intros R U. pose proof (reach_inv _ _ _ (cinit_inv progs) R) as INV.
  destruct (cs_thr s t) as [|[] below] eqn:E; try destruct U.
  split.
  - intros WW. apply (ci_w _ INV) in WW. rewrite E in WW. discriminate WW.
  - intros RR. apply (ci_r _ INV) in RR. rewrite E in RR. discriminate RR.
Qed.

(* a thread holds at most one lock of the mock at a time, and only in a generated body *)
Theorem C06_one_lock_at_a_time progs s tr t x y :
  reach grow mk (cinit progs) s tr ->
  (rw_w (cs_lock s x) = Some t \/ In t (rw_r (cs_lock s x))) ->
  (rw_w (cs_lock s y) = Some t \/ In t (rw_r (cs_lock s y))) -> x = y.
Proof.
  intros R HX HY. pose proof (reach_inv _ _ _ (cinit_inv progs) R) as INV.
  destruct HX as [HX|HX]; [apply (ci_w _ INV) in HX|apply (ci_r _ INV) in HX];
    (destruct HY as [HY|HY]; [apply (ci_w _ INV) in HY|apply (ci_r _ INV) in HY]); congruence.
Qed.


(* ---------- C06: no schedule can deadlock inside generated code ---------- *)

(* user code only performs operations the mock offers (what the Go compiler enforces) *)
Fixpoint op_okb (o : op) : bool :=
  match enter mk o with Some _ => true | None => false end
  && match o with
     | OCall _ _ (Some (Impl cb _)) => forallb op_okb cb
     | _ => true
     end.
Definition frame_ok (fr : frame) : Prop :=
  match fr with
  | FUser ops _ => forallb op_okb ops = true
  | FBody _ _ (Some (Impl cb _)) _ _ _ => forallb op_okb cb = true
  | FBody _ _ None _ _ _ => True
  end.
Definition WInv (s : cstate) : Prop := forall t, Forall frame_ok (cs_thr s t).

Lemma winv_thr s t st' h hd lk :
  WInv s -> Forall frame_ok st' -> WInv (mkCs h hd lk (tupd (cs_thr s) t st')).
Proof.
  intros W F t'. cbn [cs_thr]. destruct (Nat.eq_dec t' t) as [->|NE];
    [rewrite tupd_same; exact F|rewrite tupd_other by exact NE; apply W].
Qed.

Lemma enter_frame_ok o fr : op_okb o = true -> enter mk o = Some fr -> frame_ok fr.
Proof.
  destruct o as [m args f|m|m|]; cbn [op_okb enter]; intros OK E.
  - destruct (find_method mk m) as [mm|]; [|discriminate]. destruct (mm_body mm); [|discriminate].
    inversion E; subst. cbn [frame_ok]. destruct f as [[cb res]|]; [|exact I].
    apply andb_prop in OK. tauto.
  - destruct (find_method mk m) as [mm|]; [|discriminate]. destruct (mm_calls mm); [|discriminate].
    inversion E; subst. exact I.
  - destruct (find_method mk m) as [mm|]; [|discriminate]. destruct (mm_reset mm); [|discriminate].
    inversion E; subst. exact I.
  - destruct (mo_reset_all mk); [|discriminate]. inversion E; subst. exact I.
Qed.

Theorem step_winv s t s' e : WInv s -> step grow mk s t s' e -> WInv s'.
Proof.
  intros W ST. pose proof (W t) as WT.
  inversion ST; subst; clear ST;
    match goal with HS : cs_thr s t = _ |- _ => rewrite HS in WT end;
    try (apply winv_thr; [exact W|]);
    repeat match goal with H : Forall frame_ok (_ :: _) |- _ => inversion H; subst; clear H end;
    try (repeat constructor; assumption); try assumption.
  match goal with H : frame_ok (FUser (_ :: _) _) |- _ =>
    cbn [frame_ok forallb] in H; apply andb_prop in H; destruct H as [OK1 OK2] end.
  constructor; [eapply enter_frame_ok; eassumption|]. constructor; assumption.
Qed.

Lemma winit progs : (forall t, forallb op_okb (progs t) = true) -> WInv (cinit progs).
Proof. intros H t. cbn [cinit cs_thr]. constructor; [apply H|constructor]. Qed.

Definition finished (st : list frame) : Prop :=
  match st with [] => True | [FUser [] _] => True | _ => False end.

(* a thread that holds a lock can always take its next step *)
Lemma holder_enabled s h x :
  CInv s -> (top_mode (cs_thr s h) = MW x \/ top_mode (cs_thr s h) = MR x) ->
  exists s' e, step grow mk s h s' e.
Proof.
  intros INV M. pose proof (ci_stack _ INV h) as SK.
  destruct (cs_thr s h) as [|[mm args f rest lc md|] below] eqn:E; cbn [top_mode] in M;
    try (destruct M; discriminate).
  cbn [stack_ok] in SK. destruct SK as [D _].
  destruct rest as [|i rest]; [destruct M; subst; discriminate D|].
  destruct M as [->| ->]; destruct i; cbn [disciplined_from] in D; try discriminate D;
    try (apply andb_prop in D; destruct D as [D _]; apply String.eqb_eq in D; subst).
  all: try (do 2 eexists; econstructor; eassumption).
  all: try (destruct (go_append grow (cs_heap s) (cs_hdr s x) (lc_rec lc)) as [h' sl'] eqn:GA;
            do 2 eexists; eapply StAppend; eassumption).
Qed.

(* Deadlock freedom, relative to any set B of threads parked inside user callbacks (they
   may never run again): as long as some thread outside B has work left, some thread
   outside B can take a step.  In particular no reachable state is a deadlock, and a
   callback that blocks for ever blocks nobody else. *)
Theorem C06_no_deadlock s (B : nat -> Prop) u :
  CInv s -> WInv s ->
  (forall t, B t -> in_user_code (cs_thr s t)) ->
  ~ B u -> ~ finished (cs_thr s u) ->
  exists t s' e, ~ B t /\ step grow mk s t s' e.
Proof.
  intros INV W BU NB NF.
  assert (HOLDER : forall h x, (top_mode (cs_thr s h) = MW x \/ top_mode (cs_thr s h) = MR x) ->
                               exists t s' e, ~ B t /\ step grow mk s t s' e).
  { intros h x M. destruct (holder_enabled s h x INV M) as (s' & e & ST).
    exists h, s', e. split; [|exact ST]. intros BH. apply BU in BH.
    destruct (cs_thr s h) as [|[] ?]; cbn [top_mode in_user_code] in *; try contradiction;
      destruct M; discriminate. }
  assert (WAITW : forall x, rw_w (cs_lock s x) <> None \/ rw_r (cs_lock s x) <> [] ->
                            exists t s' e, ~ B t /\ step grow mk s t s' e).
  { intros x [HW|HR].
    - destruct (rw_w (cs_lock s x)) as [h|] eqn:EW; [|contradiction].
      apply (HOLDER h x). left. apply (ci_w _ INV). exact EW.
    - destruct (rw_r (cs_lock s x)) as [|h r] eqn:ER; [contradiction|].
      apply (HOLDER h x). right. apply (ci_r _ INV). rewrite ER. left. reflexivity. }
  pose proof (ci_stack _ INV u) as SK. pose proof (W u) as WU.
  destruct (cs_thr s u) as [|[mm args f rest lc md|ops res] below] eqn:E.
  - exfalso. apply NF. exact I.
  - (* in a generated body *)
    cbn [stack_ok] in SK. destruct SK as [D _].
    destruct rest as [|i rest]; [exists u; do 2 eexists; split; [exact NB|eapply StBodyEnd; exact E]|].
    pose proof (disc_none_head _ _ _ D) as M.
    destruct i; cbn beta iota in M; subst;
      try (exists u; do 2 eexists; split; [exact NB|]; econstructor; eassumption);
      try contradiction.
    + destruct f; exists u; do 2 eexists; (split; [exact NB|]); econstructor; eassumption.
    + (* Lock *)
      destruct (memb u (rw_p (cs_lock s m))) eqn:PM.
      * destruct (rw_w (cs_lock s m)) as [h|] eqn:EW; [apply (WAITW m); left; congruence|].
        destruct (rw_r (cs_lock s m)) as [|h r] eqn:ER; [|apply (WAITW m); right; congruence].
        exists u; do 2 eexists; split; [exact NB|]. eapply StLockAcquire; eassumption.
      * exists u; do 2 eexists; split; [exact NB|]. eapply StLockAnnounce; eassumption.
    + (* RLock *)
      destruct (rw_w (cs_lock s m)) as [h|] eqn:EW; [apply (WAITW m); left; congruence|].
      destruct (rw_p (cs_lock s m)) as [|p ps] eqn:EP.
      * exists u; do 2 eexists; split; [exact NB|]. eapply StRLock; eassumption.
      * (* a writer is pending: it can acquire, or the lock has a holder who can move *)
        assert (INP : In p (rw_p (cs_lock s m))) by (rewrite EP; left; reflexivity).
        destruct (ci_pend _ INV _ _ INP) as (mm' & args' & f' & rest' & lc' & below' & EP').
        destruct (rw_r (cs_lock s m)) as [|h r] eqn:ER; [|apply (WAITW m); right; congruence].
        exists p; do 2 eexists; split.
        -- intros BP. apply BU in BP. rewrite EP' in BP. exact BP.
        -- eapply StLockAcquire; try eassumption. apply memb_In. exact INP.
    + destruct (go_append grow (cs_heap s) (cs_hdr s m) (lc_rec lc)) as [h' sl'] eqn:GA.
      exists u; do 2 eexists; split; [exact NB|]. eapply StAppend; eassumption.
    + destruct f; exists u; do 2 eexists; (split; [exact NB|]); econstructor; eassumption.
    + destruct f as [[cb res]|]; exists u; do 2 eexists; (split; [exact NB|]); econstructor; eassumption.
  - (* in user code *)
    destruct ops as [|o ops].
    + destruct below as [|b below]; [exfalso; apply NF; exact I|].
      destruct res; exists u; do 2 eexists; (split; [exact NB|]); econstructor; eassumption.
    + inversion WU as [|? ? FO _]; subst. cbn [frame_ok forallb] in FO.
      apply andb_prop in FO. destruct FO as [OK _].
      destruct (enter mk o) as [fr|] eqn:EN.
      * exists u; do 2 eexists; split; [exact NB|]. eapply StStart; eassumption.
      * destruct o; cbn [op_okb] in OK; rewrite EN in OK; discriminate OK.
Qed.


(* ---------- C05: the call lists are linearised logs ---------- *)

Record HInv (s : cstate) : Prop := mkHInv {
  hi_ok : forall m, slice_ok (cs_heap s) (cs_hdr s m);
  hi_sep : forall m1 m2, s_arr (cs_hdr s m1) <> 0 ->
                         s_arr (cs_hdr s m1) = s_arr (cs_hdr s m2) -> m1 = m2 }.

Definition cabs (s : cstate) : logs := fun m => denote (cs_heap s) (cs_hdr s m).

Lemma append_hinv s x r h' sl' lk thr :
  HInv s -> go_append grow (cs_heap s) (cs_hdr s x) r = (h', sl') ->
  let s' := mkCs h' (fupd (cs_hdr s) x sl') lk thr in
  HInv s' /\ heap_ext (cs_heap s) h' /\ cabs s' x = cabs s x ++ [r] /\
  (forall y, y <> x -> cabs s' y = cabs s y).
Proof.
  intros [IH IS] GA s'.
  destruct (go_append_spec grow grow_grows _ _ _ _ _ (IH x) GA) as [OK [NZ [DN [EXT [OTHER WHERE]]]]].
  assert (FRESH : forall y, y <> x -> s_arr (cs_hdr s y) <> 0 -> s_arr (cs_hdr s y) <> s_arr sl').
  { intros y NE NZy EQ. destruct WHERE as [W|W].
    - apply NE. apply (IS y x NZy). congruence.
    - destruct (IH y) as [[A _]|[[_ R] _]]; [contradiction|]. rewrite EQ, W in R. lia. }
  assert (OKY : forall y, y <> x -> slice_ok h' (cs_hdr s y)).
  { intros y NE. apply (slice_ok_ext (cs_heap s)); [apply IH|apply EXT|].
    intros NZy. apply OTHER; [apply FRESH; assumption|].
    destruct (IH y) as [[A _]|[[_ R] _]]; [contradiction|exact R]. }
  split; [split|split; [exact EXT|split]]; unfold s', cabs; cbn [cs_heap cs_hdr].
  - intros y. destruct (String.eqb_spec y x) as [->|NE];
      [rewrite fupd_same; exact OK|rewrite fupd_other by exact NE; apply OKY; exact NE].
  - intros m1 m2.
    destruct (String.eqb_spec m1 x) as [->|NE1]; destruct (String.eqb_spec m2 x) as [->|NE2];
      rewrite ?fupd_same, ?fupd_other by assumption; auto; intros NZ1 EQ; exfalso.
    + apply (FRESH m2 NE2); [rewrite <- EQ; exact NZ|symmetry; exact EQ].
    + apply (FRESH m1 NE1 NZ1 EQ).
  - rewrite fupd_same. exact DN.
  - intros y NE. rewrite fupd_other by exact NE.
    apply denote_stable; [exact EXT|]. rewrite (slice_ok_len _ _ (IH y)). lia.
Qed.

Lemma setnil_hinv s x lk thr :
  HInv s -> HInv (mkCs (cs_heap s) (fupd (cs_hdr s) x nil_slice) lk thr).
Proof.
  intros [IH IS]. split; cbn [cs_heap cs_hdr].
  - intros y. destruct (String.eqb_spec y x) as [->|NE];
      [rewrite fupd_same; left; split; reflexivity|rewrite fupd_other by exact NE; apply IH].
  - intros m1 m2.
    destruct (String.eqb_spec m1 x) as [->|NE1]; destruct (String.eqb_spec m2 x) as [->|NE2];
      rewrite ?fupd_same, ?fupd_other by assumption; auto; cbn [nil_slice s_arr]; intros NZ1 EQ;
      try contradiction; try (exfalso; congruence).
Qed.

Definition lin_apply (lg : logs) (e : lin) : logs :=
  match e with
  | LinAppend _ m r => log_set lg m (lg m ++ [r])
  | LinReset _ m => log_set lg m []
  | _ => lg
  end.
Definition replay (tr : list lin) : logs := fold_left lin_apply tr empty_logs.

(* what a step does to memory, read off its linearisation event *)
Lemma step_memory s t s' e :
  step grow mk s t s' e ->
  match e with
  | LinAppend _ x r =>
    exists h' sl', go_append grow (cs_heap s) (cs_hdr s x) r = (h', sl') /\
                   cs_heap s' = h' /\ cs_hdr s' = fupd (cs_hdr s) x sl'
  | LinReset _ x => cs_heap s' = cs_heap s /\ cs_hdr s' = fupd (cs_hdr s) x nil_slice
  | LinSnapshot _ x sl => cs_heap s' = cs_heap s /\ cs_hdr s' = cs_hdr s /\ sl = cs_hdr s x
  | LinNone | LinStart _ _ => cs_heap s' = cs_heap s /\ cs_hdr s' = cs_hdr s
  end.
Proof. intros ST. inversion ST; subst; cbn; auto. do 2 eexists. split; [eassumption|auto]. Qed.

Lemma step_hinv s t s' e :
  HInv s -> step grow mk s t s' e ->
  HInv s' /\ heap_ext (cs_heap s) (cs_heap s') /\
  (forall m, cabs s' m = lin_apply (cabs s) e m).
Proof.
  intros HI ST. pose proof (step_memory _ _ _ _ ST) as M. destruct e as [|t' x r|t' x|t' x sl|t' o].
  - destruct M as [EH ED]. destruct s' as [h' hd' lk' th']. cbn in EH, ED. subst.
    split; [destruct HI; split; assumption|]. split; [apply heap_ext_refl|reflexivity].
  - destruct M as (h' & sl' & GA & EH & ED). destruct s' as [h2 hd2 lk2 th2]. cbn in EH, ED. subst.
    destruct (append_hinv s x r h' sl' lk2 th2 HI GA) as [H1 [H2 [H3 H4]]].
    split; [exact H1|]. split; [exact H2|]. intros m. cbn [lin_apply]. unfold log_set.
    destruct (String.eqb_spec m x) as [->|NE]; [exact H3|apply H4; exact NE].
  - destruct M as [EH ED]. destruct s' as [h2 hd2 lk2 th2]. cbn in EH, ED. subst.
    split; [apply setnil_hinv; exact HI|]. split; [apply heap_ext_refl|].
    intros m. cbn [lin_apply]. unfold log_set, cabs. cbn [cs_heap cs_hdr].
    destruct (String.eqb_spec m x) as [->|NE]; [rewrite fupd_same; reflexivity|].
    rewrite fupd_other by exact NE. reflexivity.
  - destruct M as [EH [ED _]]. destruct s' as [h' hd' lk' th']. cbn in EH, ED. subst.
    split; [destruct HI; split; assumption|]. split; [apply heap_ext_refl|reflexivity].
  - destruct M as [EH ED]. destruct s' as [h' hd' lk' th']. cbn in EH, ED. subst.
    split; [destruct HI; split; assumption|]. split; [apply heap_ext_refl|reflexivity].
Qed.

Lemma hinit progs : HInv (cinit progs).
Proof. split; cbn; intros; [left; split; reflexivity|contradiction]. Qed.

(* In every reachable state the memory of each call list denotes exactly the log obtained
   by applying the linearisation events (appends and resets, in the order the lock-holding
   steps happened) to empty logs: the records behave like one atomic list per method. *)
Theorem C05_linearizable progs s tr :
  reach grow mk (cinit progs) s tr -> HInv s /\ forall m, cabs s m = replay tr m.
Proof.
  intros R. induction R as [|s t s' e tr R [HI AB] ST].
  - split; [apply hinit|reflexivity].
  - destruct (step_hinv _ _ _ _ HI ST) as [HI' [_ AB']]. split; [exact HI'|].
    intros m. rewrite AB'. unfold replay. rewrite fold_left_app. cbn [fold_left].
    destruct e; cbn [lin_apply]; unfold log_set; try apply AB;
      rewrite AB; destruct (String.eqb m m0); try rewrite AB; reflexivity.
Qed.

(* snapshots: what each MCalls() returned, with the log at that moment *)
Fixpoint snaps_from (lg : logs) (tr : list lin) : list (string * slice * list record) :=
  match tr with
  | [] => []
  | e :: r =>
    (match e with LinSnapshot _ m sl => [(m, sl, lg m)] | _ => [] end)
    ++ snaps_from (lin_apply lg e) r
  end.

Lemma snaps_from_snoc lg tr e :
  snaps_from lg (tr ++ [e]) =
  snaps_from lg tr ++
  match e with LinSnapshot _ m sl => [(m, sl, fold_left lin_apply tr lg m)] | _ => [] end.
Proof.
  revert lg. induction tr as [|x tr IH]; intros lg; cbn [app snaps_from fold_left].
  - rewrite app_nil_r. reflexivity.
  - rewrite IH, app_assoc. reflexivity.
Qed.

Definition snap_ok (h : heap) (x : string * slice * list record) : Prop :=
  let '(m, sl, recs) := x in
  denote h sl = recs /\ s_len sl <= List.length (a_cells (get_arr h (s_arr sl))).

Lemma snap_ok_ext h h' x : heap_ext h h' -> snap_ok h x -> snap_ok h' x.
Proof.
  destruct x as [[m sl] recs]. intros E [D L]. split.
  - rewrite (denote_stable _ _ _ E L). exact D.
  - destruct E as [_ E]. destruct (E (s_arr sl)) as [more EQ]. rewrite EQ, app_length. lia.
Qed.

(* every slice ever returned by MCalls() denotes, now and for ever, the log of its method
   at the moment it was read: it is never changed by later calls or resets of any thread *)
Theorem C05_snapshots progs s tr :
  reach grow mk (cinit progs) s tr ->
  Forall (snap_ok (cs_heap s)) (snaps_from empty_logs tr).
Proof.
  intros R. induction R as [|s t s' e tr R IH ST]; [constructor|].
  destruct (C05_linearizable _ _ _ R) as [HI AB].
  destruct (step_hinv _ _ _ _ HI ST) as [HI' [EXT AB']].
  rewrite snaps_from_snoc. apply Forall_app. split.
  - eapply Forall_impl; [|exact IH]. intros x. apply snap_ok_ext. exact EXT.
  - destruct e as [| | |t' x sl|]; try constructor; [|constructor].
    pose proof (step_memory _ _ _ _ ST) as M. cbn beta iota in M. destruct M as [EH [ED ->]].
    cbn [snap_ok]. rewrite EH. split.
    + fold (replay tr). rewrite <- AB. reflexivity.
    + rewrite (slice_ok_len _ _ (hi_ok _ HI x)). lia.
Qed.

(* between resets a method's log only grows: every snapshot is a prefix of every later one *)
Fixpoint resets_of (m : string) (tr : list lin) : bool :=
  match tr with
  | [] => false
  | LinReset _ x :: r => String.eqb x m || resets_of m r
  | _ :: r => resets_of m r
  end.

Theorem C05_prefix lg tr m :
  resets_of m tr = false -> exists more, fold_left lin_apply tr lg m = lg m ++ more.
Proof.
  revert lg. induction tr as [|e tr IH]; intros lg NR; cbn [fold_left].
  - exists []. rewrite app_nil_r. reflexivity.
  - destruct e as [|t x r|t x|t x sl|t o]; cbn [resets_of] in NR; try (apply IH; exact NR).
    + destruct (IH (lin_apply lg (LinAppend t x r)) NR) as [more E]. rewrite E.
      cbn [lin_apply]. unfold log_set. destruct (String.eqb_spec m x) as [->|NE].
      * exists (r :: more). rewrite <- app_assoc. reflexivity.
      * exists more. reflexivity.
    + apply orb_false_elim in NR. destruct NR as [NX NR].
      destruct (IH (lin_apply lg (LinReset t x)) NR) as [more E]. rewrite E.
      cbn [lin_apply]. unfold log_set. rewrite String.eqb_sym, NX. exists more. reflexivity.
Qed.

End Conc.
