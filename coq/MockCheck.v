(* MockCheck.v -- the checker [canonical] split into the components the individual
   properties depend on (so that a change to the reset methods is not reported against
   the delegation property), and the verdict string the harness reads. *)
From Moq Require Import Strs MockSem MockSpec P_C07.
Local Open Scope string_scope.

Definition comp_B (stub : bool) (mk : mmock) : bool :=
  forallb (fun mm => mm_has_lock mm &&
                     match mm_body mm with Some b => canonical_body stub mm b | None => false end)
          (mo_methods mk).
Definition comp_A (mk : mmock) : bool :=
  forallb (fun mm => match mm_calls mm with Some b => canonical_calls mm b | None => false end)
          (mo_methods mk).
Definition comp_R (resets : bool) (mk : mmock) : bool :=
  forallb (fun mm => match mm_reset mm with
                     | Some b => resets && canonical_reset (mm_name mm) b
                     | None => negb resets
                     end) (mo_methods mk)
  && match mo_reset_all mk with
     | Some b => resets && canonical_reset_all (map mm_name (mo_methods mk)) b
     | None => negb resets
     end.
Definition comp_X (mk : mmock) : bool := match mo_extra mk with [] => true | _ => false end.
Definition comp_N (mk : mmock) : bool := nodupb (map mm_name (mo_methods mk)).

Lemma forallb_and3 {A} (f g h : A -> bool) l :
  forallb (fun x => f x && g x && h x) l = forallb f l && forallb g l && forallb h l.
Proof.
  induction l as [|x l IH]; simpl; [reflexivity|]. rewrite IH.
  destruct (f x), (g x), (h x), (forallb f l), (forallb g l), (forallb h l); reflexivity.
Qed.

Theorem canonical_components stub resets mk :
  canonical stub resets mk =
  comp_B stub mk && comp_A mk && comp_R resets mk && comp_X mk && comp_N mk.
Proof.
  unfold canonical, comp_B, comp_A, comp_R, comp_X, comp_N, canonical_method.
  rewrite (forallb_and3
             (fun mm => mm_has_lock mm && match mm_body mm with Some b => canonical_body stub mm b | None => false end)
             (fun mm => match mm_calls mm with Some b => canonical_calls mm b | None => false end)
             (fun mm => match mm_reset mm with Some b => resets && canonical_reset (mm_name mm) b | None => negb resets end)).
  repeat match goal with |- context [forallb ?f ?l] => generalize (forallb f l); intro end.
  repeat match goal with |- context [nodupb ?l] => generalize (nodupb l); intro end.
  destruct (mo_reset_all mk) as [body|];
    [generalize (canonical_reset_all (map mm_name (mo_methods mk)) body); intro|];
    destruct (mo_extra mk); destruct resets;
    repeat match goal with b : bool |- _ => destruct b end; reflexivity.
Qed.

Definition verdict_string (stub resets : bool) (ifaces : list string) (mks : list mmock) : string :=
  let f (c : bool) (y n : string) := if c then y else n in
  f (forallb (comp_B stub) mks) "B" "b" ++
  f (forallb comp_A mks) "A" "a" ++
  f (forallb (comp_R resets) mks) "R" "r" ++
  f (forallb comp_X mks) "X" "x" ++
  f (forallb comp_N mks) "N" "n" ++
  f (forallb (canonical stub resets) mks) "C" "c" ++
  f (forallb disciplined mks) "D" "d" ++
  f (stub || forallb (fun '(i, mk) => nil_msgs_ok i mk) (combine ifaces mks)) "M" "m".
