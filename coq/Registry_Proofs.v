(* Registry_Proofs.v -- invariants of the import registry, lifted through the whole run. *)
From Moq Require Import Strs Strs_Proofs GoTypes TypeString VarName Registry Scope Gen.
From Coq Require Import Lia Permutation.
Local Open Scope list_scope.

Lemma set_alias_paths r path a : map i_path (set_alias r path a) = map i_path r.
Proof.
  induction r as [|i r IH]; simpl; [reflexivity|].
  destruct (String.eqb (i_path i) path); simpl; rewrite IH; reflexivity.
Qed.
Lemma set_alias_names r path a : map i_name (set_alias r path a) = map i_name r.
Proof.
  induction r as [|i r IH]; simpl; [reflexivity|].
  destruct (String.eqb (i_path i) path); simpl; rewrite IH; reflexivity.
Qed.

Lemma assign_paths st p a :
  map i_path (rs_map (assign st p a)) = map i_path (rs_map st) /\
  i_path (rs_new (assign st p a)) = i_path (rs_new st) /\
  i_name (rs_new (assign st p a)) = i_name (rs_new st).
Proof. destruct p; simpl; [auto|]. rewrite set_alias_paths. auto. Qed.

(* resolveImportConflict, one package at a time *)
Definition one_step (rec : rstate -> pref -> pref -> nat -> option rstate) (lvl : nat)
           (st : option rstate) (p other : pref) : option rstate :=
  match st with
  | None => None
  | Some st =>
    let name := unique_name (ref_path st p) lvl in
    match search_import (rs_map st) name with
    | Some c =>
      if ref_eqb (PIn (i_path c)) p || ref_eqb (PIn (i_path c)) other then Some (assign st p name)
      else rec st p (PIn (i_path c)) (S lvl)
    | None => Some (assign st p name)
    end
  end.

Lemma resolve_unfold f st a b lvl :
  resolve (S f) st a b lvl =
  if String.eqb (unique_name (ref_path st a) lvl) (unique_name (ref_path st b) lvl)
  then resolve f st a b (S lvl)
  else one_step (resolve f) lvl (one_step (resolve f) lvl (Some st) a b) b a.
Proof. reflexivity. Qed.

Definition same_paths (s1 s2 : rstate) : Prop :=
  map i_path (rs_map s2) = map i_path (rs_map s1) /\
  i_path (rs_new s2) = i_path (rs_new s1) /\ i_name (rs_new s2) = i_name (rs_new s1).

Lemma same_paths_trans a b c : same_paths a b -> same_paths b c -> same_paths a c.
Proof. intros [A1 [B1 C1]] [A2 [B2 C2]]. repeat split; congruence. Qed.

Lemma one_step_paths rec lvl s1 p other s2 :
  (forall st a b l st', rec st a b l = Some st' -> same_paths st st') ->
  one_step rec lvl (Some s1) p other = Some s2 -> same_paths s1 s2.
Proof.
  intros REC. unfold one_step.
  destruct (search_import (rs_map s1) _) as [c|].
  - destruct (ref_eqb _ p || ref_eqb _ other).
    + intros E. inversion E; subst. apply assign_paths.
    + apply REC.
  - intros E. inversion E; subst. apply assign_paths.
Qed.

(* conflict resolution only ever changes aliases *)
Lemma resolve_paths fuel st a b lvl st' :
  resolve fuel st a b lvl = Some st' -> same_paths st st'.
Proof.
  revert st a b lvl st'. induction fuel as [|f IH]; intros st a b lvl st'; [discriminate|].
  rewrite resolve_unfold. destruct (String.eqb _ _); [apply IH|].
  destruct (one_step (resolve f) lvl (Some st) a b) as [s1|] eqn:E1; [|discriminate].
  intros E2. eapply same_paths_trans.
  - eapply one_step_paths; [exact IH|exact E1].
  - eapply one_step_paths; [exact IH|exact E2].
Qed.

(* what AddImport does to the set of paths *)
Lemma add_import_paths cfg r p r' path :
  add_import cfg r p = AddOk r' path ->
  path = strip_vendor (p_path p) /\ path <> moq_pkg_path cfg /\
  (map i_path r' = map i_path r /\ In path (map i_path r) \/
   map i_path r' = map i_path r ++ [path] /\ ~ In path (map i_path r)).
Proof.
  unfold add_import. destruct (String.eqb_spec (strip_vendor (p_path p)) (moq_pkg_path cfg)); [discriminate|].
  destruct (find_path r (strip_vendor (p_path p))) as [i|] eqn:F.
  - intros E. inversion E; subst. split; [reflexivity|]. split; [assumption|]. left. split; [reflexivity|].
    unfold find_path in F. apply find_some in F. destruct F as [I Q]. apply String.eqb_eq in Q.
    rewrite <- Q. apply in_map. exact I.
  - assert (NI : ~ In (strip_vendor (p_path p)) (map i_path r)).
    { intros I. apply in_map_iff in I. destruct I as [i [Q I]].
      unfold find_path in F. apply (find_none _ _ F) in I. rewrite Q, String.eqb_refl in I. discriminate. }
    destruct (search_import r _) as [c|].
    + destruct (resolve _ _ _ _ _) as [st|] eqn:R; [|discriminate].
      intros E. inversion E; subst. split; [reflexivity|]. split; [assumption|]. right. split; [|exact NI].
      destruct (resolve_paths _ _ _ _ _ _ R) as [A [B _]]. rewrite map_app, A. cbn [rs_map rs_new map i_path]. rewrite B. reflexivity.
    + intros E. inversion E; subst. split; [reflexivity|]. split; [assumption|]. right. split; [|exact NI].
      rewrite map_app. reflexivity.
Qed.

Lemma nodup_snoc {A} (l : list A) x : NoDup l -> ~ In x l -> NoDup (l ++ [x]).
Proof.
  induction 1 as [|y l NI ND IH]; intros NX; simpl; [constructor; [intros []|constructor]|].
  constructor.
  - intros I. apply in_app_or in I. destruct I as [I|[E|[]]]; [contradiction|]. apply NX. left. symmetry. exact E.
  - apply IH. intros I. apply NX. right. exact I.
Qed.

(* the registry invariant behind C10 and C11: every path once, never the destination *)
Definition RInv (cfg : rcfg) (r : registry) : Prop :=
  NoDup (map i_path r) /\ ~ In (moq_pkg_path cfg) (map i_path r).

Lemma rinv_nil cfg : RInv cfg [].
Proof. split; [constructor|intros []]. Qed.

Lemma add_import_rinv cfg r p r' path :
  add_import cfg r p = AddOk r' path -> RInv cfg r -> RInv cfg r' /\ incl (map i_path r) (map i_path r').
Proof.
  intros A [ND NM]. destruct (add_import_paths _ _ _ _ _ A) as [_ [NE [[E _]|[E NI]]]].
  - split; [split; rewrite E; assumption|]. rewrite E. apply incl_refl.
  - split; [split|].
    + rewrite E. apply nodup_snoc; assumption.
    + rewrite E. intros I. apply in_app_or in I. destruct I as [I|[I|[]]]; [contradiction|congruence].
    + rewrite E. apply incl_appl. apply incl_refl.
Qed.

(* ---------- lifting the invariant through the run ---------- *)

Definition rgrows (cfg : rcfg) (r r' : registry) : Prop :=
  RInv cfg r -> RInv cfg r' /\ incl (map i_path r) (map i_path r').

Lemma rgrows_refl cfg r : rgrows cfg r r.
Proof. intros H. split; [exact H|apply incl_refl]. Qed.
Lemma rgrows_trans cfg a b c : rgrows cfg a b -> rgrows cfg b c -> rgrows cfg a c.
Proof.
  intros H1 H2 I. destruct (H1 I) as [I1 S1]. destruct (H2 I1) as [I2 S2].
  split; [exact I2|]. eapply incl_tran; eassumption.
Qed.

Lemma populate_rgrows cfg r ps imps r' imps' :
  populate cfg r ps imps = Ok (r', imps') -> rgrows cfg r r'.
Proof.
  revert r imps. induction ps as [|p ps IH]; intros r imps; simpl.
  - intros E. inversion E; subst. apply rgrows_refl.
  - destruct (add_import cfg r p) as [|r1 path|] eqn:A; try discriminate.
    + apply IH.
    + intros E. eapply rgrows_trans; [|eapply IH; exact E].
      intros I. eapply add_import_rinv; eassumption.
Qed.

Lemma add_var_rgrows cfg r sc name t suffix r' sc' idx :
  add_var cfg r sc name t suffix = Ok (r', sc', idx) -> rgrows cfg r r'.
Proof.
  unfold add_var. destruct (populate cfg r (refs t) []) as [[r1 imps]| | | |] eqn:P; try discriminate.
  cbn [bind].
  match goal with |- bind ?x _ = _ -> _ => destruct x as [[n2 sc2]| | | |]; try discriminate end.
  cbn [bind]. intros E. inversion E; subst. eapply populate_rgrows. exact P.
Qed.

Lemma add_vars_rgrows cfg r sc vs suffix r' sc' :
  add_vars cfg r sc vs suffix = Ok (r', sc') -> rgrows cfg r r'.
Proof.
  revert r sc. induction vs as [|[n t] vs IH]; intros r sc; simpl.
  - intros E. inversion E; subst. apply rgrows_refl.
  - destruct (add_var cfg r sc n t suffix) as [[[r1 sc1] idx]| | | |] eqn:A; try discriminate. cbn [bind].
    intros E. eapply rgrows_trans; [eapply add_var_rgrows; exact A|eapply IH; exact E].
Qed.

Lemma method_data_rgrows cfg r m r' rm : method_data cfg r m = Ok (r', rm) -> rgrows cfg r r'.
Proof.
  unfold method_data.
  destruct (add_vars cfg r empty_scope _ "") as [[r1 sc1]| | | |] eqn:A1; try discriminate. cbn [bind].
  destruct (add_vars cfg r1 sc1 _ "Out") as [[r2 sc2]| | | |] eqn:A2; try discriminate. cbn [bind].
  intros E. inversion E; subst.
  eapply rgrows_trans; [eapply add_vars_rgrows; exact A1|eapply add_vars_rgrows; exact A2].
Qed.

Lemma methods_data_rgrows cfg r ms r' rms : methods_data cfg r ms = Ok (r', rms) -> rgrows cfg r r'.
Proof.
  revert r r' rms. induction ms as [|m ms IH]; intros r r' rms; simpl.
  - intros E. inversion E; subst. apply rgrows_refl.
  - destruct (method_data cfg r m) as [[r1 rm]| | | |] eqn:M; try discriminate. cbn [bind].
    destruct (methods_data cfg r1 ms) as [[r2 rms2]| | | |] eqn:MS; try discriminate. cbn [bind].
    intros E. inversion E; subst.
    eapply rgrows_trans; [eapply method_data_rgrows; exact M|eapply IH; exact MS].
Qed.

Lemma collect_rgrows i cfg r args r' rks : collect i cfg r args = Ok (r', rks) -> rgrows cfg r r'.
Proof.
  revert r r' rks. induction args as [|np rest IH]; intros r r' rks; simpl.
  - intros E. inversion E; subst. apply rgrows_refl.
  - destruct (parse_interface_name np) as [name mock_name].
    destruct (assoc name (in_lookup i)) as [[| |ms ty tps meths]|]; try discriminate.
    destruct (methods_data cfg r meths) as [[r1 rms]| | | |] eqn:M; try discriminate. cbn [bind].
    destruct (type_params cfg r1 tps) as [[r2 tsc]| | | |] eqn:T; try discriminate. cbn [bind].
    destruct (collect i cfg r2 rest) as [[r3 rks']| | | |] eqn:C; try discriminate. cbn [bind].
    intros E. inversion E; subst.
    eapply rgrows_trans; [eapply methods_data_rgrows; exact M|].
    eapply rgrows_trans; [eapply add_vars_rgrows; exact T|eapply IH; exact C].
Qed.

(* ---------- Imports(): a permutation, ordered by path ---------- *)

Lemma insert_by_perm {A} (lt : A -> A -> bool) x l : Permutation (insert_by lt x l) (x :: l).
Proof.
  induction l as [|y l IH]; simpl; [apply Permutation_refl|].
  destruct (lt y x); [|apply Permutation_refl].
  eapply Permutation_trans; [apply perm_skip; exact IH|apply perm_swap].
Qed.
Lemma sort_by_perm {A} (lt : A -> A -> bool) l : Permutation (sort_by lt l) l.
Proof.
  induction l as [|x l IH]; simpl; [constructor|].
  eapply Permutation_trans; [apply insert_by_perm|apply perm_skip; exact IH].
Qed.

(* adjacent elements are never out of order: b < a never holds for a directly before b *)
Inductive adj_sorted {A} (lt : A -> A -> bool) : list A -> Prop :=
| AdjNil : adj_sorted lt []
| AdjOne x : adj_sorted lt [x]
| AdjCons x y l : lt y x = false -> adj_sorted lt (y :: l) -> adj_sorted lt (x :: y :: l).

Lemma insert_by_sorted {A} (lt : A -> A -> bool) x l :
  (forall a b, lt a b = true -> lt b a = false) ->
  adj_sorted lt l -> adj_sorted lt (insert_by lt x l).
Proof.
  intros ASYM S. induction S as [|y|y z l YZ S IH]; simpl.
  - constructor.
  - destruct (lt y x) eqn:E; constructor; auto; constructor.
  - destruct (lt y x) eqn:E.
    + simpl in IH. destruct (lt z x) eqn:E2.
      * constructor; [exact YZ|exact IH].
      * constructor; [apply ASYM; exact E|exact IH].
    + constructor; [exact E|]. constructor; assumption.
Qed.

Lemma sort_by_sorted {A} (lt : A -> A -> bool) l :
  (forall a b, lt a b = true -> lt b a = false) -> adj_sorted lt (sort_by lt l).
Proof.
  intros ASYM. induction l as [|x l IH]; simpl; [constructor|]. apply insert_by_sorted; assumption.
Qed.

Lemma str_ltb_asym a b : String.ltb a b = true -> String.ltb b a = false.
Proof.
  unfold String.ltb. rewrite (String.compare_antisym b a).
  destruct (String.compare a b); simpl; intros H; try discriminate H; reflexivity.
Qed.
