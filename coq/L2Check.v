(* L2Check.v -- the end-to-end correspondence: the model (Gen + TmplExec on the
   regenerated template) against what the real moq produced on the same input. *)
From Moq Require Import Strs GoTypes Registry Scope Gen TmplAst TmplExec WellScoped.
From Moq.gen Require Import TemplateSrc.

Inductive observed :=
| ObsOut (s : string)       (* Mock succeeded: the -fmt noop bytes *)
| ObsErr (s : string)       (* Mock returned this error *)
| ObsPanic (s : string)     (* a Go panic was recovered *)
| ObsCrash                  (* the process died (fatal error: stack overflow) *)
| ObsTimeout.

Record l2case := mkCase {
  lc_id : string;
  lc_input : input;
  lc_cfg : config;
  lc_args : list string;
  lc_obs : observed }.

Definition model_output (c : l2case) : outcome string :=
  bind (mock_run (lc_input c) (lc_cfg c) (lc_args c)) (fun d =>
  match render_with moq_template d with
  | Some s => Ok s
  | None => Err "template: stuck"
  end).

Definition verdict (c : l2case) : string :=
  match model_output c, lc_obs c with
  | Ok r, ObsOut s => if String.eqb r s then "ok" else "DIFF-bytes"
  | Err m, ObsErr s => if String.eqb m s then "ok-err" else "DIFF-errmsg"
  | OutOfFuel _, ObsCrash => "ok-diverges"
  | OutOfFuel _, ObsTimeout => "ok-diverges"
  | Crash _, ObsPanic _ => "ok-crash"
  | OrderDependent _, ObsOut _ => "skip-order"
  | Ok _, _ => "DIFF-model-ok"
  | Err _, _ => "DIFF-model-err"
  | OutOfFuel _, _ => "DIFF-model-diverges"
  | Crash _, _ => "DIFF-model-crash"
  | OrderDependent _, _ => "DIFF-model-order"
  end.

(* the defect families the model computes for this case (WellScoped.v) *)
Definition families (c : l2case) : list string :=
  (input_failing (lc_input c) (lc_cfg c) (lc_args c) ++
   match mock_run (lc_input c) (lc_cfg c) (lc_args c) with
   | Ok d => (failing d ++ self_import (lc_input c) d)%list
   | _ => []
   end)%list.

Definition verdicts (cs : list l2case) : list (string * string) :=
  map (fun c => (lc_id c, verdict c ++ "|" ++ join "," (families c))) cs.
