(* L2Check.v -- the end-to-end correspondence: the model (Gen + TmplExec on the
   regenerated template) against what the real moq produced on the same input. *)
From Moq Require Import Strs GoTypes VarName Registry Scope Gen TmplAst TmplExec WellScoped Benign.

(* type-parameter names are printed verbatim (since the fix of D1) *)
Definition exported_tp (s : string) : string := s.
From Moq.gen Require Import TemplateSrc.

Inductive observed :=
| ObsOut (s : string)       (* Mock succeeded: the -fmt noop bytes *)
| ObsErr (s : string)       (* Mock returned this error *)
| ObsPanic (s : string)     (* a Go panic was recovered *)
| ObsCrash                  (* the process died (fatal error: stack overflow) *)
| ObsTimeout.

Record l2case := mkCase {
  lc_id : string;
  lc_input : input;
  lc_cfg : config;
  lc_args : list string;
  lc_obs : observed;
  lc_proj : string;        (* the structure of the real output, as extracted by `vh facts` *)
  lc_mid : nat }.          (* how many import specs precede a generated file that sorts after
                              the first source file (regeneration, C15) *)

(* ---- the structural projection of the model's output ----
   Everything the generator decides (package clause, import block, mock names, type
   parameters, method names, parameter names and types), independent of how the template
   lays it out; type expressions are compared without white space and semicolons. *)
Fixpoint squeeze (s : string) : string :=
  match s with
  | EmptyString => EmptyString
  | String c r =>
    if Ascii.eqb c " "%char || Ascii.eqb c ";"%char || Ascii.eqb c (ascii_of_nat 10)
       || Ascii.eqb c (ascii_of_nat 9)
    then squeeze r else String c (squeeze r)
  end.
Definition nl : string := String (ascii_of_nat 10) "".
Definition sep_out : string := " ;; ".
Definition proj_param (p : param_d) : string :=
  "p " ++ pd_name p ++ " " ++
  squeeze (if pd_variadic p then "..." ++ drop_str 2 (pd_type p) else pd_type p) ++ nl.
Definition proj_method (m : method_d) : string :=
  "m " ++ md_name m ++ nl ++ concat_all (map proj_param (md_params m)) ++
  concat_all (map (fun r => "r " ++ squeeze (pd_type r) ++ nl) (md_returns m)).
Definition proj_mock (k : mock_d) : string :=
  "mock " ++ mk_name k ++ nl ++
  concat_all (map (fun t => "tp " ++ exported_tp (td_name t) ++ " " ++ squeeze (td_type t) ++ nl) (mk_tparams k)) ++
  concat_all (map proj_method (mk_methods k)).
Definition proj_data (d : data) : string :=
  "pkg " ++ d_pkg_name d ++ nl ++
  concat_all (map (fun i => "imp " ++ i_alias i ++ " " ++ i_path i ++ nl) (d_imports d)) ++
  concat_all (map proj_mock (d_mocks d)).

Definition model_output (c : l2case) : outcome string :=
  bind (mock_run (lc_input c) (lc_cfg c) (lc_args c)) (fun d =>
  match render_with moq_template d with
  | Some s => Ok s
  | None => Err "template: stuck"
  end).

Definition verdict (c : l2case) : string :=
  match model_output c, lc_obs c with
  | Ok r, ObsOut s =>
    if String.eqb r s then "ok"
    else match mock_run (lc_input c) (lc_cfg c) (lc_args c) with
         | Ok d => if String.eqb (proj_data d) (lc_proj c) then "ok-proj" else "DIFF-structure"
         | _ => "DIFF-bytes"
         end
  | Err "template: stuck", ObsOut s =>
    match mock_run (lc_input c) (lc_cfg c) (lc_args c) with
    | Ok d => if String.eqb (proj_data d) (lc_proj c) then "ok-proj" else "DIFF-structure"
    | _ => "DIFF-bytes"
    end
  | Err m, ObsErr s => if String.eqb m s then "ok-err" else "DIFF-errmsg"
  | OutOfFuel _, ObsCrash => "ok-diverges"
  | OutOfFuel _, ObsTimeout => "ok-diverges"
  | Crash _, ObsPanic _ => "ok-crash"
  | OrderDependent _, ObsOut _ => "skip-order"
  | Ok _, _ => "DIFF-model-ok"
  | Err _, _ => "DIFF-model-err"
  | OutOfFuel _, _ => "DIFF-model-diverges"
  | Crash _, _ => "DIFF-model-crash"
  | OrderDependent _, _ => "DIFF-model-order"
  end.

(* the defect families the model computes for this case (WellScoped.v) *)
Definition families (c : l2case) : list string :=
  (input_failing (lc_input c) (lc_cfg c) (lc_args c) ++
   match mock_run (lc_input c) (lc_cfg c) (lc_args c) with
   | Ok d => (failing d ++ self_import (lc_input c) d)%list
   | _ => []
   end)%list.

(* on a structural disagreement the model's projection is handed back for attribution *)
Fixpoint nl_to_sep (s : string) : string :=
  match s with
  | EmptyString => EmptyString
  | String c r => if Ascii.eqb c (ascii_of_nat 10) then sep_out ++ nl_to_sep r else String c (nl_to_sep r)
  end.
Definition model_proj (c : l2case) : string :=
  match mock_run (lc_input c) (lc_cfg c) (lc_args c) with
  | Ok d => nl_to_sep (proj_data d)
  | _ => ""
  end.

(* ---- regeneration (C15): the model's own prediction of what a second run over the first
   run's output yields.  The generated file contributes its import specs to the alias map
   of the next run, before or after the source files' specs depending on its file name. ---- *)
Definition with_generated_at (i : input) (d : data) (k : nat) : input :=
  let specs := map (fun im => (i_path im, i_alias im)) (d_imports d) in
  mkInput (in_src i) (firstn k (in_specs i) ++ specs ++ skipn k (in_specs i))%list
          (in_dir_oracle i) (in_lookup i).
Definition with_generated (i : input) (d : data) (first : bool) : input :=
  with_generated_at i d (if first then 0 else List.length (in_specs i)).
Definition regen_stable_at (c : l2case) (k : nat) : bool :=
  match mock_run (lc_input c) (lc_cfg c) (lc_args c) with
  | Ok d =>
    match mock_run (with_generated_at (lc_input c) d k) (lc_cfg c) (lc_args c) with
    | Ok d' => String.eqb (proj_data d) (proj_data d')
    | _ => false
    end
  | _ => true
  end.
Definition regen_stable (c : l2case) (first : bool) : bool :=
  regen_stable_at c (if first then 0 else List.length (in_specs (lc_input c))).

Definition verdicts (cs : list l2case) : list (string * string) :=
  map (fun c => let v := verdict c in
                (lc_id c, v ++ "|" ++ join "," (families c ++
                                (if benign_run (lc_input c) (lc_cfg c) (lc_args c) then [] else ["outside_benign_guard"]) ++
                                (if names_run_ok (lc_input c) (lc_cfg c) (lc_args c) then [] else ["outside_names_guard"]) ++
                                (if regen_stable c false then [] else ["regen_unstable_last"]) ++
                                (if regen_stable c true then [] else ["regen_unstable_first"]) ++
                                (if regen_stable_at c (lc_mid c) then [] else ["regen_unstable_mid"]))%list ++
                          (if String.eqb v "DIFF-structure" then "|" ++ model_proj c else ""))) cs.
