(* Pin_mocker_format.v -- the model was written from exactly this source text (tie, see DESIGN 2.4). *)
From Moq Require Import Strs SkeletonPins.
From Moq.gen Require Import Skeletons.
Theorem pin_mocker_format : src_mocker_format = pinned_mocker_format. Proof. reflexivity. Qed.
