(* P_C13.v -- C13: call-record field names follow the parameter names predictably.
   Statements about the model functions exported_with / var_name_for_type / add_var;
   the tables are the ones regenerated from /repo (gen/Tables.v). *)
From Moq Require Import Strs GoTypes TypeString VarName Registry Scope.
From Moq.gen Require Import Tables.
From Coq Require Import Lia.

(* ---- Exported ---- *)

Lemma find_eqb_some (x : string) (l : list string) :
  In x l -> find (String.eqb x) l = Some x.
Proof.
  induction l as [|y l IH]; simpl; [tauto|].
  intros [H|H].
  - subst. rewrite String.eqb_refl. reflexivity.
  - destruct (String.eqb x y) eqn:E.
    + apply String.eqb_eq in E. subst. reflexivity.
    + auto.
Qed.

Lemma find_eqb_none (x : string) (l : list string) :
  ~ In x l -> find (String.eqb x) l = None.
Proof.
  induction l as [|y l IH]; simpl; [reflexivity|].
  intros H. destruct (String.eqb x y) eqn:E.
  - apply String.eqb_eq in E. subst. exfalso. apply H. left. reflexivity.
  - apply IH. intros HI. apply H. right. exact HI.
Qed.

(* the full rule, for every initialism table and every non-empty name *)
Theorem C13_exported_spec (inits : list string) (c : ascii) (r : string) :
  exported_with inits "" = "" /\
  (In (to_upper (String c r)) inits ->
     exported_with inits (String c r) = to_upper (String c r)) /\
  (~ In (to_upper (String c r)) inits ->
     exported_with inits (String c r) = String (upper c) r).
Proof.
  split; [reflexivity|]. split; intros H; unfold exported_with.
  - rewrite (find_eqb_some _ _ H). reflexivity.
  - rewrite (find_eqb_none _ _ H). reflexivity.
Qed.

(* the 38 golint initialisms the property names; the regenerated table must contain them *)
Definition golint_initialisms : list string :=
  ["ACL"; "API"; "ASCII"; "CPU"; "CSS"; "DNS"; "EOF"; "GUID"; "HTML"; "HTTP"; "HTTPS"; "ID"; "IP";
   "JSON"; "LHS"; "QPS"; "RAM"; "RHS"; "RPC"; "SLA"; "SMTP"; "SQL"; "SSH"; "TCP"; "TLS"; "TTL";
   "UDP"; "UI"; "UID"; "UUID"; "URI"; "URL"; "UTF8"; "VM"; "XML"; "XMPP"; "XSRF"; "XSS"].

Theorem C13_table :
  forallb (fun i => str_mem i initialisms) golint_initialisms = true /\
  forallb (fun i => String.eqb (to_upper i) i) initialisms = true.
Proof. split; vm_compute; reflexivity. Qed.

Lemma str_mem_In x l : str_mem x l = true <-> In x l.
Proof.
  unfold str_mem. rewrite existsb_exists. split.
  - intros [y [Hy E]]. apply String.eqb_eq in E. subst. exact Hy.
  - intros H. exists x. split; [exact H|apply String.eqb_refl].
Qed.

(* hence: every well-known initialism, in any casing, is upper-cased as a whole *)
Theorem C13_initialism_any_case (s : string) (c : ascii) (r : string) :
  s = String c r -> In (to_upper s) golint_initialisms -> exported s = to_upper s.
Proof.
  intros -> H. apply (C13_exported_spec initialisms c r).
  destruct C13_table as [T _]. rewrite forallb_forall in T.
  apply str_mem_In. apply T. exact H.
Qed.

(* ---- names derived from types ---- *)

Theorem C13_unnamed_rule :
  (forall n u, var_name_for_type (TBasic n KString u) = "s") /\
  (forall n u, var_name_for_type (TBasic n KInt u) = "n") /\
  (forall n u, var_name_for_type (TBasic n KFloat u) = "f") /\
  (forall n u, var_name_for_type (TBasic n KBool u) = "b") /\
  (forall n u, var_name_for_type (TBasic n KOther u) = "v") /\
  (forall p targs, var_name_for_type (TNamed p "error" targs) = "err") /\
  (forall p name targs, name <> "error" -> decapitalise name <> name ->
      var_name_for_type (TNamed p name targs) = decapitalise name) /\
  (forall p name targs, name <> "error" -> decapitalise name = name ->
      var_name_for_type (TNamed p name targs) = name ++ "MoqParam") /\
  (forall p name targs, var_name_for_type (TSlice (TNamed p name targs)) =
      var_name_for_type (TNamed p name targs) ++ "s") /\
  (forall n k u, var_name_for_type (TSlice (TBasic n k u)) = decapitalise n ++ "s") /\
  (forall n k u len, var_name_for_type (TArray len (TBasic n k u)) = decapitalise n ++ "s") /\
  (forall n1 k1 u1 n2 k2 u2,
      var_name_for_type (TMap (TBasic n1 k1 u1) (TBasic n2 k2 u2)) =
      decapitalise n1 ++ "To" ++ capitalise (decapitalise n2)) /\
  (forall d n k u, var_name_for_type (TChan d (TBasic n k u)) = decapitalise n ++ "Ch") /\
  (forall t, var_name_for_type (TPtr t) = var_name_for_type t) /\
  (forall ps v rs, var_name_for_type (TFunc ps v rs) = "fn") /\
  (forall fs, var_name_for_type (TStruct fs) = "val") /\
  (forall k ms es, var_name_for_type (TIface k ms es) = "ifaceVal") /\
  (forall n, var_name_for_type (TParam n) = "v").
Proof.
  repeat split; intros; try reflexivity.
  - simpl. destruct (String.eqb name "error") eqn:E.
    + apply String.eqb_eq in E. contradiction.
    + destruct (String.eqb (decapitalise name) name) eqn:E2.
      * apply String.eqb_eq in E2. contradiction.
      * reflexivity.
  - simpl. destruct (String.eqb name "error") eqn:E.
    + apply String.eqb_eq in E. contradiction.
    + rewrite H0. rewrite String.eqb_refl. reflexivity.
Qed.

(* a derived name is never empty (so capitalise / [:1] in the Go code is in range) *)
Lemma append_nonempty_r a b : b <> "" -> (a ++ b)%string <> "".
Proof. destruct a; simpl; [auto|discriminate]. Qed.

(* ---- a user-written name is kept verbatim when it collides with nothing ---- *)

Theorem C13_user_name_verbatim (name suffix : string) (t : ty) :
  name <> "" -> name <> "_" ->
  (name ++ suffix)%string <> "mock" -> (name ++ suffix)%string <> "callInfo" ->
  var_name name t suffix = (name ++ suffix)%string.
Proof.
  intros H1 H2 H3 H4. unfold var_name, var_name_with.
  destruct (String.eqb name "") eqn:E1; [apply String.eqb_eq in E1; contradiction|].
  destruct (String.eqb name "_") eqn:E2; [apply String.eqb_eq in E2; contradiction|].
  cbn [negb andb].
  destruct (String.eqb_spec (name ++ suffix) "mock"); [contradiction|].
  destruct (String.eqb_spec (name ++ suffix) "callInfo"); [contradiction|]. reflexivity.
Qed.

(* the two names the generated body declares itself are the only user names that change *)
Theorem C13_user_name_body_idents (t : ty) :
  var_name "mock" t "" = "mockMoqParam" /\ var_name "callInfo" t "" = "callInfoMoqParam".
Proof. split; reflexivity. Qed.

Lemma nth_error_app_last {A} (l : list A) (x : A) : nth_error (l ++ [x]) (List.length l) = Some x.
Proof. induction l; simpl; auto. Qed.

(* AddVar at allocation time: if the name is not an import qualifier, names no variable
   already in the scope (after the import-driven renames) and is not a conflicted stem,
   the allocated variable carries exactly the user's name *)
Theorem C13_kept_partial (cfg : rcfg) (r r1 r' : registry) (sc sc' : scope)
        (name : string) (t : ty) (imps : list (string * bool)) (idx : nat) :
  name <> "" -> name <> "_" -> name <> "mock" -> name <> "callInfo" ->
  populate cfg r (refs t) [] = Ok (r1, imps) ->
  search_import r1 name = None ->
  has_var (rename_for_imports (sc_vars sc) (var_quals r1 imps)) name = false ->
  str_mem name (sc_conflicted sc) = false ->
  add_var cfg r sc name t "" = Ok (r', sc', idx) ->
  exists v, nth_error (sc_vars sc') idx = Some v /\ v_name v = name /\ v_ty v = t.
Proof.
  intros N1 N2 N3 N4 HP HS HV HC. unfold add_var. rewrite HP. simpl.
  assert (E : (name ++ "")%string = name).
  { clear. induction name; simpl; [reflexivity|f_equal; assumption]. }
  rewrite (C13_user_name_verbatim name "" t N1 N2) by (rewrite E; assumption).
  rewrite E. rewrite HS. rewrite HV, HC. simpl.
  intros H. inversion H; subst. eexists. split; [apply nth_error_app_last|]. split; reflexivity.
Qed.
