(* P_C06.v -- C06: no internal lock is held while user code runs; no deadlock. *)
From Moq Require Import Strs MockSem MockSpec MockSeq_Proofs MockConc MockConc_Proofs.
Local Open Scope list_scope.

Theorem C06_callback_holds_no_lock grow mk progs s tr t x :
  disciplined mk = true ->
  reach grow mk (cinit progs) s tr -> in_user_code (cs_thr s t) ->
  rw_w (cs_lock s x) <> Some t /\ ~ In t (rw_r (cs_lock s x)).
Proof. intros D. exact (C06_no_lock_in_callback grow mk D progs s tr t x). Qed.

Theorem C06_never_two_locks grow mk progs s tr t x y :
  disciplined mk = true ->
  reach grow mk (cinit progs) s tr ->
  (rw_w (cs_lock s x) = Some t \/ In t (rw_r (cs_lock s x))) ->
  (rw_w (cs_lock s y) = Some t \/ In t (rw_r (cs_lock s y))) -> x = y.
Proof. intros D. exact (C06_one_lock_at_a_time grow mk D progs s tr t x y). Qed.

(* no reachable state is a deadlock, and threads parked for ever inside callbacks (the
   set B) block nobody else *)
Theorem C06_deadlock_free grow mk progs s tr (B : nat -> Prop) u :
  disciplined mk = true ->
  (forall t, forallb (op_okb mk) (progs t) = true) ->
  reach grow mk (cinit progs) s tr ->
  (forall t, B t -> in_user_code (cs_thr s t)) ->
  ~ B u -> ~ finished (cs_thr s u) ->
  exists t s' e, ~ B t /\ step grow mk s t s' e.
Proof.
  intros D OK R BU NB NF.
  assert (CI : CInv s) by (eapply reach_inv; [exact D|apply cinit_inv|exact R]).
  assert (WI : WInv mk s).
  { clear - R OK D. induction R; [apply winit; exact OK|]. eapply step_winv; eassumption. }
  exact (C06_no_deadlock grow mk s B u CI WI BU NB NF).
Qed.

(* single thread: a function that re-enters the mock (any tree of calls, reads and resets,
   the method itself included) never blocks itself *)
Theorem C06_reentrancy grow stub resets mk l :
  (forall n, n < grow n) -> canonical stub resets mk = true ->
  forallb (wf_op mk resets) l = true ->
  run_ops grow mk l init_state <> None.
Proof.
  intros G CAN WF.
  destruct (refine_ops grow G stub resets mk CAN l WF init_state empty_logs init_inv
                       (fun x => init_abs x)) as [st' [evs [lg' [sevs [R _]]]]].
  rewrite R. discriminate.
Qed.
