(* MockAcct_Proofs.v -- accounting of call records under concurrency (C05): for every mock
   accepted by [canonical], in every reachable state of the interleaving semantics, the
   records a thread has appended are exactly the records of the calls it has started, in
   program order, each equal to the arguments of its call (built thread-locally before the
   lock is taken), except for at most one call that has not reached its append yet. *)
From Moq Require Import Strs MockSem MockSpec MockSeq_Proofs MockConc MockConc_Proofs.
From Coq Require Import Lia.
Local Open Scope list_scope.

Definition is_append (i : instr) : bool := match i with IAppend _ => true | _ => false end.
Definition is_build (i : instr) : bool := match i with IBuildRec _ => true | _ => false end.
Definition is_nilpanic (i : instr) : bool := match i with INilPanic _ _ => true | _ => false end.
Definition is_call (i : instr) : bool := match i with ICall _ _ _ => true | _ => false end.

Definition suffix {A} (s l : list A) : Prop := exists pre, l = pre ++ s.

Lemma suffix_tail {A} (x : A) s l : suffix (x :: s) l -> suffix s l.
Proof. intros [pre E]. exists (pre ++ [x]). rewrite <- app_assoc. exact E. Qed.
Lemma suffix_refl {A} (l : list A) : suffix l l.
Proof. exists []. reflexivity. Qed.

Ltac next_instr H body :=
  destruct body as [|?i body]; [simpl in H; discriminate H|];
  match goal with i : instr |- _ => destruct i; simpl in H; try discriminate H end.

Lemma canonical_calls_inv mm b :
  canonical_calls mm b = true ->
  b = [IDeclCalls; IRLock (mm_name mm); ILoad (mm_name mm); IRUnlock (mm_name mm); IRetLoaded].
Proof.
  intros H. unfold canonical_calls in H.
  next_instr H b. next_instr H b. next_instr H b. next_instr H b. next_instr H b.
  destruct b; [|discriminate H].
  repeat (apply andb_prop in H; destruct H as [H ?]).
  repeat match goal with E : String.eqb _ _ = true |- _ => apply String.eqb_eq in E; subst end.
  reflexivity.
Qed.

Lemma canonical_reset_inv m b :
  canonical_reset m b = true -> b = [ILock m; ISetNil m; IUnlock m].
Proof.
  intros H. unfold canonical_reset in H.
  next_instr H b. next_instr H b. next_instr H b. destruct b; [|discriminate H].
  repeat (apply andb_prop in H; destruct H as [H ?]).
  repeat match goal with E : String.eqb _ _ = true |- _ => apply String.eqb_eq in E; subst end.
  reflexivity.
Qed.

Section Acct.
Variable grow : nat -> nat.
Variables stub resets : bool.
Variable mk : mmock.
Hypothesis CAN : canonical stub resets mk = true.

Definition recording (f : option impl) : bool :=
  stub || match f with Some _ => true | None => false end.

(* the explicit shape of a canonical body *)
Definition core_of (mm : mmethod) (fs : list (string * nat)) : list instr :=
  [IBuildRec fs; ILock (mm_name mm); IAppend (mm_name mm); IUnlock (mm_name mm)].
Definition call_of (mm : mmethod) (spec : list (nat * bool)) : instr :=
  ICall (mm_name mm) spec (negb (Nat.eqb (mm_nresults mm) 0)).
Definition body_of (mm : mmethod) (msg : string) fs spec : list instr :=
  if stub then core_of mm fs ++ [INilRetZero (mm_name mm) (mm_nresults mm); call_of mm spec]
  else INilPanic (mm_name mm) msg :: core_of mm fs ++ [call_of mm spec].

(* a frame executing a method body M: where it is, and what it has computed so far *)
Definition call_frame (mm : mmethod) (args : list val) (f : option impl) (rest : list instr) (lc : locals)
  : Prop :=
  exists msg fs spec,
    suffix rest (body_of mm msg fs spec) /\
    canonical_fields mm fs = true /\
    find_method mk (mm_name mm) = Some mm /\
    List.length args = mm_nparams mm /\
    (existsb is_build rest = false -> lc_rec lc = rec_of mm args) /\
    (stub = false -> existsb is_nilpanic rest = false -> f <> None).

Definition cb_ok (f : option impl) : Prop :=
  match f with Some (Impl cb _) => forallb (wf_op mk resets) cb = true | None => True end.

Definition frame_canon (fr : frame) : Prop :=
  match fr with
  | FUser ops _ => forallb (wf_op mk resets) ops = true
  | FBody mm args f rest lc _ =>
    cb_ok f /\
    (call_frame mm args f rest lc \/
     (existsb is_append rest = false /\ existsb is_call rest = false))
  end.

(* frames under the top one: suspended at their call, with nothing left to run *)
Fixpoint below_canon (st : list frame) : Prop :=
  match st with
  | [] => True
  | FUser ops _ :: r => forallb (wf_op mk resets) ops = true /\ below_canon r
  | FBody _ _ f rest _ _ :: r => rest = [] /\ cb_ok f /\ below_canon r
  end.
Definition stack_canon (st : list frame) : Prop :=
  match st with
  | [] => True
  | fr :: below => frame_canon fr /\ below_canon below
  end.

(* the record the top activation still owes *)
Definition pending (st : list frame) : list (string * record) :=
  match st with
  | FBody mm args f rest _ _ :: _ =>
    if existsb is_append rest && recording f then [(mm_name mm, rec_of mm args)] else []
  | _ => []
  end.

Fixpoint appended (t : nat) (tr : list lin) : list (string * record) :=
  match tr with
  | [] => []
  | LinAppend t' m r :: rest => if Nat.eqb t' t then (m, r) :: appended t rest else appended t rest
  | _ :: rest => appended t rest
  end.

Definition expect_of (t : nat) (e : lin) : list (string * record) :=
  match e with
  | LinStart t' (OCall m args f) =>
    if Nat.eqb t' t && recording f
    then match find_method mk m with Some mm => [(m, rec_of mm args)] | None => [] end
    else []
  | _ => []
  end.
Fixpoint expected (t : nat) (tr : list lin) : list (string * record) :=
  match tr with [] => [] | e :: rest => expect_of t e ++ expected t rest end.

Lemma appended_snoc t tr e :
  appended t (tr ++ [e]) =
  appended t tr ++ match e with LinAppend t' m r => if Nat.eqb t' t then [(m, r)] else [] | _ => [] end.
Proof.
  induction tr as [|x tr IH]; simpl.
  - destruct e; reflexivity.
  - destruct x; try exact IH. destruct (Nat.eqb t0 t); [simpl; rewrite IH; reflexivity|exact IH].
Qed.
Lemma expected_snoc t tr e : expected t (tr ++ [e]) = expected t tr ++ expect_of t e.
Proof. induction tr as [|x tr IH]; simpl; [apply app_nil_r|]. rewrite IH, app_assoc. reflexivity. Qed.

Record AInv (s : cstate) (tr : list lin) : Prop := mkAInv {
  ai_stack : forall t, stack_canon (cs_thr s t);
  ai_acct : forall t, expected t tr = appended t tr ++ pending (cs_thr s t) }.

(* ---------- facts about canonical bodies ---------- *)

Lemma body_has_append mm msg fs spec : existsb is_append (body_of mm msg fs spec) = true.
Proof. unfold body_of. destruct stub; reflexivity. Qed.

Lemma canonical_method_body m mm :
  find_method mk m = Some mm ->
  mm_name mm = m /\
  exists body msg fs spec, mm_body mm = Some body /\ body = body_of mm msg fs spec /\
                           canonical_fields mm fs = true.
Proof.
  intros FM. destruct (find_method_canonical stub resets mk CAN m mm FM) as [CM NAME].
  split; [exact NAME|]. unfold canonical_method in CM. repeat (apply andb_prop in CM; destruct CM as [CM ?]).
  destruct (mm_body mm) as [body|]; [|discriminate].
  match goal with H : canonical_body _ _ _ = true |- _ =>
    destruct (canonical_body_inv _ _ _ H) as [msg [fs [spec [B [CF _]]]]] end.
  cbn zeta in B. exists body, msg, fs, spec. split; [reflexivity|]. split; [|exact CF].
  rewrite B. unfold body_of, core_of, call_of. destruct stub; reflexivity.
Qed.

Lemma other_bodies_quiet o fr :
  enter mk o = Some fr ->
  match o with OCall _ _ _ => True | _ =>
    match fr with
    | FBody _ _ f rest _ _ => f = None /\ existsb is_append rest = false /\ existsb is_call rest = false
    | FUser _ _ => False
    end
  end.
Proof.
  destruct o as [m args f|m|m|]; [trivial| | |]; cbn [enter]; intros E.
  - destruct (find_method mk m) as [mm|] eqn:FM; [|discriminate].
    destruct (mm_calls mm) as [b|] eqn:MC; [|discriminate]. inversion E; subst.
    destruct (find_method_canonical stub resets mk CAN m mm FM) as [CM _].
    unfold canonical_method in CM. repeat (apply andb_prop in CM; destruct CM as [CM ?]).
    rewrite MC in *.
    match goal with H : canonical_calls mm b = true |- _ => rewrite (canonical_calls_inv _ _ H) end.
    repeat split; reflexivity.
  - destruct (find_method mk m) as [mm|] eqn:FM; [|discriminate].
    destruct (mm_reset mm) as [b|] eqn:MR; [|discriminate]. inversion E; subst.
    destruct (find_method_canonical stub resets mk CAN m mm FM) as [CM _].
    unfold canonical_method in CM. repeat (apply andb_prop in CM; destruct CM as [CM ?]).
    rewrite MR in *.
    match goal with H : _ && canonical_reset _ _ = true |- _ => apply andb_prop in H; destruct H as [_ H] end.
    rewrite (canonical_reset_inv _ _ H). repeat split; reflexivity.
  - destruct (mo_reset_all mk) as [b|] eqn:RA; [|discriminate]. inversion E; subst.
    pose proof CAN as C0. unfold canonical in C0. repeat (apply andb_prop in C0; destruct C0 as [C0 ?]).
    rewrite RA in *.
    match goal with H : _ && canonical_reset_all _ _ = true |- _ => apply andb_prop in H; destruct H as [_ H] end.
    split; [reflexivity|].
    match goal with H : canonical_reset_all ?ms b = true |- _ => revert H; generalize ms end.
    clear. intros ms. revert b. induction ms as [|m ms IH]; intros b H.
    + destruct b; [split; reflexivity|discriminate].
    + cbn [canonical_reset_all] in H.
      destruct b as [|[] b]; try discriminate. destruct b as [|[] b]; try discriminate.
      destruct b as [|[] b]; try discriminate.
      repeat (apply andb_prop in H; destruct H as [H ?]).
      match goal with E : canonical_reset_all ms b = true |- _ => destruct (IH _ E) as [A B] end.
      split; simpl; assumption.
Qed.


Lemma ainv_update s tr t st' e h hd lk :
  AInv s tr ->
  (forall t', t' <> t ->
     expect_of t' e = [] /\
     match e with LinAppend t0 _ _ => Nat.eqb t0 t' | _ => false end = false) ->
  stack_canon st' ->
  pending (cs_thr s t) ++ expect_of t e =
    match e with LinAppend t0 m r => if Nat.eqb t0 t then [(m, r)] else [] | _ => [] end ++ pending st' ->
  AInv (mkCs h hd lk (tupd (cs_thr s) t st')) (tr ++ [e]).
Proof.
  intros [SC AC] OTHER SC' EQ. split; cbn [cs_thr].
  - intros t'. destruct (Nat.eq_dec t' t) as [->|NE]; [rewrite tupd_same; exact SC'|].
    rewrite tupd_other by exact NE. apply SC.
  - intros t'. rewrite expected_snoc, appended_snoc.
    destruct (Nat.eq_dec t' t) as [->|NE].
    + rewrite tupd_same. rewrite AC. rewrite <- !app_assoc. f_equal. exact EQ.
    + rewrite tupd_other by exact NE. destruct (OTHER t' NE) as [E1 E2]. rewrite E1, app_nil_r.
      rewrite AC. f_equal.
      destruct e; try (rewrite app_nil_r; reflexivity). rewrite E2. rewrite app_nil_r. reflexivity.
Qed.

Lemma below_canon_stack st : below_canon st -> stack_canon st.
Proof.
  destruct st as [|[mm args f rest lc md|ops res] below]; cbn [below_canon stack_canon frame_canon]; try tauto.
  intros [-> [CB B]]. split; [|exact B]. split; [exact CB|]. right. split; reflexivity.
Qed.
Lemma below_canon_tail fr st : below_canon (fr :: st) -> below_canon st.
Proof. destruct fr; cbn [below_canon]; tauto. Qed.
Lemma below_canon_pending st : below_canon st -> pending st = [].
Proof.
  destruct st as [|[mm args f rest lc md|ops res] below]; cbn [below_canon pending]; try reflexivity.
  intros [-> _]. reflexivity.
Qed.

(* a quiet frame (accessor, reset) stays quiet and owes nothing *)
Lemma quiet_tail i rest :
  existsb is_append (i :: rest) = false /\ existsb is_call (i :: rest) = false ->
  existsb is_append rest = false /\ existsb is_call rest = false.
Proof. cbn [existsb]. intros [A B]. apply orb_false_elim in A. apply orb_false_elim in B. tauto. Qed.

Lemma pending_quiet mm args f rest lc md below :
  existsb is_append rest = false -> pending (FBody mm args f rest lc md :: below) = [].
Proof. intros E. cbn [pending]. rewrite E. reflexivity. Qed.

Ltac suffix_cases SUF :=
  let pre := fresh "pre" in let E := fresh "E" in
  unfold body_of, core_of, call_of in SUF; destruct stub eqn:?STUB;
  destruct SUF as [pre E]; cbn [app] in E;
  repeat (destruct pre as [|? pre]; cbn [app] in E;
          [try (inversion E; subst; clear E)|first [discriminate E|injection E as ? E; subst]]).

Lemma ainv_same_threads s tr h hd lk :
  AInv s tr -> AInv (mkCs h hd lk (cs_thr s)) (tr ++ [LinNone]).
Proof.
  intros [SC AC]. split; cbn [cs_thr]; [exact SC|].
  intros t. rewrite expected_snoc, appended_snoc. cbn [expect_of]. rewrite !app_nil_r. apply AC.
Qed.

Lemma call_frame_advance mm args f i rest lc lc' :
  call_frame mm args f (i :: rest) lc ->
  match i with
  | IBuildRec fields => lc_rec lc' = map (fun '(n, k) => (n, nth k args zero_val)) fields
  | _ => lc_rec lc' = lc_rec lc
  end ->
  (is_nilpanic i = true -> f <> None) ->
  call_frame mm args f rest lc'.
Proof.
  intros (msg & fs & spec & SUF & CF & FM & LEN & REC & NIL) LC NP.
  exists msg, fs, spec. split; [eapply suffix_tail; exact SUF|]. split; [exact CF|]. split; [exact FM|].
  split; [exact LEN|]. split.
  - intros NB. destruct (is_build i) eqn:IB.
    + destruct i; try discriminate IB. rewrite LC.
      assert (fields = fs).
      { clear - SUF. suffix_cases SUF; reflexivity. }
      subst fields. apply (canonical_record mm fs args CF LEN).
    + assert (lc_rec lc' = lc_rec lc) as -> by (destruct i; try exact LC; discriminate IB).
      apply REC. cbn [existsb]. rewrite IB, NB. reflexivity.
  - intros NS NN. destruct (is_nilpanic i) eqn:IP; [apply NP; reflexivity|].
    apply (NIL NS). cbn [existsb]. rewrite IP, NN. reflexivity.
Qed.


(* what a frame looks like after executing an instruction that is neither an append nor a
   call nor a return: still a frame of the same kind, owing the same record *)
Lemma frame_advance mm args f i rest lc lc' md md' below :
  frame_canon (FBody mm args f (i :: rest) lc md) ->
  is_append i = false -> is_call i = false ->
  match i with
  | IBuildRec fields => lc_rec lc' = map (fun '(n, k) => (n, nth k args zero_val)) fields
  | _ => lc_rec lc' = lc_rec lc
  end ->
  (is_nilpanic i = true -> f <> None) ->
  frame_canon (FBody mm args f rest lc' md') /\
  pending (FBody mm args f rest lc' md' :: below) = pending (FBody mm args f (i :: rest) lc md :: below).
Proof.
  intros [CB K] NA NC LC NP. split.
  - split; [exact CB|]. destruct K as [K|K].
    + left. eapply call_frame_advance; eassumption.
    + right. apply quiet_tail in K. exact K.
  - cbn [pending existsb]. rewrite NA. reflexivity.
Qed.

Theorem step_ainv s t s' e tr :
  AInv s tr -> step grow mk s t s' e -> AInv s' (tr ++ [e]).
Proof.
  intros INV ST. pose proof (ai_stack _ _ INV t) as SK.
  assert (OTHER_NONE : forall t', t' <> t -> expect_of t' LinNone = [] /\ false = false) by (intros; split; reflexivity).
  inversion ST; subst; clear ST;
    match goal with HS : cs_thr s t = _ |- _ => rename HS into HT; rewrite HT in SK end;
    cbn [stack_canon] in SK; destruct SK as [FC BC].
  - (* start *)
    cbn [frame_canon forallb] in FC. apply andb_prop in FC. destruct FC as [WF WFS].
    match goal with HE : enter mk o = Some fr |- _ => rename HE into EN end.
    unfold set_thr. apply ainv_update; [exact INV| | |].
    + intros t' NE. split; [|reflexivity]. cbn [expect_of]. destruct o; try reflexivity.
      destruct (Nat.eqb_spec t t'); [congruence|reflexivity].
    + cbn [stack_canon below_canon]. split; [|split; assumption].
      destruct o as [m args f|m|m|].
      * cbn [enter] in EN. cbn [wf_op] in WF. destruct (find_method mk m) as [mm|] eqn:FM; [|discriminate].
        apply andb_prop in WF. destruct WF as [LEN WCB]. apply Nat.eqb_eq in LEN.
        destruct (canonical_method_body m mm FM) as [NAME (body & msg & fs & spec & MB & BE & CF)].
        rewrite MB in EN. inversion EN; subst fr. cbn [frame_canon]. split.
        -- destruct f as [[cb0 res0]|]; cbn [cb_ok]; [exact WCB|exact I].
        -- left. exists msg, fs, spec. rewrite <- BE. split; [apply suffix_refl|]. split; [exact CF|].
           split; [rewrite NAME; exact FM|]. split; [exact LEN|]. split.
           ++ intros NB. exfalso. rewrite BE in NB. unfold body_of, core_of in NB. destruct stub; discriminate NB.
           ++ intros NS NN. exfalso. rewrite BE in NN. unfold body_of in NN. rewrite NS in NN. discriminate NN.
      * pose proof (other_bodies_quiet _ _ EN) as Q. cbn beta iota in Q.
        destruct fr as [mm args f rest lc md|]; [|contradiction]. destruct Q as [-> [A B]].
        cbn [frame_canon cb_ok]. split; [exact I|right; split; assumption].
      * pose proof (other_bodies_quiet _ _ EN) as Q. cbn beta iota in Q.
        destruct fr as [mm args f rest lc md|]; [|contradiction]. destruct Q as [-> [A B]].
        cbn [frame_canon cb_ok]. split; [exact I|right; split; assumption].
      * pose proof (other_bodies_quiet _ _ EN) as Q. cbn beta iota in Q.
        destruct fr as [mm args f rest lc md|]; [|contradiction]. destruct Q as [-> [A B]].
        cbn [frame_canon cb_ok]. split; [exact I|right; split; assumption].
    + rewrite HT. cbn [pending app]. destruct o as [m args f|m|m|].
      * cbn [enter] in EN. cbn [expect_of]. rewrite Nat.eqb_refl. cbn [andb].
        destruct (find_method mk m) as [mm|] eqn:FM; [|discriminate].
        destruct (canonical_method_body m mm FM) as [NAME (body & msg & fs & spec & MB & BE & CF)].
        rewrite MB in EN. inversion EN; subst fr. cbn [pending]. rewrite BE, body_has_append. cbn [andb].
        rewrite NAME. destruct (recording f); reflexivity.
      * pose proof (other_bodies_quiet _ _ EN) as Q. cbn beta iota in Q.
        destruct fr as [mm args f rest lc md|]; [|contradiction]. destruct Q as [_ [A _]].
        cbn [expect_of pending]. rewrite A. reflexivity.
      * pose proof (other_bodies_quiet _ _ EN) as Q. cbn beta iota in Q.
        destruct fr as [mm args f rest lc md|]; [|contradiction]. destruct Q as [_ [A _]].
        cbn [expect_of pending]. rewrite A. reflexivity.
      * pose proof (other_bodies_quiet _ _ EN) as Q. cbn beta iota in Q.
        destruct fr as [mm args f rest lc md|]; [|contradiction]. destruct Q as [_ [A _]].
        cbn [expect_of pending]. rewrite A. reflexivity.
  - (* user code returns *)
    unfold set_thr. apply ainv_update; [exact INV|exact OTHER_NONE|apply below_canon_stack; exact BC|].
    rewrite HT. rewrite (below_canon_pending _ BC). reflexivity.
  - (* user code panics *)
    apply below_canon_tail in BC.
    unfold set_thr. apply ainv_update; [exact INV|exact OTHER_NONE|apply below_canon_stack; exact BC|].
    rewrite HT. rewrite (below_canon_pending _ BC). reflexivity.
  - (* body end *)
    unfold set_thr. apply ainv_update; [exact INV|exact OTHER_NONE|apply below_canon_stack; exact BC|].
    rewrite HT. rewrite (below_canon_pending _ BC). reflexivity.
  - (* nil panic, function nil *)
    unfold set_thr. apply ainv_update; [exact INV|exact OTHER_NONE|apply below_canon_stack; exact BC|].
    rewrite HT. rewrite (below_canon_pending _ BC). cbn [expect_of app]. rewrite app_nil_r.
    cbn [pending]. destruct FC as [_ [(msg0 & fs & spec & SUF & _)|[A _]]].
    + assert (stub = false) as NS by (clear - SUF; suffix_cases SUF; reflexivity).
      unfold recording. rewrite NS. cbn [orb]. rewrite andb_false_r. reflexivity.
    + rewrite A. reflexivity.
  - (* nil panic, function set *)
    destruct (frame_advance _ _ _ _ _ lc lc md md below FC eq_refl eq_refl eq_refl) as [F P]; [discriminate|].
    unfold set_thr. apply ainv_update; [exact INV|exact OTHER_NONE|split; assumption|].
    rewrite HT, P. cbn [expect_of app]. apply app_nil_r.
  - (* build the record *)
    destruct (frame_advance _ _ _ _ _ lc
                (mkLoc (map (fun '(n, i) => (n, nth i args zero_val)) fields) (lc_loaded lc)) md md below
                FC eq_refl eq_refl eq_refl) as [F P]; [discriminate|].
    unfold set_thr. apply ainv_update; [exact INV|exact OTHER_NONE|split; assumption|].
    rewrite HT, P. cbn [expect_of app]. apply app_nil_r.
  - (* lock announce: no thread moves *)
    unfold set_lk. apply ainv_same_threads. exact INV.
  - (* lock acquire *)
    destruct (frame_advance _ _ _ _ _ lc lc MNone (MW x) below FC eq_refl eq_refl eq_refl) as [F P]; [discriminate|].
    unfold set_thr, set_lk. cbn [cs_heap cs_hdr cs_lock cs_thr].
    apply ainv_update; [exact INV|exact OTHER_NONE|split; assumption|].
    rewrite HT, P. cbn [expect_of app]. apply app_nil_r.
  - (* unlock *)
    destruct (frame_advance _ _ _ _ _ lc lc (MW x) MNone below FC eq_refl eq_refl eq_refl) as [F P]; [discriminate|].
    unfold set_thr, set_lk. cbn [cs_heap cs_hdr cs_lock cs_thr].
    apply ainv_update; [exact INV|exact OTHER_NONE|split; assumption|].
    rewrite HT, P. cbn [expect_of app]. apply app_nil_r.
  - (* rlock *)
    destruct (frame_advance _ _ _ _ _ lc lc MNone (MR x) below FC eq_refl eq_refl eq_refl) as [F P]; [discriminate|].
    unfold set_thr, set_lk. cbn [cs_heap cs_hdr cs_lock cs_thr].
    apply ainv_update; [exact INV|exact OTHER_NONE|split; assumption|].
    rewrite HT, P. cbn [expect_of app]. apply app_nil_r.
  - (* runlock *)
    destruct (frame_advance _ _ _ _ _ lc lc (MR x) MNone below FC eq_refl eq_refl eq_refl) as [F P]; [discriminate|].
    unfold set_thr, set_lk. cbn [cs_heap cs_hdr cs_lock cs_thr].
    apply ainv_update; [exact INV|exact OTHER_NONE|split; assumption|].
    rewrite HT, P. cbn [expect_of app]. apply app_nil_r.
  - (* append: the one linearisation point of a call *)
    destruct FC as [CB [(msg & fs & spec & SUF & CF & FM & LEN & REC & NIL)|[A _]]]; [|discriminate A].
    assert (FACTS : x = mm_name mm /\ existsb is_append rest = false /\ existsb is_build (IAppend x :: rest) = false
                    /\ (stub = false -> existsb is_nilpanic (IAppend x :: rest) = false)).
    { clear - SUF. suffix_cases SUF; repeat split; try reflexivity; intros; congruence. }
    destruct FACTS as [-> [NOAPP [NOBUILD NONIL]]].
    apply ainv_update; [exact INV| | |].
    + intros t' NE. split; [reflexivity|]. destruct (Nat.eqb_spec t t'); [congruence|reflexivity].
    + cbn [stack_canon]. split; [|exact BC]. split; [exact CB|]. left.
      exists msg, fs, spec. split; [eapply suffix_tail; exact SUF|]. split; [exact CF|]. split; [exact FM|].
      split; [exact LEN|]. split.
      * intros _. apply REC. exact NOBUILD.
      * intros NS NN. apply (NIL NS). apply (NONIL NS).
    + rewrite HT. cbn [pending existsb is_append orb]. rewrite Nat.eqb_refl. rewrite NOAPP. cbn [andb app expect_of].
      rewrite app_nil_r. rewrite (REC NOBUILD).
      assert (recording f = true) as ->.
      { unfold recording. destruct stub eqn:S; [reflexivity|]. cbn [orb].
        specialize (NIL eq_refl (NONIL eq_refl)). destruct f; [reflexivity|contradiction]. }
      reflexivity.
  - (* set nil *)
    destruct (frame_advance _ _ _ _ _ lc lc md md below FC eq_refl eq_refl eq_refl) as [F P]; [discriminate|].
    apply ainv_update; [exact INV| |split; assumption|].
    + intros t' NE. split; reflexivity.
    + rewrite HT, P. cbn [expect_of app]. apply app_nil_r.
  - (* decl calls *)
    destruct (frame_advance _ _ _ _ _ lc (mkLoc (lc_rec lc) nil_slice) md md below FC eq_refl eq_refl eq_refl)
      as [F P]; [discriminate|].
    unfold set_thr. apply ainv_update; [exact INV|exact OTHER_NONE|split; assumption|].
    rewrite HT, P. cbn [expect_of app]. apply app_nil_r.
  - (* load *)
    destruct (frame_advance _ _ _ _ _ lc (mkLoc (lc_rec lc) (cs_hdr s x)) md md below FC eq_refl eq_refl eq_refl)
      as [F P]; [discriminate|].
    unfold set_thr. apply ainv_update; [exact INV| |split; assumption|].
    + intros t' NE. split; reflexivity.
    + rewrite HT, P. cbn [expect_of app]. apply app_nil_r.
  - (* return the snapshot *)
    unfold set_thr. apply ainv_update; [exact INV|exact OTHER_NONE|apply below_canon_stack; exact BC|].
    rewrite HT. rewrite (below_canon_pending _ BC). cbn [expect_of app]. rewrite app_nil_r.
    cbn [pending]. destruct FC as [_ [(msg0 & fs & spec & SUF & _)|[A _]]].
    + exfalso. clear - SUF. suffix_cases SUF.
    + rewrite A. reflexivity.
  - (* stub: function nil, return zero values *)
    unfold set_thr. apply ainv_update; [exact INV|exact OTHER_NONE|apply below_canon_stack; exact BC|].
    rewrite HT. rewrite (below_canon_pending _ BC). cbn [expect_of app]. rewrite app_nil_r.
    cbn [pending]. destruct FC as [_ [(msg0 & fs & spec & SUF & _)|[A _]]].
    + assert (existsb is_append (INilRetZero x n :: rest) = false) as -> by (clear - SUF; suffix_cases SUF; reflexivity).
      reflexivity.
    + rewrite A. reflexivity.
  - (* stub: function set *)
    destruct (frame_advance _ _ _ _ _ lc lc md md below FC eq_refl eq_refl eq_refl) as [F P]; [discriminate|].
    unfold set_thr. apply ainv_update; [exact INV|exact OTHER_NONE|split; assumption|].
    rewrite HT, P. cbn [expect_of app]. apply app_nil_r.
  - (* invoke the function: its operations go on top of this thread's stack *)
    destruct FC as [CB [(msg & fs & spec0 & SUF & _)|[_ B]]]; [|discriminate B].
    assert (rest = []) as -> by (clear - SUF; suffix_cases SUF; reflexivity).
    unfold set_thr. apply ainv_update; [exact INV|exact OTHER_NONE| |].
    + cbn [stack_canon frame_canon below_canon]. cbn [cb_ok] in CB. split; [exact CB|].
      split; [destruct ret; reflexivity|]. split; [exact CB|exact BC].
    + rewrite HT. cbn [pending existsb is_append orb andb expect_of app]. reflexivity.
  - (* call of a nil function value *)
    unfold set_thr. apply ainv_update; [exact INV|exact OTHER_NONE|apply below_canon_stack; exact BC|].
    rewrite HT. rewrite (below_canon_pending _ BC). cbn [expect_of app]. rewrite app_nil_r.
    cbn [pending]. destruct FC as [_ [(msg0 & fs & spec0 & SUF & _)|[A _]]].
    + assert (existsb is_append (ICall x spec ret :: rest) = false) as -> by (clear - SUF; suffix_cases SUF; reflexivity).
      reflexivity.
    + rewrite A. reflexivity.
Qed.

End Acct.

Section AcctReach.
Variable grow : nat -> nat.
Variables stub resets : bool.
Variable mk : mmock.
Hypothesis CAN : canonical stub resets mk = true.

Lemma ainit progs :
  (forall t, forallb (wf_op mk resets) (progs t) = true) -> AInv stub resets mk (cinit progs) [].
Proof.
  intros WF. split; cbn [cinit cs_thr].
  - intros t. cbn [stack_canon frame_canon below_canon]. split; [apply WF|exact I].
  - intros t. reflexivity.
Qed.

Theorem reach_ainv progs s tr :
  (forall t, forallb (wf_op mk resets) (progs t) = true) ->
  reach grow mk (cinit progs) s tr -> AInv stub resets mk s tr.
Proof.
  intros WF R. induction R; [apply ainit; exact WF|]. eapply step_ainv; eassumption.
Qed.
End AcctReach.

(* all appends to one method, by any thread, in the order they happened *)
Fixpoint appends_of (m : string) (tr : list lin) : list record :=
  match tr with
  | [] => []
  | LinAppend _ x r :: rest => if String.eqb x m then r :: appends_of m rest else appends_of m rest
  | _ :: rest => appends_of m rest
  end.

Lemma fold_lin_apply_no_reset tr lg m :
  resets_of m tr = false -> fold_left lin_apply tr lg m = lg m ++ appends_of m tr.
Proof.
  revert lg. induction tr as [|e tr IH]; intros lg NR; cbn [fold_left appends_of].
  - rewrite app_nil_r. reflexivity.
  - destruct e as [|t x r|t x|t x sl|t o]; cbn [resets_of] in NR; try (apply IH; exact NR).
    + rewrite (IH _ NR). cbn [lin_apply]. unfold log_set. rewrite (String.eqb_sym m x).
      destruct (String.eqb_spec x m) as [->|NE]; [rewrite <- app_assoc; reflexivity|reflexivity].
    + apply orb_false_elim in NR. destruct NR as [NX NR]. rewrite (IH _ NR).
      cbn [lin_apply]. unfold log_set. rewrite (String.eqb_sym m x), NX. reflexivity.
Qed.
