(* Pin_parse_interface_name.v -- the model was written from exactly this source text (tie, see DESIGN 2.4). *)
From Moq Require Import Strs SkeletonPins.
From Moq.gen Require Import Skeletons.
Theorem pin_parse_interface_name : src_parse_interface_name = pinned_parse_interface_name. Proof. reflexivity. Qed.
