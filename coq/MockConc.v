(* MockConc.v -- the generated mock under concurrency: any number of threads, each a
   stack of activations (generated bodies and user callbacks), interleaved one
   instruction at a time over the same heap and headers as MockSem, with one RWMutex per
   method (a pending writer blocks new readers, as Go's sync.RWMutex does).
   Definitions only; the invariants are in MockConc_Proofs.v. *)
From Moq Require Import Strs MockSem.
Local Open Scope list_scope.

(* an RWMutex *)
Record rw := mkRw { rw_w : option nat; rw_r : list nat; rw_p : list nat }.
Definition rw_free : rw := mkRw None [] [].

(* one activation on a thread's stack *)
Inductive frame :=
| FBody (mm : mmethod) (args : list val) (f : option impl)
        (rest : list instr) (lc : locals) (md : mode)
| FUser (ops : list op) (res : fres).
(* FUser at the bottom of a stack is the test's own goroutine; above a body it is the
   function field running.  A callback that never returns is a FUser frame that is
   simply never scheduled again. *)

Record cstate := mkCs {
  cs_heap : heap;
  cs_hdr : string -> slice;
  cs_lock : string -> rw;
  cs_thr : nat -> list frame }.

Definition fupd {A} (f : string -> A) (k : string) (v : A) : string -> A :=
  fun x => if String.eqb x k then v else f x.
Definition tupd {A} (f : nat -> A) (k : nat) (v : A) : nat -> A :=
  fun x => if Nat.eqb x k then v else f x.

Fixpoint remove_one (t : nat) (l : list nat) : list nat :=
  match l with
  | [] => []
  | x :: r => if Nat.eqb x t then r else x :: remove_one t r
  end.
Definition memb (t : nat) (l : list nat) : bool := existsb (Nat.eqb t) l.

(* the body an operation enters *)
Definition plain_mm (name : string) : mmethod := mkMM name 0 false 0 None None None [] false.
Definition enter (mk : mmock) (o : op) : option frame :=
  match o with
  | OCall m args f =>
    match find_method mk m with
    | Some mm => match mm_body mm with
                 | Some b => Some (FBody mm args f b (mkLoc [] nil_slice) MNone)
                 | None => None
                 end
    | None => None
    end
  | OCalls m =>
    match find_method mk m with
    | Some mm => match mm_calls mm with
                 | Some b => Some (FBody mm [] None b (mkLoc [] nil_slice) MNone)
                 | None => None
                 end
    | None => None
    end
  | OReset m =>
    match find_method mk m with
    | Some mm => match mm_reset mm with
                 | Some b => Some (FBody (plain_mm m) [] None b (mkLoc [] nil_slice) MNone)
                 | None => None
                 end
    | None => None
    end
  | OResetAll =>
    match mo_reset_all mk with
    | Some b => Some (FBody (plain_mm "") [] None b (mkLoc [] nil_slice) MNone)
    | None => None
    end
  end.

(* memory accesses of generated code, for the race statement *)
Inductive access := AWriteHdr (m : string) | AReadHdr (m : string).
Definition next_access (st : list frame) : option access :=
  match st with
  | FBody _ _ _ (IAppend x :: _) _ _ :: _ => Some (AWriteHdr x)
  | FBody _ _ _ (ISetNil x :: _) _ _ :: _ => Some (AWriteHdr x)
  | FBody _ _ _ (ILoad x :: _) _ _ :: _ => Some (AReadHdr x)
  | _ => None
  end.
Definition conflicting (a b : access) : bool :=
  match a, b with
  | AWriteHdr x, AWriteHdr y => String.eqb x y
  | AWriteHdr x, AReadHdr y => String.eqb x y
  | AReadHdr x, AWriteHdr y => String.eqb x y
  | AReadHdr _, AReadHdr _ => false
  end.

(* what a step does to the abstract logs, for linearisation *)
Inductive lin :=
| LinNone
| LinAppend (t : nat) (m : string) (r : record)
| LinReset (t : nat) (m : string)
| LinSnapshot (t : nat) (m : string) (s : slice)
| LinStart (t : nat) (o : op).        (* ghost: thread t's user code begins operation o *)

Section Step.
Variable grow : nat -> nat.
Variable mk : mmock.

Definition set_thr (s : cstate) (t : nat) (st : list frame) : cstate :=
  mkCs (cs_heap s) (cs_hdr s) (cs_lock s) (tupd (cs_thr s) t st).
Definition set_lk (s : cstate) (x : string) (l : rw) : cstate :=
  mkCs (cs_heap s) (cs_hdr s) (fupd (cs_lock s) x l) (cs_thr s).

(* step s t s' e: thread t takes one step *)
Inductive step (s : cstate) (t : nat) : cstate -> lin -> Prop :=
(* user code starts an operation on the mock *)
| StStart o ops res below fr :
    cs_thr s t = FUser (o :: ops) res :: below -> enter mk o = Some fr ->
    step s t (set_thr s t (fr :: FUser ops res :: below)) (LinStart t o)
(* the function field returns (or panics) into the body that called it *)
| StUserRet rs b below :
    cs_thr s t = FUser [] (FRet rs) :: b :: below ->
    step s t (set_thr s t (b :: below)) LinNone
| StUserPanic v b below :
    cs_thr s t = FUser [] (FPanic v) :: b :: below ->
    step s t (set_thr s t below) LinNone
(* a body that ran to its end returns to its caller *)
| StBodyEnd mm args f lc md below :
    cs_thr s t = FBody mm args f [] lc md :: below ->
    step s t (set_thr s t below) LinNone
| StNilPanicNil mm args x msg rest lc md below :
    cs_thr s t = FBody mm args None (INilPanic x msg :: rest) lc md :: below ->
    step s t (set_thr s t below) LinNone
| StNilPanicSet mm args i x msg rest lc md below :
    cs_thr s t = FBody mm args (Some i) (INilPanic x msg :: rest) lc md :: below ->
    step s t (set_thr s t (FBody mm args (Some i) rest lc md :: below)) LinNone
| StBuildRec mm args f fields rest lc md below :
    cs_thr s t = FBody mm args f (IBuildRec fields :: rest) lc md :: below ->
    step s t (set_thr s t
                (FBody mm args f rest
                       (mkLoc (map (fun '(n, i) => (n, nth i args zero_val)) fields) (lc_loaded lc)) md
                 :: below)) LinNone
(* Lock: announce, then acquire when there is neither a writer nor a reader *)
| StLockAnnounce mm args f x rest lc below :
    cs_thr s t = FBody mm args f (ILock x :: rest) lc MNone :: below ->
    memb t (rw_p (cs_lock s x)) = false ->
    step s t (set_lk s x (mkRw (rw_w (cs_lock s x)) (rw_r (cs_lock s x)) (t :: rw_p (cs_lock s x)))) LinNone
| StLockAcquire mm args f x rest lc below :
    cs_thr s t = FBody mm args f (ILock x :: rest) lc MNone :: below ->
    memb t (rw_p (cs_lock s x)) = true ->
    rw_w (cs_lock s x) = None -> rw_r (cs_lock s x) = [] ->
    step s t (set_thr (set_lk s x (mkRw (Some t) [] (remove_one t (rw_p (cs_lock s x)))))
                      t (FBody mm args f rest lc (MW x) :: below)) LinNone
| StUnlock mm args f x rest lc below :
    cs_thr s t = FBody mm args f (IUnlock x :: rest) lc (MW x) :: below ->
    step s t (set_thr (set_lk s x (mkRw None (rw_r (cs_lock s x)) (rw_p (cs_lock s x))))
                      t (FBody mm args f rest lc MNone :: below)) LinNone
(* RLock: blocked by a writer and by a pending writer *)
| StRLock mm args f x rest lc below :
    cs_thr s t = FBody mm args f (IRLock x :: rest) lc MNone :: below ->
    rw_w (cs_lock s x) = None -> rw_p (cs_lock s x) = [] ->
    step s t (set_thr (set_lk s x (mkRw None (t :: rw_r (cs_lock s x)) []))
                      t (FBody mm args f rest lc (MR x) :: below)) LinNone
| StRUnlock mm args f x rest lc below :
    cs_thr s t = FBody mm args f (IRUnlock x :: rest) lc (MR x) :: below ->
    step s t (set_thr (set_lk s x (mkRw (rw_w (cs_lock s x)) (remove_one t (rw_r (cs_lock s x)))
                                        (rw_p (cs_lock s x))))
                      t (FBody mm args f rest lc MNone :: below)) LinNone
(* the three accesses to mock.calls.M *)
| StAppend mm args f x rest lc md below h' sl' :
    cs_thr s t = FBody mm args f (IAppend x :: rest) lc md :: below ->
    go_append grow (cs_heap s) (cs_hdr s x) (lc_rec lc) = (h', sl') ->
    step s t (mkCs h' (fupd (cs_hdr s) x sl') (cs_lock s)
                   (tupd (cs_thr s) t (FBody mm args f rest lc md :: below)))
         (LinAppend t x (lc_rec lc))
| StSetNil mm args f x rest lc md below :
    cs_thr s t = FBody mm args f (ISetNil x :: rest) lc md :: below ->
    step s t (mkCs (cs_heap s) (fupd (cs_hdr s) x nil_slice) (cs_lock s)
                   (tupd (cs_thr s) t (FBody mm args f rest lc md :: below)))
         (LinReset t x)
| StDeclCalls mm args f rest lc md below :
    cs_thr s t = FBody mm args f (IDeclCalls :: rest) lc md :: below ->
    step s t (set_thr s t (FBody mm args f rest (mkLoc (lc_rec lc) nil_slice) md :: below)) LinNone
| StLoad mm args f x rest lc md below :
    cs_thr s t = FBody mm args f (ILoad x :: rest) lc md :: below ->
    step s t (set_thr s t (FBody mm args f rest (mkLoc (lc_rec lc) (cs_hdr s x)) md :: below))
         (LinSnapshot t x (cs_hdr s x))
| StRetLoaded mm args f rest lc md below :
    cs_thr s t = FBody mm args f (IRetLoaded :: rest) lc md :: below ->
    step s t (set_thr s t below) LinNone
| StNilRetNil mm args x n rest lc md below :
    cs_thr s t = FBody mm args None (INilRetZero x n :: rest) lc md :: below ->
    step s t (set_thr s t below) LinNone
| StNilRetSet mm args i x n rest lc md below :
    cs_thr s t = FBody mm args (Some i) (INilRetZero x n :: rest) lc md :: below ->
    step s t (set_thr s t (FBody mm args (Some i) rest lc md :: below)) LinNone
(* invoking the function field: the callback runs ON THIS THREAD, above the body *)
| StCall mm args cb res x spec ret rest lc md below :
    cs_thr s t = FBody mm args (Some (Impl cb res)) (ICall x spec ret :: rest) lc md :: below ->
    step s t (set_thr s t (FUser cb res
                           :: FBody mm args (Some (Impl cb res)) (if ret then [] else rest) lc md
                           :: below)) LinNone
(* calling a nil function value: a run-time panic unwinds this activation *)
| StCallNil mm args x spec ret rest lc md below :
    cs_thr s t = FBody mm args None (ICall x spec ret :: rest) lc md :: below ->
    step s t (set_thr s t below) LinNone.

(* reachability under any schedule *)
Inductive reach (s0 : cstate) : cstate -> list lin -> Prop :=
| ReachRefl : reach s0 s0 []
| ReachStep s t s' e tr : reach s0 s tr -> step s t s' e -> reach s0 s' (tr ++ [e]).

End Step.

(* the initial state: a zero-value mock, no lock held, thread t about to run progs t *)
Definition cinit (progs : nat -> list op) : cstate :=
  mkCs [] (fun _ => nil_slice) (fun _ => rw_free) (fun t => [FUser (progs t) (FRet [])]).
