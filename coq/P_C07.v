(* P_C07.v -- C07: unset function: identifying panic by default, zero values with -stub. *)
From Moq Require Import Strs MockSem MockSpec MockSeq_Proofs.
Local Open Scope list_scope.

(* the message the property asks for; the check compares it with the lifted one *)
Definition expected_nil_msg (mock iface m : string) : string :=
  (mock ++ "." ++ m ++ "Func: method is nil but " ++ iface ++ "." ++ m ++ " was just called")%string.

Definition nil_msgs_ok (iface : string) (mk : mmock) : bool :=
  forallb (fun mm => String.eqb (nil_msg mm) (expected_nil_msg (mo_name mk) iface (mm_name mm)))
          (mo_methods mk).

Section C07.
Variable grow : nat -> nat.
Hypothesis grow_grows : forall n, n < grow n.
Variable resets : bool.
Variable mk : mmock.

(* default mode: the call panics with the method's message; nothing is invoked, nothing
   is recorded, the state is untouched -- at any position of any history *)
Theorem C07_panic m mm args st :
  canonical false resets mk = true -> find_method mk m = Some mm ->
  run_op grow mk (OCall m args None) st = Some (st, [EvPanic m (PNil (nil_msg mm))]).
Proof.
  intros CAN FM.
  destruct (find_method_canonical false resets mk CAN m mm FM) as [CM NAME].
  unfold canonical_method in CM. repeat (apply andb_prop in CM; destruct CM as [CM ?]).
  destruct (mm_body mm) as [body|] eqn:MB; [|discriminate].
  rewrite run_op_call, FM, MB.
  rewrite (exec_call_nil_nostub grow mm body args _ st) by assumption.
  rewrite NAME. reflexivity.
Qed.

Theorem C07_panic_names iface :
  nil_msgs_ok iface mk = true -> forall mm, In mm (mo_methods mk) ->
  nil_msg mm = expected_nil_msg (mo_name mk) iface (mm_name mm).
Proof.
  unfold nil_msgs_ok. rewrite forallb_forall. intros H mm IN. apply String.eqb_eq. apply H. exact IN.
Qed.

(* -stub: never a panic; recorded like any other call; zero value of every result *)
Theorem C07_stub m mm args st :
  canonical true resets mk = true -> find_method mk m = Some mm ->
  List.length args = mm_nparams mm -> SInv st ->
  run_op grow mk (OCall m args None) st =
  Some (do_record grow st m (rec_of mm args), [EvReturn m (repeat zero_val (mm_nresults mm))]) /\
  abs (do_record grow st m (rec_of mm args)) m = abs st m ++ [rec_of mm args].
Proof.
  intros CAN FM LEN INV.
  destruct (find_method_canonical true resets mk CAN m mm FM) as [CM NAME].
  unfold canonical_method in CM. repeat (apply andb_prop in CM; destruct CM as [CM ?]).
  destruct (mm_body mm) as [body|] eqn:MB; [|discriminate].
  rewrite run_op_call, FM, MB.
  rewrite (exec_call_nil_stub grow mm body args _ st) by assumption.
  rewrite NAME. split; [reflexivity|].
  apply (do_record_spec grow grow_grows st m (rec_of mm args) INV).
Qed.
End C07.
