(* GoTypes_Proofs.v -- induction over go/types' type constructors (nested lists) and the
   structural heart of "no missing import": the walk that registers imports visits exactly
   the packages the type printer asks a qualifier for. *)
From Moq Require Import Strs GoTypes.
Local Open Scope list_scope.

Section TyInd.
Variable P : ty -> Prop.
Hypothesis Hbasic : forall n k u, P (TBasic n k u).
Hypothesis Hnamed : forall p n targs, Forall P targs -> P (TNamed p n targs).
Hypothesis Halias : forall p n targs, Forall P targs -> P (TAlias p n targs).
Hypothesis Hparam : forall n, P (TParam n).
Hypothesis Hptr : forall t, P t -> P (TPtr t).
Hypothesis Hslice : forall t, P t -> P (TSlice t).
Hypothesis Harray : forall n t, P t -> P (TArray n t).
Hypothesis Hmap : forall k v, P k -> P v -> P (TMap k v).
Hypothesis Hchan : forall d t, P t -> P (TChan d t).
Hypothesis Hfunc : forall ps v rs, Forall (fun x => P (snd x)) ps -> Forall (fun x => P (snd x)) rs ->
                                   P (TFunc ps v rs).
Hypothesis Hstruct : forall fs, Forall (fun x => P (snd (fst x))) fs -> P (TStruct fs).
Hypothesis Hiface : forall k ms es, Forall (fun x => P (snd x)) ms -> Forall P es -> P (TIface k ms es).
Hypothesis Hunion : forall ts, Forall (fun x => P (snd x)) ts -> P (TUnion ts).

Fixpoint ty_ind' (t : ty) : P t :=
  let fl := fix go (l : list ty) : Forall P l :=
    match l with [] => Forall_nil _ | x :: r => Forall_cons x (ty_ind' x) (go r) end in
  let fnl := fix go (l : list (string * ty)) : Forall (fun x => P (snd x)) l :=
    match l with [] => Forall_nil _ | x :: r => Forall_cons x (ty_ind' (snd x)) (go r) end in
  match t with
  | TBasic n k u => Hbasic n k u
  | TNamed p n targs => Hnamed p n targs (fl targs)
  | TAlias p n targs => Halias p n targs (fl targs)
  | TParam n => Hparam n
  | TPtr t => Hptr t (ty_ind' t)
  | TSlice t => Hslice t (ty_ind' t)
  | TArray n t => Harray n t (ty_ind' t)
  | TMap k v => Hmap k v (ty_ind' k) (ty_ind' v)
  | TChan d t => Hchan d t (ty_ind' t)
  | TFunc ps v rs => Hfunc ps v rs (fnl ps) (fnl rs)
  | TStruct fs =>
    Hstruct fs ((fix go (l : list (string * bool * ty * string)) : Forall (fun x => P (snd (fst x))) l :=
                   match l with [] => Forall_nil _ | x :: r => Forall_cons x (ty_ind' (snd (fst x))) (go r) end) fs)
  | TIface k ms es => Hiface k ms es (fnl ms) (fl es)
  | TUnion ts =>
    Hunion ts ((fix go (l : list (bool * ty)) : Forall (fun x => P (snd x)) l :=
                  match l with [] => Forall_nil _ | x :: r => Forall_cons x (ty_ind' (snd x)) (go r) end) ts)
  end.
End TyInd.

(* populateImports visits exactly the packages types.TypeString prints a qualifier for, for
   every type (the guard is the well-formedness of `any`); since the repair of D8 this includes
   unsafe.Pointer and the terms of constraint unions *)
Theorem refs_eq_mentions : forall t, walk_complete t = true -> mentions t = refs t.
Proof.
  apply (ty_ind' (fun t => walk_complete t = true -> mentions t = refs t)).
  - intros n k u W. destruct u; reflexivity.
  - intros p n targs F W. simpl in *. f_equal.
    induction F as [|x l Hx F IH]; [reflexivity|]. simpl in W. apply andb_prop in W. destruct W as [W1 W2].
    rewrite (Hx W1), (IH W2). reflexivity.
  - intros p n targs F W. simpl in *. f_equal.
    induction F as [|x l Hx F IH]; [reflexivity|]. simpl in W. apply andb_prop in W. destruct W as [W1 W2].
    rewrite (Hx W1), (IH W2). reflexivity.
  - reflexivity.
  - intros t IH W. exact (IH W).
  - intros t IH W. exact (IH W).
  - intros n t IH W. exact (IH W).
  - intros k v IHk IHv W. simpl in *. apply andb_prop in W. destruct W as [W1 W2].
    rewrite (IHk W1), (IHv W2). reflexivity.
  - intros d t IH W. exact (IH W).
  - intros ps v rs Fp Fr W. simpl in *. apply andb_prop in W. destruct W as [W1 W2]. f_equal.
    + clear W2 Fr. induction Fp as [|[n x] l Hx F IH]; [reflexivity|]. simpl in *.
      apply andb_prop in W1. destruct W1 as [A B]. rewrite (Hx A), (IH B). reflexivity.
    + clear W1 Fp. induction Fr as [|[n x] l Hx F IH]; [reflexivity|]. simpl in *.
      apply andb_prop in W2. destruct W2 as [A B]. rewrite (Hx A), (IH B). reflexivity.
  - intros fs F W. simpl in *.
    induction F as [|[[[n e] x] tag] l Hx F IH]; [reflexivity|]. simpl in *.
    apply andb_prop in W. destruct W as [A B]. rewrite (Hx A), (IH B). reflexivity.
  - intros k ms es Fm Fe W. destruct k; simpl in *;
      [|destruct ms, es; try discriminate W; reflexivity|].
    + apply andb_prop in W. destruct W as [W1 W2]. f_equal.
      * clear W2 Fe. induction Fm as [|[n x] l Hx F IH]; [reflexivity|]. simpl in *.
        apply andb_prop in W1. destruct W1 as [A B]. rewrite (Hx A), (IH B). reflexivity.
      * clear W1 Fm. induction Fe as [|x l Hx F IH]; [reflexivity|]. simpl in *.
        apply andb_prop in W2. destruct W2 as [A B]. rewrite (Hx A), (IH B). reflexivity.
    + apply andb_prop in W. destruct W as [W1 W2]. f_equal.
      * clear W2 Fe. induction Fm as [|[n x] l Hx F IH]; [reflexivity|]. simpl in *.
        apply andb_prop in W1. destruct W1 as [A B]. rewrite (Hx A), (IH B). reflexivity.
      * clear W1 Fm. induction Fe as [|x l Hx F IH]; [reflexivity|]. simpl in *.
        apply andb_prop in W2. destruct W2 as [A B]. rewrite (Hx A), (IH B). reflexivity.
  - intros ts F W. simpl in *.
    induction F as [|[tilde x] l Hx F IH]; [reflexivity|]. simpl in *.
    apply andb_prop in W. destruct W as [A B]. rewrite (Hx A), (IH B). reflexivity.
Qed.

(* the two constructors the walk used to miss (D8, repaired): now visited *)
Example refs_eq_mentions_fixed :
  refs (TBasic "Pointer" KOther true) = [unsafe_pkg] /\
  let t := TUnion [(false, TNamed (Some (mkPkg "example.com/cons" "cons")) "MyInt" []);
                   (false, TBasic "string" KString false)] in
  mentions t = refs t /\ refs t = [mkPkg "example.com/cons" "cons"].
Proof. vm_compute. repeat split. Qed.
