(* WellScoped.v -- the resolution-level part of "the generated file type-checks", as a
   conjunction of named, decidable conjuncts over the model's output.  Each conjunct
   that can be false on the unchanged code is one defect family of DESIGN.md 2.8; the
   check compares "conjunct false" with what go/types says about the real output. *)
From Moq Require Import Strs GoTypes TypeString VarName Registry Scope Gen.
From Moq.gen Require Import Tables.
Local Open Scope string_scope.

(* does identifier [name] occur as a whole token in [s]? *)
Fixpoint tokens_aux (s : string) (cur : string) (acc : list string) : list string :=
  match s with
  | EmptyString => if String.eqb cur "" then acc else rev_str cur :: acc
  | String c r =>
    if is_ident_char c then tokens_aux r (String c cur) acc
    else tokens_aux r "" (if String.eqb cur "" then acc else rev_str cur :: acc)
  end.
Definition tokens (s : string) : list string := tokens_aux s "" [].

(* qualifiers used in a type string: tokens immediately followed by '.' *)
Fixpoint quals_aux (s : string) (cur : string) (acc : list string) : list string :=
  match s with
  | EmptyString => acc
  | String c r =>
    if is_ident_char c then quals_aux r (String c cur) acc
    else if Ascii.eqb c "."%char
         then quals_aux r "" (if String.eqb cur "" then acc else rev_str cur :: acc)
         else quals_aux r "" acc
  end.
Definition quals_in (s : string) : list string := quals_aux s "" [].

Definition basic_type_names : list string :=
  ["string"; "bool"; "byte"; "rune"; "uintptr"; "int"; "int8"; "int16"; "int32"; "int64";
   "uint"; "uint8"; "uint16"; "uint32"; "uint64"; "float32"; "float64"; "complex64";
   "complex128"; "error"; "any"; "comparable"].
Definition body_idents : list string := ["mock"; "callInfo"; "append"; "panic"; "nil"].

Definition disjoint (a b : list string) : bool := forallb (fun x => negb (str_mem x b)) a.

Section WS.
Variable d : data.

Definition method_types (m : method_d) : list string :=
  (map pd_type (md_params m) ++ map pd_type (md_returns m))%list.
Definition method_names (stub : bool) (m : method_d) : list string :=
  (map pd_name (md_params m) ++ (if stub then map pd_name (md_returns m) else []))%list.

(* per method *)
Definition names_distinct (m : method_d) : bool := nodupb (method_names (d_stub d) m).
Definition fields_distinct (m : method_d) : bool := nodupb (map (fun p => exported (pd_name p)) (md_params m)).
Definition names_not_body_idents (m : method_d) : bool :=
  disjoint (method_names (d_stub d) m) body_idents.
Definition names_not_keywords (m : method_d) : bool :=
  disjoint (method_names (d_stub d) m) go_keywords
  && forallb is_identifier (method_names (d_stub d) m).
Definition names_not_used_types (m : method_d) : bool :=
  let toks := flat_map tokens (method_types m) in
  forallb (fun n => negb (str_mem n basic_type_names && str_mem n toks)) (method_names (d_stub d) m).
Definition names_not_qualifiers (m : method_d) : bool :=
  disjoint (method_names (d_stub d) m) (flat_map quals_in (method_types m))
  && negb (str_mem "mock" (flat_map quals_in (method_types m)))
  && negb (str_mem "callInfo" (flat_map quals_in (method_types m))).
(* a type parameter name used by this method must not be captured by a parameter *)
Definition names_not_tparams (k : mock_d) (m : method_d) : bool :=
  let toks := flat_map tokens (method_types m) in
  forallb (fun n => negb (str_mem n (map td_name (mk_tparams k)) && str_mem n toks))
          (method_names (d_stub d) m).

(* per mock *)
Definition tparams_exported (k : mock_d) : bool :=
  forallb (fun t => String.eqb (exported (td_name t)) (td_name t)) (mk_tparams k).
Definition decls_distinct (k : mock_d) : bool :=
  let ms := map md_name (mk_methods k) in
  let calls := map (fun m => m ++ "Calls") ms in
  let resets := map (fun m => "Reset" ++ m ++ "Calls") ms in
  let funcs := map (fun m => m ++ "Func") ms in
  let locks := map (fun m => "lock" ++ m) ms in
  let meths := (ms ++ calls ++ (if d_with_resets d then "ResetCalls" :: resets else []))%list in
  let fields := ("calls" :: funcs ++ locks)%list in
  nodupb meths && nodupb fields && disjoint meths fields.
Definition tparams_distinct (k : mock_d) : bool :=
  nodupb (map td_name (mk_tparams k))
  && disjoint (map td_name (mk_tparams k)) (map qualifier (d_imports d)).

(* per file *)
Definition imports_distinct : bool := nodupb (map qualifier (d_imports d)).
Definition imports_identifiers : bool :=
  forallb (fun i => is_identifier (qualifier i) && negb (str_mem (qualifier i) go_keywords)
                    && negb (String.eqb (qualifier i) "_")) (d_imports d).
Definition import_paths_distinct : bool := nodupb (map i_path (d_imports d)).
Definition mocks_distinct : bool := nodupb (map mk_name (d_mocks d)).
End WS.

(* which conjuncts fail, as family names *)
Definition failing (d : data) : list string :=
  let per_method (f : method_d -> bool) :=
    forallb (fun k => forallb f (mk_methods k)) (d_mocks d) in
  ((if per_method (names_distinct d) then [] else ["names_distinct"])
  ++ (if per_method fields_distinct then [] else ["fields_distinct"])
  ++ (if per_method (names_not_body_idents d) then [] else ["names_body_idents"])
  ++ (if per_method (names_not_keywords d) then [] else ["names_keywords"])
  ++ (if per_method (names_not_used_types d) then [] else ["names_shadow_types"])
  ++ (if per_method (names_not_qualifiers d) then [] else ["names_qualifiers"])
  ++ (if forallb (fun k => forallb (names_not_tparams d k) (mk_methods k)) (d_mocks d) then [] else ["names_tparams"])
  ++ (if forallb (decls_distinct d) (d_mocks d) then [] else ["method_name_clash"])
  ++ (if forallb (tparams_distinct d) (d_mocks d) then [] else ["tparams_clash"])
  ++ (if imports_distinct d then [] else ["alias_duplicate"])
  ++ (if imports_identifiers d then [] else ["alias_not_identifier"])
  ++ (if import_paths_distinct d then [] else ["import_path_twice"])
  ++ (if mocks_distinct d then [] else ["mock_name_twice"]))%list.

(* ---------- families that are visible on the input already ---------- *)

Definition sig_types (s : sig) : list ty := (map snd (s_params s) ++ map snd (s_results s))%list.

Definition iface_types (l : lookup_res) : list ty :=
  match l with
  | LIface _ _ tps ms => (map tp_constraint tps ++ flat_map (fun m => sig_types (m_sig m)) ms)%list
  | _ => []
  end.

(* does a type mention a type parameter? *)
Fixpoint has_tparam (t : ty) : bool :=
  let l_ := fix go (l : list ty) : bool := match l with [] => false | x :: r => has_tparam x || go r end in
  let nl_ := fix go (l : list (string * ty)) : bool :=
    match l with [] => false | (_, x) :: r => has_tparam x || go r end in
  match t with
  | TParam _ => true
  | TNamed _ _ targs | TAlias _ _ targs => l_ targs
  | TPtr t | TSlice t | TArray _ t | TChan _ t => has_tparam t
  | TMap k v => has_tparam k || has_tparam v
  | TFunc ps _ rs => nl_ ps || nl_ rs
  | TStruct fs =>
    (fix go (l : list (string * bool * ty * string)) : bool :=
       match l with [] => false | (_, _, x, _) :: r => has_tparam x || go r end) fs
  | TIface _ ms es => nl_ ms || l_ es
  | TUnion ts =>
    (fix go (l : list (bool * ty)) : bool :=
       match l with [] => false | (_, x) :: r => has_tparam x || go r end) ts
  | TBasic _ _ _ => false
  end.

Definition is_comparable (t : ty) : bool :=
  match t with TNamed None "comparable" _ => true | _ => false end.

(* can the constraint type itself be used as the type argument of the self-check? *)
Definition instantiable (tp : tparam) : bool :=
  negb (has_tparam (tp_constraint tp))
  && match explicit_constraint (tp_under_embeds tp) with
     | Some (TBasic _ _ false) =>
       (* the chosen basic type satisfies the element it was taken from; every OTHER embedded element
          must be comparable (which every basic type is) *)
       Nat.eqb (List.length (filter (fun e => negb (is_comparable e)) (tp_under_embeds tp))) 1
     | Some _ => false
     | None =>
       if tp_plain_comparable tp
       then forallb is_comparable (tp_under_embeds tp)   (* int is used (repair D9a): fine when the
                                                            constraint is comparable and nothing else *)
       else negb (is_comparable (tp_constraint tp))
            && match tp_under_embeds tp with [] => true | _ => false end
     end.

Definition is_exported_name (s : string) : bool :=
  match s with String ch _ => is_upper ch | EmptyString => false end.

(* names of the source package's own types mentioned by a type *)
Fixpoint src_names (src : string) (t : ty) : list string :=
  let l_ := fix go (l : list ty) : list string :=
    match l with [] => [] | x :: r => (src_names src x ++ go r)%list end in
  let nl_ := fix go (l : list (string * ty)) : list string :=
    match l with [] => [] | (_, x) :: r => (src_names src x ++ go r)%list end in
  match t with
  | TNamed (Some p) n targs => ((if String.eqb (p_path p) src then [n] else []) ++ l_ targs)%list
  | TAlias (Some p) n targs => ((if String.eqb (p_path p) src then [n] else []) ++ l_ targs)%list
  | TNamed None _ targs => l_ targs
  | TAlias None _ targs => l_ targs
  | TPtr t | TSlice t | TArray _ t | TChan _ t => src_names src t
  | TMap k v => (src_names src k ++ src_names src v)%list
  | TFunc ps _ rs => (nl_ ps ++ nl_ rs)%list
  | TStruct fs =>
    (fix go (l : list (string * bool * ty * string)) : list string :=
       match l with [] => [] | (_, _, x, _) :: r => (src_names src x ++ go r)%list end) fs
  | TIface _ ms es => (nl_ ms ++ l_ es)%list
  | TUnion ts =>
    (fix go (l : list (bool * ty)) : list string :=
       match l with [] => [] | (_, x) :: r => (src_names src x ++ go r)%list end) ts
  | _ => []
  end.

(* member names of struct and interface literals: a non-exported field or method name of a
   literal belongs to the package it is written in, so the same literal written in another
   package is a different type (Go spec, type identity) *)
Fixpoint literal_members (t : ty) : list string :=
  let l_ := fix go (l : list ty) : list string :=
    match l with [] => [] | x :: r => (literal_members x ++ go r)%list end in
  let nl_ := fix go (l : list (string * ty)) : list string :=
    match l with [] => [] | (_, x) :: r => (literal_members x ++ go r)%list end in
  match t with
  | TNamed _ _ targs | TAlias _ _ targs => l_ targs
  | TPtr t | TSlice t | TArray _ t | TChan _ t => literal_members t
  | TMap k v => (literal_members k ++ literal_members v)%list
  | TFunc ps _ rs => (nl_ ps ++ nl_ rs)%list
  | TStruct fs =>
    (fix go (l : list (string * bool * ty * string)) : list string :=
       match l with
       | [] => []
       | (n, emb, x, _) :: r => ((if emb then [] else [n]) ++ literal_members x ++ go r)%list
       end) fs
  | TIface _ ms es => (map fst ms ++ nl_ ms ++ l_ es)%list
  | TUnion ts =>
    (fix go (l : list (bool * ty)) : list string :=
       match l with [] => [] | (_, x) :: r => (literal_members x ++ go r)%list end) ts
  | _ => []
  end.

Definition input_failing (i : input) (c : config) (args : list string) : list string :=
  let looked := map (fun a => assoc (fst (parse_interface_name a)) (in_lookup i)) args in
  let ifaces := flat_map (fun o => match o with Some l => [l] | None => [] end) looked in
  let tys := flat_map iface_types ifaces in
  let tps := flat_map (fun l => match l with LIface _ _ tps _ => tps | _ => [] end) ifaces in
  ((if forallb walk_complete tys then [] else ["walk_incomplete"])
   ++ (if c_skip_ensure c || forallb instantiable tps then [] else ["self_check_not_instantiable"])
   ++ (if c_skip_ensure c ||
          forallb (fun tp => match explicit_constraint_tp tp with
                             | Some t => match mentions t with [] => true | _ => false end
                             | None => true
                             end) tps
       then [] else ["constraint_unqualified_printer"])
   ++ (if forallb (fun l => match l with LIface ms _ _ _ => ms | _ => true end) ifaces
       then [] else ["not_a_method_set_interface"])
   ++ (let other := negb (String.eqb (find_pkg_path (in_dir_oracle i) (c_pkg_name c) (p_path (in_src i)))
                                     (p_path (in_src i))) in
       let mnames := flat_map (fun l => match l with LIface _ _ _ ms => map m_name ms | _ => [] end) ifaces in
       if other && negb (forallb is_exported_name
                           (map (fun a => fst (parse_interface_name a)) args
                            ++ mnames ++ flat_map (src_names (p_path (in_src i))) tys
                            ++ flat_map literal_members tys))
       then ["unexported_foreign"] else []))%list.

(* the file would import the package it is generated into (defect family D15) *)
Definition self_import (i : input) (d : data) : list string :=
  if String.eqb (d_pkg_name d) (p_name (in_src i))
     && existsb (fun im => String.eqb (i_path im) (p_path (in_src i))) (d_imports d)
  then ["explicit_same_pkg"] else [].
