(* P_C09.v -- C09: generic interfaces keep their type parameters, constraints and instances. *)
From Moq Require Import Strs Strs_Proofs GoTypes TypeString VarName Registry Scope Gen P_C20 P_C02.
From Moq Require Import TmplAst WellScoped.
From Moq.gen Require Import Tables TemplateSrc.
Local Open Scope string_scope.

(* the mock has as many type parameters as the interface, in the same order, each under the
   constraint TYPE of the interface's parameter (rendered through the variable, i.e. with
   the file's own qualifiers) *)
Theorem C09_tparams_shape cfg r tps r' tsc :
  type_params cfg r tps = Ok (r', tsc) ->
  map v_ty (sc_vars tsc) = map tp_constraint tps /\
  List.length (sc_vars tsc) = List.length tps.
Proof.
  unfold type_params. intros E. pose proof (add_vars_tys _ _ _ _ _ _ _ E) as T.
  cbn [empty_scope sc_vars map app] in T. rewrite map_map in T. cbn [snd] in T.
  split; [exact T|]. rewrite <- (map_length v_ty), T, map_length. reflexivity.
Qed.

Theorem C09_tparams_count cfg rf k :
  List.length (sc_vars (rk_tscope k)) = List.length (rk_tparams k) ->
  List.length (mk_tparams (finish_mock cfg rf k)) = List.length (rk_tparams k).
Proof.
  intros L. cbn [finish_mock mk_tparams]. unfold finish_tparams.
  rewrite map_length, combine_length, L. apply Nat.min_id.
Qed.

(* methods, function fields and call records use the type parameters exactly where the
   interface does: their types ARE the signature's types (C02), and type parameters are part
   of those types, so this is preserved by every substitution of type arguments *)
Fixpoint subst (s : string -> option ty) (t : ty) : ty :=
  match t with
  | TParam n => match s n with Some u => u | None => t end
  | TPtr t => TPtr (subst s t)
  | TSlice t => TSlice (subst s t)
  | TArray n t => TArray n (subst s t)
  | TMap k v => TMap (subst s k) (subst s v)
  | TChan d t => TChan d (subst s t)
  | _ => t      (* enough for the statement below: equal types stay equal under any map *)
  end.

Theorem C09_instances cfg r m r' rm rf s :
  method_data cfg r m = Ok (r', rm) ->
  map (subst s) (map pd_ty (md_params (finish_method cfg rf rm))) =
  map (subst s) (map snd (s_params (m_sig m))) /\
  map (subst s) (map pd_ty (md_returns (finish_method cfg rf rm))) =
  map (subst s) (map snd (s_results (m_sig m))).
Proof.
  intros MD. destruct (C02_method_signature _ _ _ _ _ rf MD) as [_ [P [R _]]]. cbn zeta in P, R.
  rewrite P, R. split; reflexivity.
Qed.

(* the explicit type argument of the self-check: the constraint's first basic type or the
   first term of its first union; nothing for method-only constraints *)
Theorem C09_explicit_constraint :
  (forall n k u rest, explicit_constraint (TBasic n k u :: rest) = Some (TBasic n k u)) /\
  (forall tilde t terms rest, explicit_constraint (TUnion ((tilde, t) :: terms) :: rest) = Some t) /\
  explicit_constraint [] = None.
Proof. repeat split. Qed.

(* declaration, receivers, signatures and records all print a type parameter's name
   verbatim (since the repair of D1): nowhere in the template regenerated from /repo is
   Exported applied to a type parameter's name *)
Fixpoint exports_param_name (e : texpr) : bool :=
  match e with
  | ECall "Exported" [EField (EVar "$param") "Name"] => true
  | _ => false
  end.
Definition no_exported_tparam (ns : list tnode) : bool :=
  forallb (fun n => match n with NAction e => negb (exports_param_name e) | _ => true end) (flatten ns).

Theorem C09_tparam_names_verbatim : no_exported_tparam moq_template = true.
Proof. vm_compute. reflexivity. Qed.

(* since the repair of D9a a constraint that is comparable and has no methods gets int *)
Theorem C09_comparable_fixed :
  forall name c embeds, explicit_constraint embeds = None ->
    explicit_constraint_tp (mkTparam name c embeds true) = Some (TBasic "int" KInt false).
Proof. intros name c embeds E. unfold explicit_constraint_tp. cbn [tp_under_embeds tp_plain_comparable]. rewrite E. reflexivity. Qed.

(* an explicit basic type or union term still wins, whatever the flag says *)
Theorem C09_explicit_wins :
  forall name c embeds b t, explicit_constraint embeds = Some t ->
    explicit_constraint_tp (mkTparam name c embeds b) = Some t.
Proof. intros name c embeds b t E. unfold explicit_constraint_tp. cbn [tp_under_embeds]. rewrite E. reflexivity. Qed.

(* what remains of D9: a constraint with methods (or one that mentions its own type parameter)
   is used as its own type argument *)
Example C09_selfcheck_refuted :
  explicit_constraint_tp (mkTparam "T" (TNamed None "Hasher" []) [TNamed None "comparable" []] false) = None /\
  instantiable (mkTparam "T" (TNamed None "Hasher" []) [TNamed None "comparable" []] false) = false.
Proof. vm_compute. split; reflexivity. Qed.
