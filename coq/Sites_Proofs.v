(* Sites_Proofs.v -- obligations on the site lists regenerated from /repo (go/types):
   where moq iterates over Go maps (its only nondeterminism, C14) and where it calls
   into the operating system (its only effects on the file system, C18). *)
From Moq Require Import Strs.
From Moq.gen Require Import Sites.

(* the three map iterations the model accounts for: Imports() (sorted afterwards),
   searchImport (at most one match under distinct qualifiers), resolveImportVarConflicts
   (since the repair of D16 the range only collects the keys, which are sorted before the renames) *)
Theorem C14_map_range_sites :
  map_range_sites =
  ["internal/registry/method_scope.go:resolveImportVarConflicts:imports";
   "internal/registry/registry.go:Imports:r.imports";
   "internal/registry/registry.go:searchImport:r.imports"].
Proof. reflexivity. Qed.

(* all file-system effects are in main.go: remove -out, create its directories, write it *)
Theorem C18_effect_alphabet :
  fs_effect_sites =
  ["main.go:main:os.Exit"; "main.go:main:os.Exit"; "main.go:run:os.MkdirAll";
   "main.go:run:os.Remove"; "main.go:run:os.WriteFile"].
Proof. reflexivity. Qed.
