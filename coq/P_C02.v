(* P_C02.v -- C02: the mock implements the interface with identical signatures; each method
   has one companion function field of the identical function type. *)
From Moq Require Import Strs Strs_Proofs GoTypes TypeString VarName Registry Scope Gen TmplAst TmplExec P_C20.
From Moq.gen Require Import TemplateSrc.
From Coq Require Import Lia.
Local Open Scope string_scope.

Lemma finish_params_tys cfg rf variadic vs :
  map pd_ty (finish_params cfg rf variadic vs) = map v_ty vs.
Proof.
  induction vs as [|v vs IH]; [reflexivity|]. destruct vs as [|w vs]; [reflexivity|].
  change (finish_params cfg rf variadic (v :: w :: vs))
    with (finish_param cfg rf false v :: finish_params cfg rf variadic (w :: vs)).
  cbn [map]. rewrite IH. reflexivity.
Qed.

Lemma finish_params_variadic cfg rf variadic vs :
  map pd_variadic (finish_params cfg rf variadic vs) =
  match vs with [] => [] | _ => (repeat false (List.length vs - 1) ++ [variadic])%list end.
Proof.
  induction vs as [|v vs IH]; [reflexivity|]. destruct vs as [|w vs]; [reflexivity|].
  change (finish_params cfg rf variadic (v :: w :: vs))
    with (finish_param cfg rf false v :: finish_params cfg rf variadic (w :: vs)).
  cbn [map]. rewrite IH. cbn [finish_param pd_variadic List.length].
  replace (S (S (List.length vs)) - 1) with (S (List.length vs)) by lia.
  replace (S (List.length vs) - 1) with (List.length vs) by lia.
  reflexivity.
Qed.

(* every method of the interface, as go/types delivers it (embedded and aliased
   interfaces already flattened), becomes one mock method with the same name, the same
   parameter types in the same order, the same variadic-ness and the same result types --
   whatever names, qualifiers or other interfaces are involved, and independent of
   -skip-ensure *)
Theorem C02_method_signature cfg r m r' rm rf :
  method_data cfg r m = Ok (r', rm) ->
  let md := finish_method cfg rf rm in
  md_name md = m_name m /\
  map pd_ty (md_params md) = map snd (s_params (m_sig m)) /\
  map pd_ty (md_returns md) = map snd (s_results (m_sig m)) /\
  map pd_variadic (md_params md) =
    match s_params (m_sig m) with
    | [] => []
    | ps => (repeat false (List.length ps - 1) ++ [s_variadic (m_sig m)])%list
    end.
Proof.
  intros MD. destruct (C20_method_types_independent _ _ _ _ _ MD) as [NAME [TYS [NP VAR]]].
  cbn zeta. unfold finish_method. cbn [md_name md_params md_returns].
  assert (LEN : List.length (sc_vars (rm_scope rm)) =
                List.length (s_params (m_sig m)) + List.length (s_results (m_sig m))).
  { rewrite <- (map_length v_ty), TYS, app_length, !map_length. reflexivity. }
  assert (F : map v_ty (firstn (rm_nparams rm) (sc_vars (rm_scope rm))) = map snd (s_params (m_sig m))).
  { rewrite <- firstn_map, TYS, NP. rewrite <- (map_length snd (s_params (m_sig m))).
    rewrite firstn_app, firstn_all, Nat.sub_diag. simpl. apply app_nil_r. }
  assert (S : map v_ty (skipn (rm_nparams rm) (sc_vars (rm_scope rm))) = map snd (s_results (m_sig m))).
  { rewrite <- skipn_map, TYS, NP. rewrite <- (map_length snd (s_params (m_sig m))).
    rewrite skipn_app, skipn_all, Nat.sub_diag. reflexivity. }
  split; [exact NAME|]. split; [rewrite finish_params_tys; exact F|]. split.
  - rewrite map_map. cbn [finish_param pd_ty]. exact S.
  - rewrite finish_params_variadic, VAR.
    assert (L : List.length (firstn (rm_nparams rm) (sc_vars (rm_scope rm))) = List.length (s_params (m_sig m))).
    { rewrite <- (map_length v_ty), F, map_length. reflexivity. }
    destruct (firstn (rm_nparams rm) (sc_vars (rm_scope rm))) as [|v vs] eqn:E;
      destruct (s_params (m_sig m)) as [|p ps] eqn:EP; simpl in L; try discriminate; [reflexivity|].
    cbn [List.length] in *. rewrite L. reflexivity.
Qed.

(* ---- the function field and the method are rendered from the SAME strings ---- *)

Fixpoint flat_node (n : tnode) : list tnode :=
  let fl := fix go (l : list tnode) : list tnode :=
    match l with [] => [] | x :: r => (flat_node x ++ go r)%list end in
  match n with
  | NIf c a b => (NIf c [] [] :: fl a ++ fl b)%list
  | NRange i v e body => NRange i v e [] :: fl body
  | _ => [n]
  end.
Definition flatten (ns : list tnode) : list tnode := flat_map flat_node ns.

Definition is_action (n : tnode) (field : string) : bool :=
  match n with NAction (EField EDot f) => String.eqb f field | _ => false end.
Definition text_is (n : tnode) (s : string) : bool :=
  match n with NText t => String.eqb t s | _ => false end.
Definition text_ends (n : tnode) (s : string) : bool :=
  match n with NText t => has_suffix t s | _ => false end.
Definition text_starts (n : tnode) (s : string) : bool :=
  match n with NText t => has_prefix t s | _ => false end.

(* ... {{.Name}}Func func({{.ArgList}}) {{.ReturnArgTypeList}} ... *)
Fixpoint has_func_field (ns : list tnode) : bool :=
  match ns with
  | a :: ((b :: c :: d :: e :: _) as r) =>
    (is_action a "Name" && text_is b "Func func(" && is_action c "ArgList" && text_is d ") "
     && is_action e "ReturnArgTypeList") || has_func_field r
  | _ => false
  end.
(* ... ) {{.Name}}({{.ArgList}}) {{.ReturnArgTypeList}} { ... *)
Fixpoint has_method_header (ns : list tnode) : bool :=
  match ns with
  | z :: ((a :: b :: c :: d :: e :: f :: _) as r) =>
    (text_ends z ") " && is_action a "Name" && text_is b "(" && is_action c "ArgList" && text_is d ") "
     && is_action e "ReturnArgTypeList" && text_starts f " {") || has_method_header r
  | _ => false
  end.

Theorem C02_func_field_same_strings :
  has_func_field (flatten moq_template) = true /\ has_method_header (flatten moq_template) = true.
Proof. vm_compute. split; reflexivity. Qed.

(* and those strings spell the final parameter ...T exactly when it is variadic, T being the
   element type (the [2:] in MethodArg is safe: a slice type prints as "[]" ++ element) *)
Theorem C02_variadic_spelling (q : pkg -> string) (t : ty) :
  type_string q (TSlice t) = "[]" ++ type_string q t.
Proof. reflexivity. Qed.

Theorem C02_method_arg p :
  method_arg p = if pd_variadic p then pd_name p ++ " ..." ++ drop_str 2 (pd_type p)
                 else pd_name p ++ " " ++ pd_type p.
Proof. reflexivity. Qed.
