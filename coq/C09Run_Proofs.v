(* C09Run_Proofs.v -- C09 for the whole run: the k-th mock has exactly the type parameters of the k-th
   requested interface, in order, each printed under THE interface's constraint type with the
   qualifiers of the final import block, and with the self-check argument the constraint determines. *)
From Moq Require Import Strs Strs_Proofs GoTypes GoTypes_Proofs TypeString VarName Registry Scope Gen
     Registry_Proofs Printer_Proofs WellScoped P_C11 P_C20 Imports_Proofs.
From Coq Require Import Lia Permutation.
Local Open Scope list_scope.

Definition tparams_of (i : input) (a : string) : option (list tparam) :=
  match assoc (fst (parse_interface_name a)) (in_lookup i) with
  | Some (LIface _ _ tps _) => Some tps
  | _ => None
  end.

Definition raw_tparams_ok (i : input) (a : string) (rk : raw_mock) : Prop :=
  tparams_of i a = Some (rk_tparams rk) /\
  map v_ty (sc_vars (rk_tscope rk)) = map tp_constraint (rk_tparams rk).

Lemma collect_tparams i cfg args : forall r r' rks,
  collect i cfg r args = Ok (r', rks) -> Forall2 (raw_tparams_ok i) args rks.
Proof.
  induction args as [|np rest IH]; intros r r' rks; cbn [collect].
  - intros E. inversion E; subst. constructor.
  - unfold raw_tparams_ok at 1, tparams_of. destruct (parse_interface_name np) as [name mock_name] eqn:PN.
    destruct (assoc name (in_lookup i)) as [[| |mset isty tps meths]|] eqn:AS; try discriminate.
    destruct (methods_data cfg r meths) as [[r1 rms]| | | |] eqn:M; try discriminate. cbn [bind].
    destruct (type_params cfg r1 tps) as [[r2 tsc]| | | |] eqn:T; try discriminate. cbn [bind].
    destruct (collect i cfg r2 rest) as [[r3 rks']| | | |] eqn:C; try discriminate. cbn [bind].
    intros E. inversion E; subst. constructor; [|eapply IH; exact C].
    unfold raw_tparams_ok, tparams_of. rewrite PN. cbn [fst]. rewrite AS. cbn [rk_tparams rk_tscope].
    split; [reflexivity|]. unfold type_params in T. rewrite (add_vars_tys _ _ _ _ _ _ _ T).
    cbn [empty_scope sc_vars map app]. rewrite map_map. reflexivity.
Qed.

Definition tparam_rendered (cfg : rcfg) (imports : list imp) (tp : tparam) (td : tparam_d) : Prop :=
  td_type td = type_string (final_qual cfg imports) (tp_constraint tp) /\
  td_constraint td = option_map type_string_full (explicit_constraint_tp tp) /\
  covered cfg imports (tp_constraint tp).

Lemma finish_tparams_rendered cfg r3 vs : forall tps,
  NoDup (map i_path r3) -> VarsOK cfg r3 vs -> map v_ty vs = map tp_constraint tps ->
  Forall2 (tparam_rendered cfg (imports_sorted r3)) tps
    (map (fun '(v, tp) => mkTparamD (v_name v) (var_type_string cfg r3 v)
                                    (option_map type_string_full (explicit_constraint_tp tp)))
         (combine vs tps)).
Proof.
  induction vs as [|v vs IH]; intros [|tp tps] ND OK TY; try discriminate; [constructor|].
  cbn [map combine] in *. injection TY as T1 T2.
  unfold VarsOK in OK. cbn [map] in OK. inversion OK as [|? ? OKv OKvs]; subst.
  constructor; [|apply IH; assumption].
  unfold tparam_rendered. cbn [td_type td_constraint].
  destruct (var_printed_ok cfg r3 v ND OKv) as [P C]. rewrite <- T1. split; [exact P|]. split; [reflexivity|exact C].
Qed.

(* THE WHOLE RUN *)
Theorem run_tparams i c args d :
  mock_run i c args = Ok d ->
  Forall2 (fun a k => exists tps, tparams_of i a = Some tps /\
                        Forall2 (tparam_rendered (rcfg_of i c) (d_imports d)) tps (mk_tparams k))
          args (d_mocks d).
Proof.
  intros E. destruct (mock_run_parts _ _ _ _ E) as [r1 [rks [r3 [C [EI [EM [INC [ND _]]]]]]]].
  destruct (collect_ok _ _ _ _ _ _ C) as [OKS _]. pose proof (collect_tparams _ _ _ _ _ _ C) as TP.
  rewrite EM, EI. clear E EM EI C.
  induction TP as [|a rk args rks [T1 T2] TP IH]; [constructor|].
  inversion OKS as [|? ? OKk OKr]; subst. cbn [map]. constructor; [|apply IH; exact OKr].
  exists (rk_tparams rk). split; [exact T1|]. cbn [finish_mock mk_tparams]. unfold finish_tparams.
  destruct (raw_mock_mono _ _ _ _ INC OKk) as [OKT _].
  apply finish_tparams_rendered; assumption.
Qed.
