(* P_C15.v -- C15 at the generator level: a run over the package that already contains the
   previous run's output produces that output again.  (The CLI half of C15 -- -rm deletes
   the file before the package is loaded, and the file is rewritten only by the last step --
   is in Cli_Proofs.)

   The full statement is false of the code (D23/D30: an alias made up by
   resolveImportConflict is read back from the generated file as if the user had written
   it).  What holds for every input: if every alias in the first output is an alias the
   source files themselves declare, the second run is the first run. *)
From Coq Require Import List String.
From Moq Require Import Strs GoTypes Registry Scope Gen L2Check Regen_Proofs.
Import ListNotations.
Local Open Scope string_scope.

(* k: the number of import specs in the source files that sort before the generated file *)
Theorem C15_regen_fixed_point_partial : forall i c args d k,
  mock_run i c args = Ok d ->
  aliases_from_source (in_specs i) d = true ->
  mock_run (with_generated_at i d k) c args = Ok d.
Proof. exact regen_fixed_point_at. Qed.
Print Assumptions C15_regen_fixed_point_partial.

(* the run reads the alias table through lookups only *)
Theorem C15_run_reads_aliases_by_lookup : forall i j c args,
  same_but_specs i j ->
  (forall p, assoc p (parse_aliases (in_specs i) []) = assoc p (parse_aliases (in_specs j) [])) ->
  mock_run i c args = mock_run j c args.
Proof. exact mock_run_ext. Qed.
Print Assumptions C15_run_reads_aliases_by_lookup.

(* the premises are satisfiable: a source alias, kept by the run, read back from the output *)
Definition src15 : pkg := mkPkg "example.com/x" "x".
Definition dep15 : pkg := mkPkg "example.com/dep/other" "other".
Definition in15 : input :=
  mkInput src15 [("example.com/dep/other", "yaml"); ("fmt", "")] None
    [("S", LIface true true [] [mkMethod "Load" (mkSig [("o", TNamed (Some dep15) "T" [])] false [])])].
Example C15_premises_hold :
  match mock_run in15 (mkConfig "" false false false) ["S"] with
  | Ok d => aliases_from_source (in_specs in15) d = true /\
            map (fun im => (i_path im, i_alias im)) (d_imports d) =
              [("example.com/dep/other", "yaml"); ("sync", "")]
  | _ => False
  end.
Proof. vm_compute. split; reflexivity. Qed.

(* and where the premise fails the conclusion can fail: two packages called v1, no source
   alias; the second run reads corev1/appsv1 back and renames a parameter (D30) *)
Definition core15 : pkg := mkPkg "example.com/dep/core/v1" "v1".
Definition apps15 : pkg := mkPkg "example.com/dep/apps/v1" "v1".
Definition in15r : input :=
  mkInput src15 [] None
    [("R", LIface true true []
        [mkMethod "A" (mkSig [("corev1", TBasic "int" KInt false); ("x", TNamed (Some core15) "T" [])] false []);
         mkMethod "B" (mkSig [("y", TNamed (Some apps15) "T" [])] false [])])].
Example C15_full_statement_refuted :
  match mock_run in15r (mkConfig "" false false false) ["R"] with
  | Ok d => aliases_from_source (in_specs in15r) d = false /\
            match mock_run (with_generated in15r d false) (mkConfig "" false false false) ["R"] with
            | Ok d' => String.eqb (proj_data d) (proj_data d') = false
            | _ => False
            end
  | _ => False
  end.
Proof. vm_compute. split; reflexivity. Qed.
