(* Cli_Proofs.v -- C15 (-rm), C16 (dispatch), C17, C18 for the model of main.run. *)
From Moq Require Import Strs Cli.
From Coq Require Import Lia.
Local Open Scope list_scope.

(* the pins tying this model to the source text are in Pin_*.v, one file each *)

(* ---------- paths ---------- *)
Lemma path_eqb_eq a b : path_eqb a b = true <-> a = b.
Proof.
  unfold path_eqb. revert b. induction a as [|x a IH]; destruct b as [|y b]; simpl; split; try discriminate; auto.
  - intros H. apply andb_prop in H. destruct H as [H1 H2]. apply String.eqb_eq in H1. apply IH in H2. congruence.
  - intros H. inversion H; subst. rewrite String.eqb_refl. simpl. apply IH. reflexivity.
Qed.
Lemma path_eqb_refl a : path_eqb a a = true.
Proof. apply path_eqb_eq. reflexivity. Qed.
Lemma path_eqb_neq a b : a <> b -> path_eqb a b = false.
Proof. intros H. destruct (path_eqb a b) eqn:E; [apply path_eqb_eq in E; contradiction|reflexivity]. Qed.

Lemma fs_set_same f p n : fs_set f p n p = n.
Proof. unfold fs_set. rewrite path_eqb_refl. reflexivity. Qed.
Lemma fs_set_other f p n q : q <> p -> fs_set f p n q = f q.
Proof. intros H. unfold fs_set. rewrite path_eqb_neq by exact H. reflexivity. Qed.

Lemma is_prefix_app a b : is_prefix a (a ++ b) = true.
Proof. induction a; simpl; [reflexivity|]. rewrite String.eqb_refl. exact IHa. Qed.

Lemma is_prefix_app_r a b c : is_prefix a b = true -> is_prefix a (b ++ c) = true.
Proof.
  revert b. induction a as [|x a IH]; intros b; simpl; [reflexivity|].
  destruct b as [|y b]; simpl; [discriminate|]. intros H. apply andb_prop in H. destruct H as [H1 H2].
  rewrite H1. simpl. apply IH. exact H2.
Qed.

(* every ancestor is a prefix of the path *)
Lemma ancestors_from_prefix pre p a :
  In a (ancestors_from pre p) -> is_prefix a (pre ++ p) = true.
Proof.
  revert pre. induction p as [|c rest IH]; intros pre; simpl; [tauto|].
  destruct rest as [|c2 rest2]; [simpl; tauto|].
  intros [<-|IN].
  - change (c :: c2 :: rest2) with ([c] ++ c2 :: rest2). rewrite app_assoc. apply is_prefix_app.
  - specialize (IH (pre ++ [c]) IN). rewrite <- app_assoc in IH. exact IH.
Qed.

Lemma ancestors_from_length pre p a :
  In a (ancestors_from pre p) -> List.length a < List.length pre + List.length p.
Proof.
  revert pre. induction p as [|c rest IH]; intros pre; simpl; [tauto|].
  destruct rest as [|c2 rest2]; [simpl; tauto|].
  intros [<-|IN].
  - rewrite app_length. simpl. lia.
  - specialize (IH (pre ++ [c]) IN). rewrite app_length in IH. simpl in *. lia.
Qed.

Lemma removelast_length {A} (l : list A) : l <> [] -> List.length (removelast l) < List.length l.
Proof.
  induction l as [|x l IH]; [congruence|]. intros _. destruct l as [|y l]; [simpl; lia|].
  change (removelast (x :: y :: l)) with (x :: removelast (y :: l)). simpl.
  assert (y :: l <> []) by discriminate. specialize (IH H). simpl in IH. lia.
Qed.

Lemma ancestors_prefix p a : In a (ancestors p) -> is_prefix a p = true.
Proof. apply (ancestors_from_prefix [] p a). Qed.

Lemma removelast_prefix (p : path) : is_prefix (removelast p) p = true.
Proof.
  induction p as [|x p IH]; [reflexivity|]. destruct p as [|y p]; [reflexivity|].
  change (removelast (x :: y :: p)) with (x :: removelast (y :: p)).
  simpl is_prefix at 1. rewrite String.eqb_refl. exact IH.
Qed.

Lemma is_prefix_trans a b c : is_prefix a b = true -> is_prefix b c = true -> is_prefix a c = true.
Proof.
  revert b c. induction a as [|x a IH]; intros b c; simpl; [reflexivity|].
  destruct b as [|y b]; [discriminate|]. destruct c as [|z c]; simpl; [intros _; discriminate|].
  intros H1 H2. apply andb_prop in H1. destruct H1 as [E1 P1]. apply andb_prop in H2. destruct H2 as [E2 P2].
  apply String.eqb_eq in E1. apply String.eqb_eq in E2. subst. rewrite String.eqb_refl. simpl.
  eapply IH; eassumption.
Qed.

(* the directories MkdirAll may touch for -out p are all prefixes of p *)
Lemma ancestors_from_snoc pre (p : path) c :
  p <> [] -> ancestors_from pre (p ++ [c]) = ancestors_from pre p ++ [pre ++ p].
Proof.
  revert pre. induction p as [|x p IH]; intros pre NE; [congruence|].
  destruct p as [|y p].
  - reflexivity.
  - change ((x :: y :: p) ++ [c]) with (x :: (y :: p) ++ [c]).
    change (ancestors_from pre (x :: (y :: p) ++ [c]))
      with ((pre ++ [x]) :: ancestors_from (pre ++ [x]) ((y :: p) ++ [c])).
    rewrite IH by discriminate.
    change (ancestors_from pre (x :: y :: p)) with ((pre ++ [x]) :: ancestors_from (pre ++ [x]) (y :: p)).
    rewrite <- app_assoc. reflexivity.
Qed.

Lemma ancestors_split (p d : path) :
  In d (ancestors p) -> In d (ancestors (parent p) ++ [parent p]).
Proof.
  unfold ancestors, parent. destruct p as [|x0 p0]; [simpl; tauto|].
  destruct (@exists_last _ (x0 :: p0) ltac:(discriminate)) as (q & c & E). rewrite E.
  rewrite removelast_last. destruct q as [|x q]; [simpl; tauto|].
  rewrite ancestors_from_snoc by discriminate. simpl app at 2. tauto.
Qed.

Lemma mkdir_targets_shorter (p d : path) :
  p <> [] -> In d (ancestors (parent p) ++ [parent p]) -> d <> p.
Proof.
  intros NE IN ->. destruct p as [|x l].
  - congruence.
  - assert (L : List.length (parent (x :: l)) < List.length (x :: l)) by (apply removelast_length; discriminate).
    apply in_app_or in IN. destruct IN as [IN|[E|[]]].
    + apply (ancestors_from_length [] _ _) in IN. simpl in IN. unfold parent in *. simpl in *. lia.
    + rewrite E in L. lia.
Qed.

Lemma mkdir_targets_prefix (p d : path) :
  In d (ancestors (parent p) ++ [parent p]) -> is_prefix d p = true.
Proof.
  intros IN. apply in_app_or in IN. destruct IN as [IN|[<-|[]]].
  - eapply is_prefix_trans; [apply ancestors_prefix; exact IN|apply removelast_prefix].
  - apply removelast_prefix.
Qed.

(* ---------- file-system operations: what they can change ---------- *)
Lemma mkdir_walk_spec ft f todo k f' ok :
  mkdir_walk ft f todo k = (f', ok) ->
  (forall q, ~ In q todo -> f' q = f q) /\
  (forall q n, f q = Some n -> f' q = Some n) /\
  (ok = true -> forall d, In d todo -> f' d = Some NDir).
Proof.
  revert f k. induction todo as [|d rest IH]; intros f k; simpl.
  - intros E. inversion E; subst. split; [auto|]. split; [auto|]. intros _ d [].
  - destruct (f d) as [[c|]|] eqn:FD.
    + intros E. inversion E; subst. split; [auto|]. split; [auto|]. discriminate.
    + intros E. destruct (IH _ _ E) as [A [B D]]. split; [|split].
      * intros q NI. apply A. tauto.
      * exact B.
      * intros OK d0 [<-|IN]; [apply B; exact FD|apply D; assumption].
    + destruct (match ft with Some k0 => Nat.eqb k0 k | None => false end).
      * intros E. inversion E; subst. split; [auto|]. split; [auto|]. discriminate.
      * intros E. destruct (IH _ _ E) as [A [B D]]. split; [|split].
        -- intros q NI. rewrite A by tauto. apply fs_set_other. intros ->. apply NI. left. reflexivity.
        -- intros q n FQ. apply B. destruct (path_eqb q d) eqn:EQ.
           ++ apply path_eqb_eq in EQ. subst. congruence.
           ++ unfold fs_set. rewrite EQ. exact FQ.
        -- intros OK d0 [<-|IN]; [apply B; apply fs_set_same|apply D; assumption].
Qed.

Lemma write_file_spec ft f p data f' ok :
  os_write_file ft f p data = (f', ok) ->
  (forall q, q <> p -> f' q = f q) /\
  (ok = true -> f' p = Some (NFile data)) /\
  (ok = false -> (forall n, ft_write ft <> WAfterTrunc n) -> f' p = f p).
Proof.
  unfold os_write_file.
  destruct (negb _); [intros E; inversion E; subst; repeat split; auto; discriminate|].
  destruct (f p) as [[c|]|] eqn:FP.
  - destruct (ft_write ft) eqn:W; intros E; inversion E; subst; repeat split; auto; try discriminate.
    + intros q NE. apply fs_set_other. exact NE.
    + intros _. apply fs_set_same.
    + intros q NE. apply fs_set_other. exact NE.
    + intros _ H. exfalso. apply (H n). reflexivity.
  - intros E; inversion E; subst; repeat split; auto; discriminate.
  - destruct (ft_write ft) eqn:W; intros E; inversion E; subst; repeat split; auto; try discriminate.
    + intros q NE. apply fs_set_other. exact NE.
    + intros _. apply fs_set_same.
    + intros q NE. apply fs_set_other. exact NE.
    + intros _ H. exfalso. apply (H n). reflexivity.
Qed.

Lemma remove_spec ft f p :
  match os_remove ft f p with
  | RmOk f1 => (forall q, q <> p -> f1 q = f q) /\ f1 p = None
  | _ => True
  end.
Proof.
  unfold os_remove. destruct (f p) as [[c|]|]; auto. destruct (ft_remove ft); auto.
  split; [intros q NE; apply fs_set_other; exact NE|apply fs_set_same].
Qed.

Section Theorems.
Variable gen : fs -> gen_result.
Variable ft : faults.

(* ---------- C18: nothing but -out and the directories leading to it ---------- *)

(* every path that is neither -out nor a prefix of it keeps exactly what it had, whether
   the run succeeds or fails, whatever faults occur *)
Theorem C18_frame fl f0 q :
  q <> fl_out fl -> is_prefix q (fl_out fl) = false ->
  oc_fs (run gen ft fl f0) q = f0 q.
Proof.
  intros NE NP. unfold run, run_tail.
  destruct (Nat.ltb (fl_nargs fl) 2); [reflexivity|].
  set (ar := if fl_rm fl && negb (path_eqb (fl_out fl) []) then _ else _).
  assert (AR : match ar with inl f1 => f1 q = f0 q | inr _ => True end).
  { unfold ar. destruct (fl_rm fl && negb (path_eqb (fl_out fl) [])); [|reflexivity].
    pose proof (remove_spec ft f0 (fl_out fl)) as R.
    destruct (os_remove ft f0 (fl_out fl)); auto. destruct R as [R _]. apply R. exact NE. }
  destruct ar as [f1|e]; [|reflexivity].
  destruct (gen f1) as [bytes|e]; [|exact AR].
  destruct (path_eqb (fl_out fl) []); [exact AR|].
  destruct (os_mkdir_all ft f1 (parent (fl_out fl))) as [f2 ok] eqn:MK.
  assert (F2 : f2 q = f1 q).
  { unfold os_mkdir_all in MK. destruct (parent (fl_out fl)) as [|c r] eqn:PO; [inversion MK; reflexivity|].
    rewrite <- PO in MK. destruct (mkdir_walk_spec _ _ _ _ _ _ MK) as [A _]. apply A.
    intros IN. apply mkdir_targets_prefix in IN. congruence. }
  destruct ok; [|cbn; congruence].
  destruct (os_write_file ft f2 (fl_out fl) bytes) as [f3 ok3] eqn:WF.
  destruct (write_file_spec _ _ _ _ _ _ WF) as [A _].
  destruct ok3; cbn; rewrite (A q NE); congruence.
Qed.

(* directories leading to -out are only ever created, never changed or removed *)
Theorem C18_prefixes_only_created fl f0 q n :
  q <> fl_out fl -> f0 q = Some n -> oc_fs (run gen ft fl f0) q = Some n.
Proof.
  intros NE FQ. unfold run, run_tail.
  destruct (Nat.ltb (fl_nargs fl) 2); [exact FQ|].
  set (ar := if fl_rm fl && negb (path_eqb (fl_out fl) []) then _ else _).
  assert (AR : match ar with inl f1 => f1 q = Some n | inr _ => True end).
  { unfold ar. destruct (fl_rm fl && negb (path_eqb (fl_out fl) [])); [|exact FQ].
    pose proof (remove_spec ft f0 (fl_out fl)) as R.
    destruct (os_remove ft f0 (fl_out fl)); auto. destruct R as [R _]. rewrite (R q NE). exact FQ. }
  destruct ar as [f1|e]; [|exact FQ].
  destruct (gen f1) as [bytes|e]; [|exact AR].
  destruct (path_eqb (fl_out fl) []); [exact AR|].
  destruct (os_mkdir_all ft f1 (parent (fl_out fl))) as [f2 ok] eqn:MK.
  assert (F2 : f2 q = Some n).
  { unfold os_mkdir_all in MK. destruct (parent (fl_out fl)) as [|c r] eqn:PO; [inversion MK; subst; exact AR|].
    rewrite <- PO in MK. destruct (mkdir_walk_spec _ _ _ _ _ _ MK) as [_ [B _]]. apply B. exact AR. }
  destruct ok; [|exact F2].
  destruct (os_write_file ft f2 (fl_out fl) bytes) as [f3 ok3] eqn:WF.
  destruct (write_file_spec _ _ _ _ _ _ WF) as [A _].
  destruct ok3; cbn; rewrite (A q NE); exact F2.
Qed.

(* without -out nothing in the file system is written at all (-rm is ignored too) *)
Theorem C18_no_out fl f0 q : fl_out fl = [] -> oc_fs (run gen ft fl f0) q = f0 q.
Proof.
  intros E. unfold run, run_tail. rewrite E. cbn [path_eqb list_eqb negb andb].
  destruct (Nat.ltb (fl_nargs fl) 2); [reflexivity|]. rewrite andb_false_r.
  destruct (gen f0); reflexivity.
Qed.

(* ---------- C17: all or nothing ---------- *)

(* a failing run writes no Go source to standard output *)
Theorem C17_fail_no_stdout fl f0 e :
  oc_err (run gen ft fl f0) = Some e -> oc_stdout (run gen ft fl f0) = "".
Proof.
  unfold run, run_tail. destruct (Nat.ltb (fl_nargs fl) 2); [reflexivity|].
  destruct (if fl_rm fl && negb (path_eqb (fl_out fl) []) then _ else _) as [f1|e1]; [|reflexivity].
  destruct (gen f1); [|reflexivity].
  destruct (path_eqb (fl_out fl) []); [discriminate|].
  destruct (os_mkdir_all _ _ _) as [f2 [|]]; [|reflexivity].
  destruct (os_write_file _ _ _ _) as [f3 [|]]; reflexivity.
Qed.

(* ... and leaves an existing -out file untouched, or -- with -rm -- just gone; the one
   exception is a write that fails after the file was truncated (finding D17) *)
Theorem C17_fail_out_untouched fl f0 e :
  (forall n, ft_write ft <> WAfterTrunc n) ->
  oc_err (run gen ft fl f0) = Some e ->
  oc_fs (run gen ft fl f0) (fl_out fl) = f0 (fl_out fl) \/
  (fl_rm fl = true /\ oc_fs (run gen ft fl f0) (fl_out fl) = None).
Proof.
  intros NT. unfold run, run_tail. destruct (Nat.ltb (fl_nargs fl) 2); [left; reflexivity|].
  set (ar := if fl_rm fl && negb (path_eqb (fl_out fl) []) then _ else _).
  assert (AR : match ar with
               | inl f1 => f1 (fl_out fl) = f0 (fl_out fl) \/ (fl_rm fl = true /\ f1 (fl_out fl) = None)
               | inr _ => True end).
  { unfold ar. destruct (fl_rm fl) eqn:RM; cbn [andb]; [|left; reflexivity].
    destruct (negb (path_eqb (fl_out fl) [])); [|left; reflexivity].
    pose proof (remove_spec ft f0 (fl_out fl)) as R.
    destruct (os_remove ft f0 (fl_out fl)); auto. right. tauto. }
  destruct ar as [f1|e1]; [|left; reflexivity].
  destruct (gen f1) as [bytes|e1]; [|intros _; exact AR].
  destruct (path_eqb (fl_out fl) []) eqn:PE; [discriminate|].
  destruct (os_mkdir_all ft f1 (parent (fl_out fl))) as [f2 ok] eqn:MK.
  assert (F2 : f2 (fl_out fl) = f1 (fl_out fl)).
  { unfold os_mkdir_all in MK. destruct (parent (fl_out fl)) as [|c r] eqn:PO; [inversion MK; reflexivity|].
    rewrite <- PO in MK. destruct (mkdir_walk_spec _ _ _ _ _ _ MK) as [A _]. apply A.
    intros IN. refine (mkdir_targets_shorter _ _ _ IN eq_refl). intros E0. rewrite E0 in PE. discriminate PE. }
  destruct ok; [|intros _; cbn; rewrite F2; exact AR].
  destruct (os_write_file ft f2 (fl_out fl) bytes) as [f3 ok3] eqn:WF.
  destruct (write_file_spec _ _ _ _ _ _ WF) as [_ [_ C]].
  destruct ok3; [discriminate|]. intros _. cbn. rewrite (C eq_refl NT), F2. exact AR.
Qed.

(* success: exactly the complete file, once; missing parents exist afterwards *)
Theorem C17_success fl f0 :
  oc_err (run gen ft fl f0) = None ->
  exists f1 bytes,
    gen f1 = GenOk bytes /\
    (fl_out fl = [] ->
       oc_stdout (run gen ft fl f0) = bytes /\ forall q, oc_fs (run gen ft fl f0) q = f0 q) /\
    (fl_out fl <> [] ->
       oc_stdout (run gen ft fl f0) = "" /\
       oc_fs (run gen ft fl f0) (fl_out fl) = Some (NFile bytes) /\
       forall d, In d (ancestors (fl_out fl)) -> oc_fs (run gen ft fl f0) d = Some NDir).
Proof.
  unfold run, run_tail. destruct (Nat.ltb (fl_nargs fl) 2); [discriminate|].
  set (ar := if fl_rm fl && negb (path_eqb (fl_out fl) []) then _ else _).
  assert (AR : fl_out fl = [] -> ar = inl f0).
  { intros E. unfold ar. rewrite E. cbn. rewrite andb_false_r. reflexivity. }
  destruct ar as [f1|e1] eqn:EAR; [|discriminate].
  destruct (gen f1) as [bytes|e1] eqn:G; [|discriminate].
  destruct (path_eqb (fl_out fl) []) eqn:PE.
  - apply path_eqb_eq in PE. intros _. exists f1, bytes. split; [exact G|]. split; [|congruence].
    intros _. cbn. specialize (AR PE). inversion AR; subst. split; reflexivity.
  - destruct (os_mkdir_all ft f1 (parent (fl_out fl))) as [f2 ok] eqn:MK. destruct ok; [|discriminate].
    destruct (os_write_file ft f2 (fl_out fl) bytes) as [f3 ok3] eqn:WF. destruct ok3; [|discriminate].
    intros _. exists f1, bytes. split; [exact G|]. split.
    + intros E. rewrite E in PE. discriminate PE.
    + intros _. cbn. destruct (write_file_spec _ _ _ _ _ _ WF) as [A [B _]].
      split; [reflexivity|]. split; [apply B; reflexivity|].
      intros d IN.
      assert (NE : d <> fl_out fl).
      { intros ->. apply (ancestors_from_length [] _ _) in IN. simpl in IN. lia. }
      rewrite (A d NE).
      unfold os_mkdir_all in MK. destruct (parent (fl_out fl)) as [|c r] eqn:PO.
      * (* a bare file name has no ancestors *)
        exfalso. unfold parent in PO. destruct (fl_out fl) as [|x [|y l]]; simpl in IN; try contradiction.
        change (removelast (x :: y :: l)) with (x :: removelast (y :: l)) in PO. discriminate PO.
      * rewrite <- PO in MK. destruct (mkdir_walk_spec _ _ _ _ _ _ MK) as [_ [_ D]].
        apply D; [reflexivity|]. apply ancestors_split. exact IN.
Qed.


(* ---------- C15: with -rm the result does not depend on what was at -out ---------- *)

Definition fs_eq (f g : fs) : Prop := forall p, f p = g p.

Lemma mkdir_walk_ext ft0 f g todo k :
  fs_eq f g ->
  fs_eq (fst (mkdir_walk ft0 f todo k)) (fst (mkdir_walk ft0 g todo k)) /\
  snd (mkdir_walk ft0 f todo k) = snd (mkdir_walk ft0 g todo k).
Proof.
  revert f g k. induction todo as [|d rest IH]; intros f g k E; simpl; [split; [exact E|reflexivity]|].
  rewrite <- (E d). destruct (f d) as [[c|]|]; [split; [exact E|reflexivity]|apply IH; exact E|].
  destruct (match ft0 with Some k0 => Nat.eqb k0 k | None => false end); [split; [exact E|reflexivity]|].
  apply IH. intros q. unfold fs_set. destruct (path_eqb q d); [reflexivity|apply E].
Qed.

Lemma write_file_ext f g p data :
  fs_eq f g ->
  fs_eq (fst (os_write_file ft f p data)) (fst (os_write_file ft g p data)) /\
  snd (os_write_file ft f p data) = snd (os_write_file ft g p data).
Proof.
  intros E. unfold os_write_file.
  assert (PO : (match parent p with [] => true | d => match f d with Some NDir => true | _ => false end end)
             = (match parent p with [] => true | d => match g d with Some NDir => true | _ => false end end)).
  { destruct (parent p) as [|s0 l0]; [reflexivity|]. rewrite (E (s0 :: l0)). reflexivity. }
  rewrite PO. destruct (negb _); [split; [exact E|reflexivity]|].
  rewrite <- (E p).
  assert (SET : forall n, fs_eq (fs_set f p n) (fs_set g p n)).
  { intros n q. unfold fs_set. destruct (path_eqb q p); [reflexivity|apply E]. }
  destruct (f p) as [[c|]|]; try (split; [exact E|reflexivity]);
    destruct (ft_write ft); simpl; split; auto.
Qed.

(* gen reads the file system only through its contents *)
Hypothesis gen_ext : forall f g, fs_eq f g -> gen f = gen g.

Theorem C15_rm fl f0 g0 :
  2 <= fl_nargs fl ->
  fl_rm fl = true -> fl_out fl <> [] -> ft_remove ft = false ->
  (forall p, p <> fl_out fl -> f0 p = g0 p) ->
  f0 (fl_out fl) <> Some NDir -> g0 (fl_out fl) <> Some NDir ->
  oc_err (run gen ft fl f0) = oc_err (run gen ft fl g0) /\
  oc_stdout (run gen ft fl f0) = oc_stdout (run gen ft fl g0) /\
  fs_eq (oc_fs (run gen ft fl f0)) (oc_fs (run gen ft fl g0)).
Proof.
  intros NA RM NE NF AG DF DG. unfold run.
  assert (LT : Nat.ltb (fl_nargs fl) 2 = false) by (apply Nat.ltb_ge; exact NA).
  rewrite LT, RM. rewrite (path_eqb_neq _ _ NE). cbn [negb andb].
  assert (TAIL : forall f1 g1, fs_eq f1 g1 ->
            oc_err (run_tail gen ft fl f1) = oc_err (run_tail gen ft fl g1) /\
            oc_stdout (run_tail gen ft fl f1) = oc_stdout (run_tail gen ft fl g1) /\
            fs_eq (oc_fs (run_tail gen ft fl f1)) (oc_fs (run_tail gen ft fl g1))).
  { intros f1 g1 EQ. unfold run_tail.
    rewrite (gen_ext f1 g1 EQ). destruct (gen g1) as [bytes|e]; [|cbn; auto].
    rewrite (path_eqb_neq _ _ NE).
    unfold os_mkdir_all. destruct (parent (fl_out fl)) as [|c r] eqn:PO.
    - destruct (write_file_ext f1 g1 (fl_out fl) bytes EQ) as [W1 W2].
      destruct (os_write_file ft f1 (fl_out fl) bytes) as [f3 ok3].
      destruct (os_write_file ft g1 (fl_out fl) bytes) as [g3 ok3']. cbn in W1, W2. subst ok3'.
      destruct ok3; cbn; auto.
    - destruct (mkdir_walk_ext (ft_mkdir_at ft) f1 g1 (ancestors (c :: r) ++ [c :: r]) 0 EQ) as [M1 M2].
      destruct (mkdir_walk (ft_mkdir_at ft) f1 _ 0) as [f2 ok].
      destruct (mkdir_walk (ft_mkdir_at ft) g1 _ 0) as [g2 ok']. cbn in M1, M2. subst ok'.
      destruct ok; [|cbn; auto].
      destruct (write_file_ext f2 g2 (fl_out fl) bytes M1) as [W1 W2].
      destruct (os_write_file ft f2 (fl_out fl) bytes) as [f3 ok3].
      destruct (os_write_file ft g2 (fl_out fl) bytes) as [g3 ok3']. cbn in W1, W2. subst ok3'.
      destruct ok3; cbn; auto. }
  assert (AGREE : forall h1 h2,
            h1 (fl_out fl) = None -> h2 (fl_out fl) = None ->
            (forall p, p <> fl_out fl -> h1 p = f0 p) -> (forall p, p <> fl_out fl -> h2 p = g0 p) ->
            fs_eq h1 h2).
  { intros h1 h2 N1 N2 O1 O2 q. destruct (path_eqb q (fl_out fl)) eqn:Q.
    - apply path_eqb_eq in Q. subst. congruence.
    - assert (q <> fl_out fl) by (intros ->; rewrite path_eqb_refl in Q; discriminate).
      rewrite O1, O2 by assumption. apply AG. assumption. }
  unfold os_remove. rewrite NF.
  destruct (f0 (fl_out fl)) as [[cf|]|] eqn:F; [|congruence|];
    (destruct (g0 (fl_out fl)) as [[cg|]|] eqn:G; [|congruence|]); apply TAIL; apply AGREE;
    try apply fs_set_same; try assumption; try (intros q Q; apply fs_set_other; exact Q); reflexivity.
Qed.

End Theorems.

(* the one way a failing run damages an existing file: the write fails after the file
   was truncated (finding D17); a concrete witness, evaluated by the kernel *)
Example C17_write_refuted :
  let f0 : fs := fun p => if path_eqb p ["a_moq.go"] then Some (NFile "OLD CONTENT") else None in
  let r := run (fun _ => GenOk "NEW CONTENT") (mkFaults false None (WAfterTrunc 3))
               (mkFlags ["a_moq.go"] false 2) f0 in
  oc_err r = Some "write" /\ oc_fs r ["a_moq.go"] = Some (NFile "NEW").
Proof. vm_compute. split; reflexivity. Qed.

(* ---------- C16: formatter dispatch ---------- *)
Section FormatTheorems.
Variables gofmt goimports : string -> gen_result.

Theorem C16_dispatch src :
  format gofmt goimports "goimports" src = goimports src /\
  format gofmt goimports "noop" src = GenOk src /\
  format gofmt goimports "" src = gofmt src /\
  format gofmt goimports "gofmt" src = gofmt src /\
  (forall f, f <> "goimports"%string -> f <> "noop"%string -> format gofmt goimports f src = gofmt src).
Proof.
  repeat split; try reflexivity. intros f N1 N2. unfold format.
  destruct (String.eqb_spec f "goimports"); [contradiction|].
  destruct (String.eqb_spec f "noop"); [contradiction|]. reflexivity.
Qed.

(* gofmt applied to the noop output is the default output *)
Theorem C16_noop_then_gofmt src out :
  format gofmt goimports "noop" src = GenOk out -> gofmt out = format gofmt goimports "" src.
Proof. intros E. cbn in E. inversion E; subst. reflexivity. Qed.

(* with an idempotent gofmt the default output is what gofmt leaves unchanged *)
Theorem C16_canonical src out :
  (forall s o, gofmt s = GenOk o -> gofmt o = GenOk o) ->
  format gofmt goimports "" src = GenOk out -> gofmt out = GenOk out.
Proof. intros IDEM E. cbn in E. apply (IDEM _ _ E). Qed.
End FormatTheorems.
