(* P_C20.v -- C20: one mock per requested interface, named as requested, in order. *)
From Moq Require Import Strs Strs_Proofs GoTypes TypeString VarName Registry Scope Gen.
Local Open Scope string_scope.

(* ---- Interface:Name ---- *)
Fixpoint has_char (c : ascii) (s : string) : bool :=
  match s with EmptyString => false | String d r => Ascii.eqb c d || has_char c r end.

Lemma cut_first_none c s acc : has_char c s = false -> cut_first c s acc = None.
Proof.
  revert acc. induction s as [|d s IH]; intros acc; simpl; [reflexivity|].
  intros H. apply orb_false_elim in H. destruct H as [H1 H2]. rewrite H1. apply IH. exact H2.
Qed.

Lemma cut_first_some c a b acc :
  has_char c a = false ->
  cut_first c (a ++ String c b) acc = Some (rev_str (rev_str_aux a acc), b).
Proof.
  revert acc. induction a as [|d a IH]; intros acc; simpl.
  - intros _. rewrite Ascii.eqb_refl. reflexivity.
  - intros H. apply orb_false_elim in H. destruct H as [H1 H2]. rewrite H1. apply IH. exact H2.
Qed.

(* "I" names mock IMock; "I:N" names it exactly N, splitting at the FIRST colon *)
Theorem C20_parse_plain (s : string) :
  has_char ":"%char s = false -> parse_interface_name s = (s, s ++ "Mock").
Proof. intros H. unfold parse_interface_name. rewrite (cut_first_none _ _ _ H). reflexivity. Qed.

Theorem C20_parse_alias (a b : string) :
  has_char ":"%char a = false -> parse_interface_name (a ++ ":" ++ b) = (a, b).
Proof.
  intros H. unfold parse_interface_name. change (":" ++ b) with (String ":"%char b).
  rewrite (cut_first_some _ _ _ _ H). fold (rev_str a). rewrite rev_str_involutive. reflexivity.
Qed.

(* ---- the mocks of a successful run are exactly the requested ones, in argument order ---- *)
Lemma collect_names i cfg r args r' rks :
  collect i cfg r args = Ok (r', rks) ->
  map (fun k => (rk_iface k, rk_name k)) rks = map parse_interface_name args.
Proof.
  revert r r' rks. induction args as [|np rest IH]; intros r r' rks; simpl.
  - intros E. inversion E; subst. reflexivity.
  - destruct (parse_interface_name np) as [name mock_name] eqn:PN.
    destruct (assoc name (in_lookup i)) as [[| |ms ty tps meths]|]; try discriminate.
    destruct (methods_data cfg r meths) as [[r1 rms]| | | |]; try discriminate. simpl.
    destruct (type_params cfg r1 tps) as [[r2 tsc]| | | |]; try discriminate. simpl.
    destruct (collect i cfg r2 rest) as [[r3 rks']| | | |] eqn:C; try discriminate. simpl.
    intros E. inversion E; subst. simpl. f_equal. eapply IH. exact C.
Qed.

Theorem C20_count_order_names i c args d :
  mock_run i c args = Ok d ->
  map (fun k => (mk_iface k, mk_name k)) (d_mocks d) = map parse_interface_name args.
Proof.
  unfold mock_run. destruct args as [|a args]; [discriminate|].
  destruct (collect i (rcfg_of i c) [] (a :: args)) as [[r1 rks]| | | |] eqn:C; try discriminate.
  cbn [bind].
  destruct (if existsb _ rks then _ else Ok r1) as [r2| | | |]; try discriminate. cbn [bind].
  destruct (if String.eqb (p_name (in_src i)) (mock_pkg_name i c) then _ else _) as [[r3 q]| | | |];
    try discriminate. cbn [bind].
  intros E. inversion E; subst. cbn [d_mocks]. rewrite map_map. cbn [finish_mock mk_iface mk_name].
  apply (collect_names _ _ _ _ _ _ C).
Qed.

Corollary C20_count i c args d :
  mock_run i c args = Ok d -> List.length (d_mocks d) = List.length args.
Proof.
  intros E. apply C20_count_order_names in E.
  rewrite <- (map_length (fun k => (mk_iface k, mk_name k))), E, map_length. reflexivity.
Qed.

(* ---- independence: methods and their types come from the interface alone ---- *)

(* AddVar appends exactly one variable, carrying the go/types type it was given; renames of
   earlier variables never touch their types *)
Lemma rename_first_tys vs a b : map v_ty (rename_first vs a b) = map v_ty vs.
Proof.
  induction vs as [|v vs IH]; simpl; [reflexivity|].
  destruct (String.eqb (v_name v) a); simpl; [reflexivity|]. rewrite IH. reflexivity.
Qed.
Lemma rename_for_imports_tys vs qs : map v_ty (rename_for_imports vs qs) = map v_ty vs.
Proof.
  revert vs. induction qs as [|q qs IH]; intros vs; simpl; [reflexivity|].
  rewrite IH. destruct (has_var vs q); [apply rename_first_tys|reflexivity].
Qed.

Lemma add_var_tys cfg r sc name t suffix r' sc' idx :
  add_var cfg r sc name t suffix = Ok (r', sc', idx) ->
  map v_ty (sc_vars sc') = (map v_ty (sc_vars sc) ++ [t])%list.
Proof.
  unfold add_var. destruct (populate cfg r (refs t) []) as [[r1 imps]| | | |]; try discriminate.
  cbn [bind].
  set (vs1 := rename_for_imports (sc_vars sc) (var_quals r1 imps)).
  set (n1 := match search_import r1 (var_name name t suffix) with Some _ => _ | None => _ end).
  destruct (has_var vs1 n1 || str_mem n1 (sc_conflicted sc)).
  - unfold resolve_var_name_conflict. cbn [sc_vars sc_conflicted].
    destruct (first_free _ vs1 n1 1) as [[|[|k]]|]; try discriminate; cbn [bind].
    + intros E. inversion E; subst. cbn [sc_vars]. rewrite map_app. cbn [map v_ty].
      unfold vs1. rewrite rename_for_imports_tys. reflexivity.
    + destruct (first_free _ _ n1 2) as [n|]; [|discriminate]. cbn [bind].
      intros E. inversion E; subst. cbn [sc_vars]. rewrite map_app. cbn [map v_ty].
      destruct (has_var vs1 n1); [rewrite rename_first_tys|];
        unfold vs1; rewrite rename_for_imports_tys; reflexivity.
    + intros E. inversion E; subst. cbn [sc_vars]. rewrite map_app. cbn [map v_ty].
      unfold vs1. rewrite rename_for_imports_tys. reflexivity.
  - cbn [bind]. intros E. inversion E; subst. cbn [sc_vars]. rewrite map_app. cbn [map v_ty].
    unfold vs1. rewrite rename_for_imports_tys. reflexivity.
Qed.

Lemma add_vars_tys cfg r sc vs suffix r' sc' :
  add_vars cfg r sc vs suffix = Ok (r', sc') ->
  map v_ty (sc_vars sc') = (map v_ty (sc_vars sc) ++ map snd vs)%list.
Proof.
  revert r sc. induction vs as [|[n t] vs IH]; intros r sc; simpl.
  - intros E. inversion E; subst. rewrite app_nil_r. reflexivity.
  - destruct (add_var cfg r sc n t suffix) as [[[r1 sc1] idx]| | | |] eqn:A; try discriminate. cbn [bind].
    intros E. rewrite (IH _ _ E). rewrite (add_var_tys _ _ _ _ _ _ _ _ _ A). rewrite <- app_assoc. reflexivity.
Qed.

(* whatever else was generated in the same run (other interfaces, in any order), the
   variables of a method carry exactly the parameter and result types of its signature *)
Theorem C20_method_types_independent cfg r m r' rm :
  method_data cfg r m = Ok (r', rm) ->
  rm_name rm = m_name m /\
  map v_ty (sc_vars (rm_scope rm)) = (map snd (s_params (m_sig m)) ++ map snd (s_results (m_sig m)))%list /\
  rm_nparams rm = List.length (s_params (m_sig m)) /\ rm_variadic rm = s_variadic (m_sig m).
Proof.
  unfold method_data.
  destruct (add_vars cfg r empty_scope (s_params (m_sig m)) "") as [[r1 sc1]| | | |] eqn:A1; try discriminate.
  cbn [bind].
  destruct (add_vars cfg r1 sc1 (s_results (m_sig m)) "Out") as [[r2 sc2]| | | |] eqn:A2; try discriminate.
  cbn [bind]. intros E. inversion E; subst. cbn. repeat split.
  rewrite (add_vars_tys _ _ _ _ _ _ _ A2), (add_vars_tys _ _ _ _ _ _ _ A1). reflexivity.
Qed.
