(* TmplAst.v -- the abstract syntax the translator emits for moqTemplate
   (the subset of text/template/parse's tree that moq uses). *)
From Moq Require Import Strs.

Inductive texpr :=
| EDot
| EVar (name : string)
| EField (base : texpr) (name : string)
| ECall (fn : string) (args : list texpr)
| EStr (s : string)
| EUnknown (src : string).

Inductive tnode :=
| NText (s : string)
| NAction (e : texpr)
| NIf (c : texpr) (thn els : list tnode)
| NRange (ivar vvar : string) (e : texpr) (body : list tnode)
| NUnknown (src : string).
