(* Pin_moq_new.v -- the model was written from exactly this source text (tie, see DESIGN 2.4). *)
From Moq Require Import Strs SkeletonPins.
From Moq.gen Require Import Skeletons.
Theorem pin_moq_new : src_moq_new = pinned_moq_new. Proof. reflexivity. Qed.
