(* L1Check.v -- correspondence of the registry / method-scope model with the real
   internal/registry package on HISTORIES of AddImport and AddVar over synthetic go/types
   objects (harness: `vh l1`).  Observed through the exported API only: the final name and
   type string of every variable, and Registry.Imports(). *)
From Moq Require Import Strs GoTypes TypeString VarName Registry Scope.
Local Open Scope list_scope.

Inductive l1op :=
| L1Scope                                    (* Registry.MethodScope(): a fresh scope *)
| L1Import (p : pkg)                         (* Registry.AddImport *)
| L1Var (name : string) (t : ty) (suffix : string).   (* MethodScope.AddVar *)

Record l1hist := mkL1 {
  l1_id : string;
  l1_moq : string;                           (* moqPkgPath *)
  l1_specs : list (string * string);         (* import specs of the source package's files *)
  l1_ops : list l1op }.

Inductive l1obs :=
| L1Ok (vars : list (list (string * string))) (imports : list (string * string))
| L1Panic
| L1Crash.

Record l1state := mkL1S { ls_reg : registry; ls_cur : scope; ls_done : list scope }.

Definition l1_step (cfg : rcfg) (st : l1state) (o : l1op) : outcome l1state :=
  match o with
  | L1Scope => Ok (mkL1S (ls_reg st) empty_scope (ls_done st ++ [ls_cur st]))
  | L1Import p =>
    match add_import cfg (ls_reg st) p with
    | AddSelf => Ok st
    | AddOk r _ => Ok (mkL1S r (ls_cur st) (ls_done st))
    | AddDiverges => OutOfFuel "resolveImportConflict"
    end
  | L1Var name t suffix =>
    bind (add_var cfg (ls_reg st) (ls_cur st) name t suffix) (fun '(r, sc, _) =>
    Ok (mkL1S r sc (ls_done st)))
  end.

Fixpoint l1_run (cfg : rcfg) (st : l1state) (ops : list l1op) : outcome l1state :=
  match ops with
  | [] => Ok st
  | o :: r => bind (l1_step cfg st o) (fun st' => l1_run cfg st' r)
  end.

Definition l1_model (h : l1hist) : outcome (list (list (string * string)) * list (string * string)) :=
  let cfg := mkRcfg (l1_moq h) (parse_aliases (l1_specs h) []) in
  bind (l1_run cfg (mkL1S [] empty_scope []) (l1_ops h)) (fun st =>
  let scopes := ls_done st ++ [ls_cur st] in
  Ok (map (fun sc => map (fun v => (v_name v, var_type_string cfg (ls_reg st) v)) (sc_vars sc)) scopes,
      map (fun i => (i_path i, qualifier i)) (imports_sorted (ls_reg st)))).

(* how the additions of a history are resolved (classes of Registry.classify_add) *)
Fixpoint count_adds (cfg : rcfg) (r : registry) (ps : list pkg) (acc : list nat) : registry * list nat :=
  match ps with
  | [] => (r, acc)
  | p :: rest =>
    let k := classify_add cfg r p in
    let acc' := map (fun '(j, n) => if Nat.eqb j k then S n else n) (combine (seq 0 4) acc) in
    count_adds cfg (match add_import cfg r p with AddOk r' _ => r' | _ => r end) rest acc'
  end.
Fixpoint l1_count (cfg : rcfg) (r : registry) (ops : list l1op) (acc : list nat) : list nat :=
  match ops with
  | [] => acc
  | L1Scope :: rest => l1_count cfg r rest acc
  | L1Import p :: rest => let '(r', acc') := count_adds cfg r [p] acc in l1_count cfg r' rest acc'
  | L1Var _ t _ :: rest => let '(r', acc') := count_adds cfg r (refs t) acc in l1_count cfg r' rest acc'
  end.
Definition l1_classes (h : l1hist) : string :=
  let cfg := mkRcfg (l1_moq h) (parse_aliases (l1_specs h) []) in
  join "," (map itoa (l1_count cfg [] (l1_ops h) [0; 0; 0; 0])).

Definition pair_eqb (a b : string * string) : bool := String.eqb (fst a) (fst b) && String.eqb (snd a) (snd b).
Definition vars_eqb (a b : list (list (string * string))) : bool :=
  list_eqb a b (fun x y => list_eqb x y pair_eqb).

(* what differs: names, types (of the variables), imports -- so that a disagreement is reported
   against the properties that are about the differing part *)
Definition l1_verdict (h : l1hist) (o : l1obs) : string :=
  match l1_model h, o with
  | Ok (vs, ims), L1Ok vs' ims' =>
    let names := list_eqb (map (map fst) vs) (map (map fst) vs') (fun x y => list_eqb x y String.eqb) in
    let types := list_eqb (map (map snd) vs) (map (map snd) vs') (fun x y => list_eqb x y String.eqb) in
    let imps := list_eqb ims ims' pair_eqb in
    if names && types && imps then "ok"
    else "DIFF" ++ (if names then "" else "-names") ++ (if types then "" else "-types")
                ++ (if imps then "" else "-imports")
  | OutOfFuel _, L1Crash => "ok-diverges"
  | OrderDependent _, L1Ok _ _ => "skip-order"
  | Crash _, L1Panic => "ok-crash"
  | Ok _, L1Crash => "DIFF-impl-crash"
  | Ok _, L1Panic => "DIFF-impl-panic"
  | OutOfFuel _, _ => "DIFF-model-diverges"
  | Crash _, _ => "DIFF-model-crash"
  | OrderDependent _, _ => "DIFF-model-order"
  | Err _, _ => "DIFF-model-err"
  end.

Definition l1_verdicts (cs : list (l1hist * l1obs)) : list (string * string) :=
  map (fun c => (l1_id (fst c), (l1_verdict (fst c) (snd c) ++ "|" ++ l1_classes (fst c))%string)) cs.
