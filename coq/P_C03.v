(* P_C03.v -- C03: calls are delegated faithfully to the configured function.
   Stated for EVERY mock program accepted by the checker [canonical]; the check runs the
   checker (vm_compute) on the programs lifted from what moq emits now. *)
From Moq Require Import Strs MockSem MockSpec MockSeq_Proofs.
Local Open Scope list_scope.

(* The delegation step itself needs nothing but the method's own body to have the
   checked shape: it does not depend on the accessors or the reset methods. *)
Theorem C03_call_core grow stub mk m mm body args res st :
  find_method mk m = Some mm -> mm_name mm = m -> mm_body mm = Some body ->
  canonical_body stub mm body = true ->
  List.length args = mm_nparams mm -> lock_of st m = LFree ->
  exists st2,
    run_op grow mk (OCall m args (Some (Impl [] res))) st =
    Some (st2, [EvInvoke m (map ASame args);
                match res with
                | FRet rs => EvReturn m (if Nat.eqb (mm_nresults mm) 0 then [] else rs)
                | FPanic v => EvPanic m (PUser v)
                end]).
Proof.
  intros FM NAME MB CB LEN FREE. rewrite run_op_call, FM, MB.
  destruct (canonical_body_inv _ _ _ CB) as [msg [fs [spec [BODY [CF CA]]]]]. cbn zeta in BODY.
  subst body. rewrite NAME in *.
  destruct stub; cbn [app exec]; rewrite NAME; rewrite FREE; cbn [lc_rec lc_loaded];
    (destruct (go_append grow _ _ _) as [h s]);
    rewrite lock_set_hdr, lock_of_mk, lock_set_same; rewrite String.eqb_refl;
    rewrite (canonical_argvals mm _ args CA LEN); cbn [run_ops app];
    (destruct res; [destruct (Nat.eqb (mm_nresults mm) 0) eqn:Z; cbn [negb]|]); eexists; reflexivity.
Qed.

Section C03.
Variable grow : nat -> nat.
Hypothesis grow_grows : forall n, n < grow n.
Variables stub resets : bool.
Variable mk : mmock.
Hypothesis CAN : canonical stub resets mk = true.

(* One call with the function field set, in any state reached by any history: the trace
   is exactly  Invoke M [the caller's values, in order, the variadic tail as the SAME
   slice]  ++ (whatever the function itself does to the mock) ++ [the function's result,
   or its panic value, observed by the caller].  Nothing else is invoked by M. *)
Theorem C03_once_and_forward m mm args cb res st :
  find_method mk m = Some mm -> List.length args = mm_nparams mm -> SInv st ->
  run_op grow mk (OCall m args (Some (Impl cb res))) st =
  match run_ops grow mk cb (do_record grow st m (rec_of mm args)) with
  | None => None
  | Some (st2, evs_cb) =>
    Some (st2, EvInvoke m (map ASame args) :: evs_cb ++
               [match res with
                | FRet rs => EvReturn m (if Nat.eqb (mm_nresults mm) 0 then [] else rs)
                | FPanic v => EvPanic m (PUser v)
                end])
  end.
Proof.
  intros FM LEN INV.
  destruct (find_method_canonical stub resets mk CAN m mm FM) as [CM NAME].
  unfold canonical_method in CM. repeat (apply andb_prop in CM; destruct CM as [CM ?]).
  destruct (mm_body mm) as [body|] eqn:MB; [|discriminate].
  rewrite run_op_call, FM, MB.
  rewrite (exec_call_some grow stub mm body args cb res _ st) by assumption.
  rewrite NAME. unfold final_event. rewrite NAME. reflexivity.
Qed.

(* with a function that does not touch the mock: exactly one invocation, then the result *)
Corollary C03_plain_call m mm args res st :
  find_method mk m = Some mm -> List.length args = mm_nparams mm -> SInv st ->
  exists st2,
    run_op grow mk (OCall m args (Some (Impl [] res))) st =
    Some (st2, [EvInvoke m (map ASame args);
                match res with
                | FRet rs => EvReturn m (if Nat.eqb (mm_nresults mm) 0 then [] else rs)
                | FPanic v => EvPanic m (PUser v)
                end]).
Proof.
  intros FM LEN INV. rewrite (C03_once_and_forward m mm args [] res st FM LEN INV). simpl.
  eexists. reflexivity.
Qed.

(* whole histories: the program's trace is the specification's trace *)
Theorem C03_histories l :
  forallb (wf_op mk resets) l = true ->
  exists st' evs lg' sevs,
    run_ops grow mk l init_state = Some (st', evs) /\
    spec_ops stub mk l empty_logs = Some (lg', sevs) /\
    Forall2 (ev_match (st_heap st')) evs sevs.
Proof.
  intros WF.
  destruct (refine_ops grow grow_grows stub resets mk CAN l WF init_state empty_logs init_inv
                       (fun x => init_abs x))
    as [st' [evs [lg' [sevs [R [S [_ [_ [_ M]]]]]]]]].
  exists st', evs, lg', sevs. auto.
Qed.
End C03.
