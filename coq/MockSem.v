(* MockSem.v -- the generated mock as a program: an instruction language for the bodies
   the template emits (lifted from moq's real output by the harness), a sequential
   semantics with re-entrant callbacks, Go slices over a heap of backing arrays, and the
   syntactic checkers [canonical] and [disciplined].  Definitions only. *)
From Moq Require Import Strs.
Local Open Scope list_scope.

(* ---------- syntax ---------- *)

Inductive instr :=
| INilPanic (m : string) (msg : string)        (* if mock.MFunc == nil { panic(msg) } *)
| IBuildRec (fields : list (string * nat))     (* callInfo := struct{..}{F: param_i, ..} *)
| ILock (m : string) | IUnlock (m : string)    (* mock.lockM.Lock() / Unlock() *)
| IRLock (m : string) | IRUnlock (m : string)
| IAppend (m : string)                         (* mock.calls.M = append(mock.calls.M, callInfo) *)
| ISetNil (m : string)                         (* mock.calls.M = nil *)
| IDeclCalls                                   (* var calls []struct{..} *)
| ILoad (m : string)                           (* calls = mock.calls.M *)
| IRetLoaded                                   (* return calls *)
| INilRetZero (m : string) (nres : nat)        (* if mock.MFunc == nil { var (..); return .. } *)
| ICall (m : string) (args : list (nat * bool)) (ret : bool)
                                               (* [return] mock.MFunc(p_i [...], ..) *)
| IUnknown (src : string).

Record mmethod := mkMM {
  mm_name : string;
  mm_nparams : nat;
  mm_variadic : bool;
  mm_nresults : nat;
  mm_body : option (list instr);     (* method M *)
  mm_calls : option (list instr);    (* accessor MCalls *)
  mm_reset : option (list instr);    (* ResetMCalls *)
  mm_record : list string;           (* field names of the call record in calls.M *)
  mm_has_lock : bool }.

Record mmock := mkMock {
  mo_name : string;
  mo_methods : list mmethod;
  mo_reset_all : option (list instr);
  mo_extra : list string }.          (* methods on the mock type outside these families *)

Definition find_method (mk : mmock) (m : string) : option mmethod :=
  find (fun mm => String.eqb (mm_name mm) m) (mo_methods mk).

(* ---------- values, slices, heap ---------- *)

Definition val := nat.
Definition zero_val : val := 0.
Inductive argval := ASame (v : val) | AWrapped (v : val).
Definition record := list (string * val).

(* a Go slice header: backing array id, length.  Array 0 is reserved for nil. *)
Record slice := mkSlice { s_arr : nat; s_len : nat }.
Definition nil_slice : slice := mkSlice 0 0.

(* a backing array: the cells written so far (a cell is written when an append stores to
   it) and its capacity *)
Record barray := mkArr { a_cells : list record; a_cap : nat }.
Definition heap := list barray.               (* array id n is (nth (n-1)) *)

Definition get_arr (h : heap) (a : nat) : barray :=
  match a with O => mkArr [] 0 | S k => nth k h (mkArr [] 0) end.

Fixpoint set_nth {A} (l : list A) (n : nat) (x : A) : list A :=
  match l, n with
  | [], _ => []
  | _ :: r, O => x :: r
  | y :: r, S k => y :: set_nth r k x
  end.
Definition set_arr (h : heap) (a : nat) (b : barray) : heap :=
  match a with O => h | S k => set_nth h k b end.

(* what a slice value denotes in a heap *)
Definition denote (h : heap) (s : slice) : list record :=
  firstn (s_len s) (a_cells (get_arr h (s_arr s))).

Section Grow.
(* append's capacity policy; the only thing assumed about it is that it grows *)
Variable grow : nat -> nat.

(* append(s, r): in place when capacity allows (overwriting whatever another slice
   sharing the array stored there), otherwise into a fresh array *)
Definition go_append (h : heap) (s : slice) (r : record) : heap * slice :=
  let b := get_arr h (s_arr s) in
  if Nat.ltb (s_len s) (a_cap b) then
    let cells := a_cells b in
    let cells' := if Nat.ltb (s_len s) (List.length cells)
                  then set_nth cells (s_len s) r
                  else firstn (s_len s) cells ++ [r] in
    (set_arr h (s_arr s) (mkArr cells' (a_cap b)), mkSlice (s_arr s) (S (s_len s)))
  else
    let cells' := firstn (s_len s) (a_cells b) ++ [r] in
    (h ++ [mkArr cells' (grow (s_len s))], mkSlice (S (List.length h)) (S (s_len s))).

(* ---------- operations on a mock and what the test's functions do ---------- *)

Inductive fres := FRet (rs : list val) | FPanic (v : val).

(* one operation of a history.  A call carries what the function field holds for it:
   None = nil, Some (Impl cb res) = a function that performs the operations cb on the
   same mock (re-entrancy) and then returns or panics *)
Inductive op :=
| OCall (m : string) (args : list val) (f : option impl)
| OCalls (m : string)
| OReset (m : string)
| OResetAll
with impl := Impl (cb : list op) (res : fres).

Inductive pval := PUser (v : val) | PNil (msg : string).

Inductive event :=
| EvInvoke (m : string) (args : list argval)   (* the function field of m was invoked *)
| EvReturn (m : string) (rs : list val)        (* the caller of M got these results *)
| EvPanic (m : string) (p : pval)              (* the caller of M observed this panic *)
| EvSnapshot (m : string) (s : slice)          (* MCalls() returned this slice value *)
| EvReset (m : option string).                 (* ResetMCalls() / ResetCalls() returned *)

(* sequential view of one RWMutex: free, write-held, or read-held n times *)
Inductive lockst := LFree | LW | LR (n : nat).

Record mstate := mkSt {
  st_heap : heap;
  st_hdr : list (string * slice);        (* mock.calls.M, absent = zero value = nil *)
  st_locks : list (string * lockst) }.
Definition init_state : mstate := mkSt [] [] [].

Definition hdr (st : mstate) (m : string) : slice :=
  match assoc m (st_hdr st) with Some s => s | None => nil_slice end.
Definition lock_of (st : mstate) (m : string) : lockst :=
  match assoc m (st_locks st) with Some l => l | None => LFree end.
Definition upd {A} (l : list (string * A)) (k : string) (v : A) : list (string * A) :=
  (k, v) :: filter (fun kv => negb (String.eqb (fst kv) k)) l.
Definition set_hdr (st : mstate) (m : string) (s : slice) : mstate :=
  mkSt (st_heap st) (upd (st_hdr st) m s) (st_locks st).
Definition set_lock (st : mstate) (m : string) (l : lockst) : mstate :=
  mkSt (st_heap st) (st_hdr st) (upd (st_locks st) m l).

Definition arg_of (args : list val) (variadic : bool) (nparams : nat) (spec : nat * bool) : argval :=
  let '(i, spread) := spec in
  let v := nth i args zero_val in
  if variadic && Nat.eqb (S i) nparams && negb spread then AWrapped v else ASame v.

(* locals of one activation *)
Record locals := mkLoc { lc_rec : record; lc_loaded : slice }.

(* Running a body.  [who] is the method being executed (for the events), [args] its
   arguments, [f] the function field's content for this call, [cbrun] runs the callback
   operations of f (it is only used when that very function is invoked).  None = stuck: a lock that is not available to this single thread
   (self-deadlock) or an instruction outside the language. *)
Fixpoint exec (mm : mmethod) (args : list val) (f : option impl)
         (cbrun : mstate -> option (mstate * list event))
         (body : list instr) (lc : locals) (st : mstate) {struct body}
  : option (mstate * list event) :=
  match body with
  | [] => Some (st, [EvReturn (mm_name mm) []])
  | i :: rest =>
    let continue := exec mm args f cbrun rest in
    match i with
    | INilPanic x msg =>
      match f with
      | None => Some (st, [EvPanic (mm_name mm) (PNil msg)])
      | Some _ => continue lc st
      end
    | IBuildRec fields =>
      continue (mkLoc (map (fun '(n, i) => (n, nth i args zero_val)) fields) (lc_loaded lc)) st
    | ILock x =>
      match lock_of st x with
      | LFree => continue lc (set_lock st x LW)
      | _ => None
      end
    | IUnlock x =>
      match lock_of st x with
      | LW => continue lc (set_lock st x LFree)
      | _ => None                       (* fatal error: sync: Unlock of unlocked RWMutex *)
      end
    | IRLock x =>
      match lock_of st x with
      | LFree => continue lc (set_lock st x (LR 1))
      | LR n => continue lc (set_lock st x (LR (S n)))
      | LW => None
      end
    | IRUnlock x =>
      match lock_of st x with
      | LR 1 => continue lc (set_lock st x LFree)
      | LR (S (S n)) => continue lc (set_lock st x (LR (S n)))
      | _ => None
      end
    | IAppend x =>
      let '(h, s) := go_append (st_heap st) (hdr st x) (lc_rec lc) in
      continue lc (set_hdr (mkSt h (st_hdr st) (st_locks st)) x s)
    | ISetNil x => continue lc (set_hdr st x nil_slice)
    | IDeclCalls => continue (mkLoc (lc_rec lc) nil_slice) st
    | ILoad x => continue (mkLoc (lc_rec lc) (hdr st x)) st
    | IRetLoaded => Some (st, [EvSnapshot (mm_name mm) (lc_loaded lc)])
    | INilRetZero x n =>
      match f with
      | None => Some (st, [EvReturn (mm_name mm) (repeat zero_val n)])
      | Some _ => continue lc st
      end
    | ICall x spec ret =>
      let argvals := map (arg_of args (mm_variadic mm) (mm_nparams mm)) spec in
      match (if String.eqb x (mm_name mm) then f else Some (Impl [] (FRet []))) with
      | None => None                     (* nil function called: runtime panic, never canonical *)
      | Some (Impl _ res) =>
        match (if String.eqb x (mm_name mm) then cbrun st else Some (st, [])) with
        | None => None
        | Some (st1, evs) =>
          match res with
          | FPanic v => Some (st1, EvInvoke x argvals :: evs ++ [EvPanic (mm_name mm) (PUser v)])
          | FRet rs =>
            if ret then Some (st1, EvInvoke x argvals :: evs ++ [EvReturn (mm_name mm) rs])
            else match continue lc st1 with
                 | None => None
                 | Some (st2, evs2) => Some (st2, EvInvoke x argvals :: evs ++ evs2)
                 end
          end
        end
      end
    | IUnknown _ => None
    end
  end.

(* ResetMCalls / ResetCalls bodies end by falling off the end *)
Definition exec_plain (name : string) (body : list instr) (st : mstate)
  : option (mstate * list event) :=
  exec (mkMM name 0 false 0 None None None [] false) [] None (fun st => Some (st, []))
       body (mkLoc [] nil_slice) st.

Definition retarget (evs : list event) (e : event) : list event :=
  (* a reset falls off the end of its body: replace the generic return event *)
  match rev evs with
  | EvReturn _ [] :: r => rev r ++ [e]
  | _ => evs
  end.

Fixpoint run_op (mk : mmock) (o : op) (st : mstate) {struct o} : option (mstate * list event) :=
  let run_ops := fix go (l : list op) (st : mstate) : option (mstate * list event) :=
    match l with
    | [] => Some (st, [])
    | o :: r =>
      match run_op mk o st with
      | None => None
      | Some (st1, e1) =>
        match go r st1 with
        | None => None
        | Some (st2, e2) => Some (st2, e1 ++ e2)
        end
      end
    end in
  match o with
  | OCall m args f =>
    match find_method mk m with
    | Some mm =>
      match mm_body mm with
      | Some body =>
        exec mm args f
             (match f with
              | Some (Impl cb _) => fun st => run_ops cb st
              | None => fun st => Some (st, [])
              end)
             body (mkLoc [] nil_slice) st
      | None => None
      end
    | None => None
    end
  | OCalls m =>
    match find_method mk m with
    | Some mm =>
      match mm_calls mm with
      | Some body => exec mm [] None (fun st => Some (st, [])) body (mkLoc [] nil_slice) st
      | None => None
      end
    | None => None
    end
  | OReset m =>
    match find_method mk m with
    | Some mm =>
      match mm_reset mm with
      | Some body =>
        match exec_plain m body st with
        | Some (st1, evs) => Some (st1, retarget evs (EvReset (Some m)))
        | None => None
        end
      | None => None
      end
    | None => None
    end
  | OResetAll =>
    match mo_reset_all mk with
    | Some body =>
      match exec_plain "" body st with
      | Some (st1, evs) => Some (st1, retarget evs (EvReset None))
      | None => None
      end
    | None => None
    end
  end.

Fixpoint run_ops (mk : mmock) (l : list op) (st : mstate) : option (mstate * list event) :=
  match l with
  | [] => Some (st, [])
  | o :: r =>
    match run_op mk o st with
    | None => None
    | Some (st1, e1) =>
      match run_ops mk r st1 with
      | None => None
      | Some (st2, e2) => Some (st2, e1 ++ e2)
      end
    end
  end.

End Grow.

(* ---------- the checkers ---------- *)

Fixpoint seq_from (i n : nat) : list nat :=
  match n with O => [] | S k => i :: seq_from (S i) k end.

(* each parameter goes to its own field, in parameter order, under the record's names *)
Definition canonical_fields (mm : mmethod) (fields : list (string * nat)) : bool :=
  list_eqb (map snd fields) (seq_from 0 (mm_nparams mm)) Nat.eqb
  && list_eqb (map fst fields) (mm_record mm) String.eqb
  && nodupb (mm_record mm).

(* every parameter forwarded once, in order; the spread exactly on a variadic tail *)
Definition canonical_args (mm : mmethod) (spec : list (nat * bool)) : bool :=
  list_eqb (map fst spec) (seq_from 0 (mm_nparams mm)) Nat.eqb
  && list_eqb (map snd spec)
              (map (fun i => mm_variadic mm && Nat.eqb (S i) (mm_nparams mm))
                   (seq_from 0 (mm_nparams mm))) Bool.eqb.

Definition canonical_body (stub : bool) (mm : mmethod) (body : list instr) : bool :=
  let m := mm_name mm in
  let ret := negb (Nat.eqb (mm_nresults mm) 0) in
  match stub, body with
  | false, [INilPanic a _; IBuildRec fs; ILock b; IAppend c; IUnlock d; ICall e spec r] =>
    String.eqb a m && String.eqb b m && String.eqb c m && String.eqb d m && String.eqb e m
    && canonical_fields mm fs && canonical_args mm spec && Bool.eqb r ret
  | true, [IBuildRec fs; ILock b; IAppend c; IUnlock d; INilRetZero a n; ICall e spec r] =>
    String.eqb a m && String.eqb b m && String.eqb c m && String.eqb d m && String.eqb e m
    && canonical_fields mm fs && canonical_args mm spec && Bool.eqb r ret
    && Nat.eqb n (mm_nresults mm)
  | _, _ => false
  end.

Definition canonical_calls (mm : mmethod) (body : list instr) : bool :=
  match body with
  | [IDeclCalls; IRLock a; ILoad b; IRUnlock c; IRetLoaded] =>
    String.eqb a (mm_name mm) && String.eqb b (mm_name mm) && String.eqb c (mm_name mm)
  | _ => false
  end.

Definition canonical_reset (m : string) (body : list instr) : bool :=
  match body with
  | [ILock a; ISetNil b; IUnlock c] => String.eqb a m && String.eqb b m && String.eqb c m
  | _ => false
  end.

Fixpoint canonical_reset_all (ms : list string) (body : list instr) : bool :=
  match ms, body with
  | [], [] => true
  | m :: ms', ILock a :: ISetNil b :: IUnlock c :: rest =>
    String.eqb a m && String.eqb b m && String.eqb c m && canonical_reset_all ms' rest
  | _, _ => false
  end.

Definition canonical_method (stub resets : bool) (mm : mmethod) : bool :=
  mm_has_lock mm
  && match mm_body mm with Some b => canonical_body stub mm b | None => false end
  && match mm_calls mm with Some b => canonical_calls mm b | None => false end
  && match mm_reset mm with
     | Some b => resets && canonical_reset (mm_name mm) b
     | None => negb resets
     end.

Definition canonical (stub resets : bool) (mk : mmock) : bool :=
  forallb (canonical_method stub resets) (mo_methods mk)
  && nodupb (map mm_name (mo_methods mk))
  && match mo_reset_all mk with
     | Some b => resets && canonical_reset_all (map mm_name (mo_methods mk)) b
     | None => negb resets
     end
  && match mo_extra mk with [] => true | _ => false end.

(* lock discipline, flow-based: which lock of the mock this activation holds *)
Inductive mode := MNone | MW (m : string) | MR (m : string).

Fixpoint disciplined_from (md : mode) (body : list instr) : bool :=
  match body with
  | [] => match md with MNone => true | _ => false end
  | i :: rest =>
    match i, md with
    | ILock x, MNone => disciplined_from (MW x) rest
    | IUnlock x, MW y => String.eqb x y && disciplined_from MNone rest
    | IRLock x, MNone => disciplined_from (MR x) rest
    | IRUnlock x, MR y => String.eqb x y && disciplined_from MNone rest
    | IAppend x, MW y => String.eqb x y && disciplined_from md rest
    | ISetNil x, MW y => String.eqb x y && disciplined_from md rest
    | ILoad x, MW y => String.eqb x y && disciplined_from md rest
    | ILoad x, MR y => String.eqb x y && disciplined_from md rest
    | IBuildRec _, _ => disciplined_from md rest
    | IDeclCalls, _ => disciplined_from md rest
    | INilPanic _ _, MNone => disciplined_from md rest
    | INilRetZero _ _, MNone => disciplined_from md rest
    | ICall _ _ _, MNone => disciplined_from md rest
    | IRetLoaded, MNone => true          (* returns: nothing after it runs *)
    | _, _ => false
    end
  end.

Definition disciplined_method (mm : mmethod) : bool :=
  match mm_body mm with Some b => disciplined_from MNone b | None => false end
  && match mm_calls mm with Some b => disciplined_from MNone b | None => false end
  && match mm_reset mm with Some b => disciplined_from MNone b | None => true end.

Definition disciplined (mk : mmock) : bool :=
  forallb disciplined_method (mo_methods mk)
  && match mo_reset_all mk with Some b => disciplined_from MNone b | None => true end
  && match mo_extra mk with [] => true | _ => false end.
