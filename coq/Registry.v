(* Registry.v -- model of internal/registry/registry.go (AddImport, searchImport,
   resolveImportConflict, Imports, parseImportsAliases) and package.go
   (Qualifier, Path, uniqueName, stripVendorPath).  Definitions only. *)
From Moq Require Import Strs GoTypes.
From Moq.gen Require Import Tables.
Local Open Scope list_scope.

Record imp := mkImp { i_path : string; i_name : string; i_alias : string }.

Definition qualifier (i : imp) : string :=
  if String.eqb (i_alias i) "" then i_name i else i_alias i.

(* stripVendorPath: strings.Split(p, "/vendor/"); path.Join(parts[1:]...) skips empty
   elements; TrimLeft "/" *)
Definition strip_vendor (p : string) : string :=
  match split_on "/vendor/" p with
  | [] => p
  | [_] => p
  | _ :: rest =>
    trim_left_slash (join "/" (filter (fun s => negb (String.eqb s "")) rest))
  end.

Definition sanitize_with (pairs : list (string * string)) (s : string) : string :=
  to_lower (replace_all pairs s).
Definition sanitize : string -> string := sanitize_with replacer_pairs.

(* Package.uniqueName(lvl): the last min(len, lvl+1) path components, sanitised,
   concatenated in path order *)
Definition unique_name_with (pairs : list (string * string)) (path : string) (lvl : nat) : string :=
  let pp := rev (split_on "/" path) in
  concat_all (rev (map (sanitize_with pairs) (firstn (S lvl) pp))).
Definition unique_name : string -> nat -> string := unique_name_with replacer_pairs.

(* parseImportsAliases: later import specs win; dot and blank are skipped; the key is
   the path exactly as written *)
Fixpoint parse_aliases (specs : list (string * string)) (acc : list (string * string))
  : list (string * string) :=
  match specs with
  | [] => acc
  | (path, name) :: r =>
    if String.eqb name "" || String.eqb name "." || String.eqb name "_"
    then parse_aliases r acc
    else parse_aliases r ((path, name) :: filter (fun kv => negb (String.eqb (fst kv) path)) acc)
  end.

Record rcfg := mkRcfg {
  moq_pkg_path : string;
  src_aliases : list (string * string) }.

Definition registry := list imp.            (* the imports map, in insertion order *)

Definition find_path (r : registry) (path : string) : option imp :=
  find (fun i => String.eqb (i_path i) path) r.

(* searchImport ranges over a Go map: with pairwise distinct qualifiers at most one
   entry matches and the order is irrelevant; matches r q lists all of them *)
Definition matches (r : registry) (q : string) : list imp :=
  filter (fun i => String.eqb (qualifier i) q) r.
Definition search_import (r : registry) (q : string) : option imp :=
  match matches r q with [] => None | i :: _ => Some i end.

Definition set_alias (r : registry) (path alias : string) : registry :=
  map (fun i => if String.eqb (i_path i) path then mkImp (i_path i) (i_name i) alias else i) r.

(* The state of one AddImport call while conflicts are being resolved: the package
   being added lives outside the map (searchImport cannot see it). *)
Record rstate := mkRstate { rs_new : imp; rs_map : registry }.

Inductive pref := PNew | PIn (path : string).

Definition ref_path (st : rstate) (p : pref) : string :=
  match p with PNew => i_path (rs_new st) | PIn path => path end.
Definition ref_eqb (a b : pref) : bool :=
  match a, b with
  | PNew, PNew => true
  | PIn x, PIn y => String.eqb x y
  | _, _ => false
  end.
Definition assign (st : rstate) (p : pref) (alias : string) : rstate :=
  match p with
  | PNew => mkRstate (mkImp (i_path (rs_new st)) (i_name (rs_new st)) alias) (rs_map st)
  | PIn path => mkRstate (rs_new st) (set_alias (rs_map st) path alias)
  end.

(* resolveImportConflict(a, b, lvl); None = fuel exhausted (the Go code recurses
   without bound: stack overflow).  A name held by the OTHER package of the same call is
   not a conflict (that package is renamed by this very call): the repair of D12. *)
Fixpoint resolve (fuel : nat) (st : rstate) (a b : pref) (lvl : nat) : option rstate :=
  match fuel with
  | O => None
  | S f =>
    if String.eqb (unique_name (ref_path st a) lvl) (unique_name (ref_path st b) lvl)
    then resolve f st a b (S lvl)
    else
      let one := fun (st : option rstate) (p other : pref) =>
        match st with
        | None => None
        | Some st =>
          let name := unique_name (ref_path st p) lvl in
          match search_import (rs_map st) name with
          | Some c =>
            if ref_eqb (PIn (i_path c)) p || ref_eqb (PIn (i_path c)) other then Some (assign st p name)
            else resolve f st p (PIn (i_path c)) (S lvl)
          | None => Some (assign st p name)
          end
        end in
      one (one (Some st) a b) b a
  end.

Definition resolve_fuel : nat := 64.

Inductive add_result :=
| AddSelf                      (* the destination package itself: AddImport returns nil *)
| AddOk (r : registry) (path : string)
| AddDiverges.

Definition add_import (cfg : rcfg) (r : registry) (p : pkg) : add_result :=
  let path := strip_vendor (p_path p) in
  if String.eqb path (moq_pkg_path cfg) then AddSelf
  else match find_path r path with
  | Some _ => AddOk r path
  | None =>
    let alias := match assoc path (src_aliases cfg) with Some a => a | None => "" end in
    let i := mkImp path (p_name p) alias in
    match search_import r (qualifier i) with
    | None => AddOk (r ++ [i]) path
    | Some c =>
      match resolve resolve_fuel (mkRstate i r) PNew (PIn (i_path c)) 0 with
      | None => AddDiverges
      | Some st => AddOk (rs_map st ++ [rs_new st]) path
      end
    end
  end.

(* Imports(): sorted by path *)
Definition imports_sorted (r : registry) : list imp :=
  sort_by (fun a b => String.ltb (i_path a) (i_path b)) r.

(* qualifiers pairwise distinct: the invariant under which searchImport is a function *)
Definition inv_distinct (r : registry) : bool := nodupb (map qualifier r).
Definition paths_distinct (r : registry) : bool := nodupb (map i_path r).

(* ---- a conflict that is resolved DIRECTLY: at level l, the first at which the two packages'
   unique names differ, neither name is held by a third import (Distinct_Proofs.v proves that
   such additions keep the qualifiers pairwise distinct; the check counts how many of a run's
   additions are of this kind) ---- *)
Definition un (i : imp) (l : nat) : string := unique_name (i_path i) l.
Definition held_only_by (r : registry) (q : string) (c : imp) : bool :=
  match search_import r q with None => true | Some x => String.eqb (i_path x) (i_path c) end.
Definition direct (r : registry) (i c : imp) (l : nat) : bool :=
  forallb (fun k => String.eqb (un i k) (un c k)) (seq 0 l)
  && negb (String.eqb (un i l) (un c l))
  && negb (String.eqb (un i l) "") && negb (String.eqb (un c l) "")
  && held_only_by r (un i l) c && held_only_by r (un c l) c.
Fixpoint first_diff (i c : imp) (l fuel : nat) : option nat :=
  match fuel with
  | O => None
  | S f => if String.eqb (un i l) (un c l) then first_diff i c (S l) f else Some l
  end.
(* 0: known or the destination, 1: no conflict, 2: conflict resolved directly, 3: anything else *)
Definition classify_add (cfg : rcfg) (r : registry) (p : pkg) : nat :=
  let path := strip_vendor (p_path p) in
  if String.eqb path (moq_pkg_path cfg) then 0
  else match find_path r path with
  | Some _ => 0
  | None =>
    let i := mkImp path (p_name p) (match assoc path (src_aliases cfg) with Some a => a | None => "" end) in
    match search_import r (qualifier i) with
    | None => 1
    | Some c => match first_diff i c 0 16 with
                | Some l => if direct r i c l then 2 else 3
                | None => 3
                end
    end
  end.
