(* Scope.v -- model of internal/registry/method_scope.go (AddVar, searchVar,
   resolveVarNameConflict, populateImports, resolveImportVarConflicts) and of
   Var.TypeString / Var.packageQualifier (var.go).  Definitions only. *)
From Moq Require Import Strs GoTypes TypeString VarName Registry.

Inductive outcome (A : Type) :=
| Ok (a : A)
| Err (msg : string)
| OutOfFuel (site : string)        (* the Go code would recurse/loop without bound *)
| Crash (site : string)            (* the Go code would dereference nil there *)
| OrderDependent (site : string).  (* the result depends on Go's map iteration order *)
Arguments Ok {A}. Arguments Err {A}. Arguments OutOfFuel {A}.
Arguments Crash {A}. Arguments OrderDependent {A}.

Definition bind {A B} (x : outcome A) (f : A -> outcome B) : outcome B :=
  match x with
  | Ok a => f a
  | Err m => Err m
  | OutOfFuel s => OutOfFuel s
  | Crash s => Crash s
  | OrderDependent s => OrderDependent s
  end.

(* one allocated variable: its current name, the go/types variable it stands for and
   the map populateImports filled: path -> was a *Package returned (false = nil,
   i.e. the destination package itself) *)
Record var := mkVar {
  v_name : string;
  v_ty : ty;
  v_imps : list (string * bool) }.

Record scope := mkScope {
  sc_vars : list var;
  sc_conflicted : list string }.

Definition empty_scope : scope := mkScope [] [].

Definition search_var (vs : list var) (name : string) : option var :=
  find (fun v => String.eqb (v_name v) name) vs.
Definition has_var (vs : list var) (name : string) : bool :=
  existsb (fun v => String.eqb (v_name v) name) vs.

(* rename the FIRST variable called [name] (searchVar returns the first) *)
Fixpoint rename_first (vs : list var) (name : string) (new : string) : list var :=
  match vs with
  | [] => []
  | v :: r =>
    if String.eqb (v_name v) name then mkVar new (v_ty v) (v_imps v) :: r
    else v :: rename_first r name new
  end.

(* the smallest n >= start such that suggested ++ itoa n names no variable; fuel bounds
   the search (C19_numbering_terminates: length vars + 1 steps always suffice) *)
Fixpoint first_free (fuel : nat) (vs : list var) (suggested : string) (n : nat) : option nat :=
  match fuel with
  | O => None
  | S f => if has_var vs (suggested ++ itoa n) then first_free f vs suggested (S n) else Some n
  end.

(* resolveVarNameConflict.  The first time a stem conflicts, the variable holding the bare
   stem (if it still exists: an import may have renamed it away) becomes <stem>1, the stem is
   remembered as conflicted, and the search goes on from 2. *)
Definition resolve_var_name_conflict (sc : scope) (suggested : string)
  : outcome (string * scope) :=
  let fuel := S (S (List.length (sc_vars sc))) in
  match first_free fuel (sc_vars sc) suggested 1 with
  | None => OutOfFuel "resolveVarNameConflict"
  | Some 1 =>
    let vs1 := if has_var (sc_vars sc) suggested
               then rename_first (sc_vars sc) suggested (suggested ++ "1")
               else sc_vars sc in
    match first_free fuel vs1 suggested 2 with
    | None => OutOfFuel "resolveVarNameConflict"
    | Some n => Ok (suggested ++ itoa n, mkScope vs1 (suggested :: sc_conflicted sc))
    end
  | Some n => Ok (suggested ++ itoa n, sc)
  end.

(* populateImports: AddImport for every package the walk visits, recording the result
   in the variable's map (later visits of the same path overwrite with the same value) *)
Fixpoint populate (cfg : rcfg) (r : registry) (ps : list pkg) (imps : list (string * bool))
  : outcome (registry * list (string * bool)) :=
  match ps with
  | [] => Ok (r, imps)
  | p :: rest =>
    let path := strip_vendor (p_path p) in
    let put := fun (b : bool) =>
      if existsb (fun kv => String.eqb (fst kv) path) imps then imps else (imps ++ [(path, b)])%list in
    match add_import cfg r p with
    | AddSelf => populate cfg r rest (put false)
    | AddOk r' _ => populate cfg r' rest (put true)
    | AddDiverges => OutOfFuel "resolveImportConflict"
    end
  end.

Definition imp_qualifier (r : registry) (kv : string * bool) : string :=
  if snd kv then match find_path r (fst kv) with Some i => qualifier i | None => "" end
  else "".

(* resolveImportVarConflicts.  The renames do not commute when a qualifier q and q ++ "MoqParam"
   are both present (or a qualifier occurs twice): until the repair of D16 the Go code ranged over
   the map and the result depended on the iteration order; it now visits the imports in the order
   of their sorted paths.  [rename_order_sensitive] is kept as the condition under which the old
   code was order dependent (P_C14). *)
Definition rename_order_sensitive (quals : list string) : bool :=
  existsb (fun q => negb (String.eqb q "") && str_mem (q ++ "MoqParam") quals) quals
  || negb (nodupb (filter (fun q => negb (String.eqb q "")) quals)).

Fixpoint rename_for_imports (vs : list var) (quals : list string) : list var :=
  match quals with
  | [] => vs
  | q :: r =>
    rename_for_imports
      (if has_var vs q then rename_first vs q (q ++ "MoqParam") else vs) r
  end.

(* the qualifiers of a variable's imports, in the order of the sorted import paths *)
Definition var_quals (r1 : registry) (imps : list (string * bool)) : list string :=
  map (imp_qualifier r1) (sort_by (fun a b => String.ltb (fst a) (fst b)) imps).

(* AddVar(vr, suffix) for a go/types variable with name [name] and type [t] *)
Definition add_var (cfg : rcfg) (r : registry) (sc : scope)
           (name : string) (t : ty) (suffix : string)
  : outcome (registry * scope * nat) :=
  bind (populate cfg r (refs t) []) (fun '(r1, imps) =>
  let vs1 := rename_for_imports (sc_vars sc) (var_quals r1 imps) in
  let n0 := var_name name t suffix in
  let n1 := match search_import r1 n0 with Some _ => n0 ++ "MoqParam" | None => n0 end in
  let sc1 := mkScope vs1 (sc_conflicted sc) in
  bind (if has_var vs1 n1 || str_mem n1 (sc_conflicted sc)
        then resolve_var_name_conflict sc1 n1
        else Ok (n1, sc1)) (fun '(n2, sc2) =>
  Ok (r1, mkScope (sc_vars sc2 ++ [mkVar n2 t imps])%list (sc_conflicted sc2),
      List.length (sc_vars sc2)))).

(* Var.packageQualifier and Var.TypeString, evaluated when the template runs, i.e.
   against the FINAL registry *)
Definition var_qualifier (cfg : rcfg) (rfinal : registry) (v : var) (p : pkg) : string :=
  let path := strip_vendor (p_path p) in
  if negb (String.eqb (moq_pkg_path cfg) "") && String.eqb (moq_pkg_path cfg) path then ""
  else match assoc path (v_imps v) with
       | Some true => match find_path rfinal path with Some i => qualifier i | None => "" end
       | _ => ""
       end.
Definition var_type_string (cfg : rcfg) (rfinal : registry) (v : var) : string :=
  type_string (var_qualifier cfg rfinal v) (v_ty v).
