(* TmplRegion_method.v -- closedness of one region of the template regenerated from /repo. *)
From Moq Require Import Strs TmplAst TmplClosed TmplRegions.
From Moq.gen Require Import TemplateSrc.

Theorem method_region_closed : regions_found moq_template && closed (method_region moq_template) = true.
Proof. vm_compute. reflexivity. Qed.
