(* TmplClosed.v -- obligations on the template REGENERATED from /repo:
   (1) every if/range in it tests one of the known data-shape conditions, and every
       function it calls is one of the known four: so the set of body shapes the template
       can emit is the finite shape space the checks enumerate completely, and a new
       conditional (e.g. "only for methods with more than 8 parameters") is a broken
       obligation before it is a missed bug;
   (2) the output of every execution starts with the generated-code marker (C16). *)
From Moq Require Import Strs TmplAst GoTypes Registry Scope Gen TmplExec.
From Moq.gen Require Import TemplateSrc.
Local Open Scope string_scope.

(* equality of control expressions up to the NAMES of template variables other than the root
   "$": {{if $mock.TypeParams}} and {{if $m.TypeParams}} are the same condition (the field
   decides which data it can be applied to), so renaming a template variable is not a change of
   control flow *)
Fixpoint texpr_eqb (a b : texpr) {struct a} : bool :=
  match a, b with
  | EDot, EDot => true
  | EVar x, EVar y => String.eqb x y || (negb (String.eqb x "$") && negb (String.eqb y "$"))
  | EField a1 x, EField b1 y => texpr_eqb a1 b1 && String.eqb x y
  | ECall f xs, ECall g ys =>
    String.eqb f g &&
    (fix go (l1 l2 : list texpr) : bool :=
       match l1, l2 with
       | [], [] => true
       | x :: r1, y :: r2 => texpr_eqb x y && go r1 r2
       | _, _ => false
       end) xs ys
  | EStr x, EStr y => String.eqb x y
  | _, _ => false
  end.

Definition allowed_conds : list texpr :=
  [ ECall "not" [EField (EVar "$") "SkipEnsure"];
    ECall "not" [EField (EVar "$") "StubImpl"];
    EField (EVar "$") "StubImpl";
    EField (EVar "$") "WithResets";
    EField EDot "TypeParams";
    EField (EVar "$mock") "TypeParams";
    EField EDot "Returns";
    EField (EVar "$param") "Constraint";
    EVar "$index" ].

Definition allowed_ranges : list texpr :=
  [ EField EDot "Imports"; EField EDot "Mocks"; EField EDot "Methods"; EField EDot "Params";
    EField EDot "Returns"; EField EDot "TypeParams"; EField (EVar "$mock") "TypeParams" ].

Definition allowed_funcs : list string := ["Exported"; "ImportStatement"; "SyncPkgQualifier"].

Fixpoint action_ok (e : texpr) : bool :=
  match e with
  | EDot | EVar _ => true
  | EField b _ => action_ok b
  | ECall f args =>
    str_mem f allowed_funcs &&
    (fix go (l : list texpr) : bool := match l with [] => true | x :: r => action_ok x && go r end) args
  | EStr _ => true
  | EUnknown _ => false
  end.

Fixpoint node_closed (n : tnode) : bool :=
  let all := fix go (l : list tnode) : bool :=
    match l with [] => true | x :: r => node_closed x && go r end in
  match n with
  | NText _ => true
  | NAction e => action_ok e
  | NIf c thn els => existsb (texpr_eqb c) allowed_conds && all thn && all els
  | NRange _ _ e body => existsb (texpr_eqb e) allowed_ranges && all body
  | NUnknown _ => false
  end.

Definition template_control_closed (t : list tnode) : bool := forallb node_closed t.


