(* Benign.v -- a computed guard on whole runs: every AddImport the run performs is of a class for
   which Distinct_Proofs shows that qualifiers stay pairwise distinct (known / destination, no
   conflict, conflict resolved directly).  Definitions only; mirrors the registry threading of
   Gen.mock_run step by step. *)
From Moq Require Import Strs GoTypes TypeString VarName Registry Scope Gen.
Local Open Scope list_scope.

Definition after_add (cfg : rcfg) (r : registry) (p : pkg) : registry :=
  match add_import cfg r p with AddOk r' _ => r' | _ => r end.

Fixpoint benign_pkgs (cfg : rcfg) (r : registry) (ps : list pkg) : bool :=
  match ps with
  | [] => true
  | p :: rest => Nat.ltb (classify_add cfg r p) 3 && benign_pkgs cfg (after_add cfg r p) rest
  end.

Fixpoint benign_vars (cfg : rcfg) (r : registry) (sc : scope) (vs : list (string * ty)) (suffix : string) : bool :=
  match vs with
  | [] => true
  | (n, t) :: rest =>
    benign_pkgs cfg r (refs t) &&
    match add_var cfg r sc n t suffix with
    | Ok (r1, sc1, _) => benign_vars cfg r1 sc1 rest suffix
    | _ => true
    end
  end.

Definition benign_method (cfg : rcfg) (r : registry) (m : method) : bool :=
  benign_vars cfg r empty_scope (s_params (m_sig m)) "" &&
  match add_vars cfg r empty_scope (s_params (m_sig m)) "" with
  | Ok (r1, sc1) => benign_vars cfg r1 sc1 (s_results (m_sig m)) "Out"
  | _ => true
  end.

Fixpoint benign_methods (cfg : rcfg) (r : registry) (ms : list method) : bool :=
  match ms with
  | [] => true
  | m :: rest =>
    benign_method cfg r m &&
    match method_data cfg r m with
    | Ok (r1, _) => benign_methods cfg r1 rest
    | _ => true
    end
  end.

Fixpoint benign_collect (i : input) (cfg : rcfg) (r : registry) (args : list string) : bool :=
  match args with
  | [] => true
  | np :: rest =>
    match assoc (fst (parse_interface_name np)) (in_lookup i) with
    | Some (LIface _ _ tps ms) =>
      benign_methods cfg r ms &&
      match methods_data cfg r ms with
      | Ok (r1, _) =>
        benign_vars cfg r1 empty_scope (map (fun tp => (tp_name tp, tp_constraint tp)) tps) "" &&
        match type_params cfg r1 tps with
        | Ok (r2, _) => benign_collect i cfg r2 rest
        | _ => true
        end
      | _ => true
      end
    | _ => true
    end
  end.

Definition benign_run (i : input) (c : config) (args : list string) : bool :=
  let cfg := rcfg_of i c in
  benign_collect i cfg [] args &&
  match collect i cfg [] args with
  | Ok (r1, rks) =>
    let some_method := existsb (fun k => match rk_methods k with [] => false | _ => true end) rks in
    (if some_method then Nat.ltb (classify_add cfg r1 sync_pkg) 3 else true) &&
    let r2 := if some_method then after_add cfg r1 sync_pkg else r1 in
    if String.eqb (p_name (in_src i)) (mock_pkg_name i c) then true
    else if c_skip_ensure c then true
    else Nat.ltb (classify_add cfg r2 (in_src i)) 3
  | _ => true
  end.

(* ---- the same for parameter names: at every AddVar, the import-driven renames (q -> qMoqParam)
   of the variables already in the scope land on no name that is taken (the residual family of
   C12_add_var_keeps_distinct, as a computed guard on the whole run) ---- *)
Definition names_step_ok (cfg : rcfg) (r : registry) (sc : scope) (t : ty) : bool :=
  match populate cfg r (refs t) [] with
  | Ok (r1, imps) => nodupb (map v_name (rename_for_imports (sc_vars sc) (var_quals r1 imps)))
  | _ => true
  end.

Fixpoint names_vars_ok (cfg : rcfg) (r : registry) (sc : scope) (vs : list (string * ty)) (suffix : string) : bool :=
  match vs with
  | [] => true
  | (n, t) :: rest =>
    names_step_ok cfg r sc t &&
    match add_var cfg r sc n t suffix with
    | Ok (r1, sc1, _) => names_vars_ok cfg r1 sc1 rest suffix
    | _ => true
    end
  end.

Definition names_method_ok (cfg : rcfg) (r : registry) (m : method) : bool :=
  names_vars_ok cfg r empty_scope (s_params (m_sig m)) "" &&
  match add_vars cfg r empty_scope (s_params (m_sig m)) "" with
  | Ok (r1, sc1) => names_vars_ok cfg r1 sc1 (s_results (m_sig m)) "Out"
  | _ => true
  end.

Fixpoint names_methods_ok (cfg : rcfg) (r : registry) (ms : list method) : bool :=
  match ms with
  | [] => true
  | m :: rest =>
    names_method_ok cfg r m &&
    match method_data cfg r m with
    | Ok (r1, _) => names_methods_ok cfg r1 rest
    | _ => true
    end
  end.

Fixpoint names_collect_ok (i : input) (cfg : rcfg) (r : registry) (args : list string) : bool :=
  match args with
  | [] => true
  | np :: rest =>
    match assoc (fst (parse_interface_name np)) (in_lookup i) with
    | Some (LIface _ _ tps ms) =>
      names_methods_ok cfg r ms &&
      match methods_data cfg r ms with
      | Ok (r1, _) =>
        match type_params cfg r1 tps with
        | Ok (r2, _) => names_collect_ok i cfg r2 rest
        | _ => true
        end
      | _ => true
      end
    | _ => true
    end
  end.

Definition names_run_ok (i : input) (c : config) (args : list string) : bool :=
  names_collect_ok i (rcfg_of i c) [] args.
