(* P_C11_exact.v -- C11 / C01 / C10: the import block is EXACT, for every input on which the run
   succeeds (no guard): nothing missing, nothing else, and each printed qualifier is the
   qualifier of the import of that very package.  Statements only; proofs in Imports_Proofs.v
   and Printer_Proofs.v. *)
From Moq Require Import Strs GoTypes TypeString VarName Registry Scope Gen WellScoped
     Printer_Proofs Imports_Proofs P_C11 P_C10.
Local Open Scope list_scope.

(* the model of types.TypeString consults the qualifier function only for the packages in
   [mentions] ... *)
Theorem C11_printer_consults_mentions (q1 q2 : pkg -> string) (t : ty) :
  (forall p, In p (mentions t) -> q1 p = q2 p) -> type_string q1 t = type_string q2 t.
Proof. exact (type_string_ext q1 q2 t). Qed.

(* ... all of which the import walk visits, whatever the type *)
Theorem C11_walk_covers_printer : forall t, incl (mentions t) (refs t).
Proof. exact mentions_incl_refs. Qed.

(* no missing import, no wrongly resolved qualifier: every parameter, result and constraint is
   printed, for each package it mentions, with the qualifier of THE import of that package in
   the final block (bare for the destination package), and that package is imported *)
Theorem C11_exact_no_missing i c args d :
  mock_run i c args = Ok d ->
  forall k, In k (d_mocks d) ->
    (forall m p, In m (mk_methods k) -> In p (md_params m ++ md_returns m) ->
       pd_type p = type_string (final_qual (rcfg_of i c) (d_imports d)) (pd_ty p) /\
       forall q, In q (refs (pd_ty p)) ->
         ppath q = moq_pkg_path (rcfg_of i c) \/ In (ppath q) (map i_path (d_imports d))) /\
    (forall td, In td (mk_tparams k) ->
       exists t, td_type td = type_string (final_qual (rcfg_of i c) (d_imports d)) t /\
                 forall q, In q (refs t) ->
                   ppath q = moq_pkg_path (rcfg_of i c) \/ In (ppath q) (map i_path (d_imports d))).
Proof. exact (imports_complete i c args d). Qed.

(* nothing else: an import is sync (some mock has a method), the source package (the self-check
   line is written from another package), or a package of a requested interface's types *)
Theorem C11_exact_nothing_else i c args d :
  mock_run i c args = Ok d ->
  forall im, In im (d_imports d) ->
    (i_path im = "sync"%string /\ mocks_some_method (d_mocks d) = true) \/
    (i_path im = ppath (in_src i) /\ p_name (in_src i) <> mock_pkg_name i c /\ c_skip_ensure c = false) \/
    exists q, In q (tys_refs (requested_types i args)) /\ i_path im = ppath q.
Proof. exact (imports_sound i c args d). Qed.

(* EXACTLY: a path is in the import block iff it is not the destination package and it is sync
   (some mock has a method), or the source package (self-check line from another package), or
   the package of a type in a signature or constraint of a requested interface *)
Theorem C11_exact i c args d :
  mock_run i c args = Ok d ->
  forall path, In path (map i_path (d_imports d)) <->
    path <> moq_pkg_path (rcfg_of i c) /\
    ((path = "sync"%string /\ mocks_some_method (d_mocks d) = true) \/
     (path = ppath (in_src i) /\ p_name (in_src i) <> mock_pkg_name i c /\ c_skip_ensure c = false) \/
     exists q, In q (tys_refs (requested_types i args)) /\ path = ppath q).
Proof.
  intros E path. split.
  - intros I. split.
    + intros Q. subst path. exact (C11_never_imports_destination _ _ _ _ E I).
    + apply in_map_iff in I. destruct I as [im [<- IM]]. exact (imports_sound _ _ _ _ E im IM).
  - intros [ND [[-> SM]|[[-> [NN SK]]|[q [IQ ->]]]]].
    + apply (C11_sync_when_methods _ _ _ _ E); [intros Q; apply ND; symmetry; exact Q|exact SM].
    + destruct (C10_other_imports_source _ _ _ _ E NN SK ND) as [im [IM [P _]]].
      unfold ppath. rewrite <- P. apply in_map. exact IM.
    + destruct (imports_cover_requested _ _ _ _ E q IQ) as [H|H]; [contradiction|exact H].
Qed.

(* with -skip-ensure the source package is imported only if some signature or constraint
   actually mentions one of its types (C10) *)
Theorem C10_skip_ensure_exact i c args d :
  mock_run i c args = Ok d -> c_skip_ensure c = true -> ppath (in_src i) <> "sync"%string ->
  ppath (in_src i) <> moq_pkg_path (rcfg_of i c) ->
  (In (ppath (in_src i)) (map i_path (d_imports d)) <->
   exists q, In q (tys_refs (requested_types i args)) /\ ppath q = ppath (in_src i)).
Proof.
  intros E SK NS ND. rewrite (C11_exact _ _ _ _ E). split.
  - intros [_ [[Q _]|[[_ [_ Q]]|[q [IQ Q]]]]]; [contradiction|congruence|exists q; auto].
  - intros [q [IQ Q]]. split; [exact ND|]. right. right. exists q. auto.
Qed.

(* C10 / C11: the qualifier printed for any package of a requested interface's types -- the
   source package included, when the mock goes elsewhere -- is the qualifier of an import of
   that very path in the block; the destination package itself is printed bare *)
Theorem C10_types_qualified_through_their_import i c args d :
  mock_run i c args = Ok d ->
  forall q, In q (tys_refs (requested_types i args)) ->
    (ppath q = moq_pkg_path (rcfg_of i c) /\ final_qual (rcfg_of i c) (d_imports d) q = ""%string) \/
    (exists im, In im (d_imports d) /\ i_path im = ppath q /\
                final_qual (rcfg_of i c) (d_imports d) q = qualifier im).
Proof.
  intros E q IQ. unfold final_qual.
  destruct (String.eqb_spec (ppath q) (moq_pkg_path (rcfg_of i c))) as [EQ|NE]; [left; auto|right].
  destruct (imports_cover_requested _ _ _ _ E q IQ) as [H|H]; [contradiction|].
  destruct (find_path (d_imports d) (ppath q)) as [im|] eqn:F.
  - destruct (find_path_in _ _ _ F) as [I P]. exists im. auto.
  - exfalso. apply in_map_iff in H. destruct H as [im [P I]]. unfold find_path in F.
    apply (find_none _ _ F) in I. rewrite P, String.eqb_refl in I. discriminate.
Qed.

(* the premise is satisfiable on a non-trivial input: two dependencies that share a name (one is
   re-aliased), a type of the source package, generated into another package *)
Definition ex_src : pkg := mkPkg "example.com/m/store" "store".
Definition ex_a : pkg := mkPkg "example.com/m/one/client" "client".
Definition ex_b : pkg := mkPkg "example.com/m/two/client" "client".
Definition ex_input : input :=
  mkInput ex_src [] None
    [("Repo", LIface true true []
        [mkMethod "Get" (mkSig [("a", TNamed (Some ex_a) "T" []); ("k", TNamed (Some ex_src) "Key" [])] false
                               [("", TPtr (TNamed (Some ex_b) "T" []))])])].
Example C11_exact_premise_holds :
  match mock_run ex_input (mkConfig "mocks" false false false) ["Repo"] with
  | Ok d => map (fun im => (qualifier im, i_path im)) (d_imports d) =
            [("oneclient", "example.com/m/one/client"); ("store", "example.com/m/store");
             ("twoclient", "example.com/m/two/client"); ("sync", "sync")]%string
  | _ => False
  end.
Proof. vm_compute. reflexivity. Qed.
