(* Strs.v -- byte strings and the string functions the moq model needs.
   Definitions only (no proofs): the model must still run when a proof breaks. *)
From Coq Require Export String Ascii List Bool Arith.
From Coq Require Import DecimalString Decimal.
Export ListNotations.
Open Scope string_scope.

Definition is_upper (c : ascii) : bool :=
  let n := nat_of_ascii c in Nat.leb 65 n && Nat.leb n 90.
Definition is_lower (c : ascii) : bool :=
  let n := nat_of_ascii c in Nat.leb 97 n && Nat.leb n 122.
Definition is_digit (c : ascii) : bool :=
  let n := nat_of_ascii c in Nat.leb 48 n && Nat.leb n 57.
Definition is_letter (c : ascii) : bool :=
  is_upper c || is_lower c || Ascii.eqb c "_"%char.
Definition is_ascii7 (c : ascii) : bool := Nat.ltb (nat_of_ascii c) 128.

Definition upper (c : ascii) : ascii :=
  if is_lower c then ascii_of_nat (nat_of_ascii c - 32) else c.
Definition lower (c : ascii) : ascii :=
  if is_upper c then ascii_of_nat (nat_of_ascii c + 32) else c.

Fixpoint map_str (f : ascii -> ascii) (s : string) : string :=
  match s with
  | EmptyString => EmptyString
  | String c r => String (f c) (map_str f r)
  end.
Fixpoint forall_str (f : ascii -> bool) (s : string) : bool :=
  match s with
  | EmptyString => true
  | String c r => f c && forall_str f r
  end.

(* strings.ToUpper / strings.ToLower restricted to ASCII input *)
Definition to_upper (s : string) : string := map_str upper s.
Definition to_lower (s : string) : string := map_str lower s.
Definition all_ascii (s : string) : bool := forall_str is_ascii7 s.

Fixpoint rev_str_aux (s acc : string) : string :=
  match s with
  | EmptyString => acc
  | String c r => rev_str_aux r (String c acc)
  end.
Definition rev_str (s : string) : string := rev_str_aux s EmptyString.

Definition str_mem (x : string) (l : list string) : bool :=
  existsb (String.eqb x) l.

Fixpoint concat_all (l : list string) : string :=
  match l with
  | [] => ""
  | x :: r => x ++ concat_all r
  end.

Fixpoint join (sep : string) (l : list string) : string :=
  match l with
  | [] => ""
  | [x] => x
  | x :: r => x ++ sep ++ join sep r
  end.

(* strings.Split for a non-empty separator *)
Fixpoint split_aux (sep s : string) (skip : nat) (cur : string) : list string :=
  match s with
  | EmptyString => [rev_str cur]
  | String c rest =>
    match skip with
    | S k => split_aux sep rest k cur
    | O =>
      if String.prefix sep s
      then rev_str cur :: split_aux sep rest (String.length sep - 1) ""
      else split_aux sep rest 0 (String c cur)
    end
  end.
Definition split_on (sep s : string) : list string := split_aux sep s 0 "".

(* strings.SplitN(s, sep, 2) for a one-byte separator: cut at the first one *)
Fixpoint cut_first (c : ascii) (s : string) (acc : string) : option (string * string) :=
  match s with
  | EmptyString => None
  | String d r => if Ascii.eqb c d then Some (rev_str acc, r) else cut_first c r (String d acc)
  end.

(* strings.NewReplacer(pairs...).Replace: at each position the first pair (in
   argument order) whose old string is a prefix there is applied; otherwise the
   byte is copied.  All old strings are non-empty. *)
Fixpoint first_match (pairs : list (string * string)) (s : string) : option (string * string) :=
  match pairs with
  | [] => None
  | (o, n) :: r => if String.prefix o s then Some (o, n) else first_match r s
  end.
Fixpoint replace_aux (pairs : list (string * string)) (s : string) (skip : nat) : string :=
  match s with
  | EmptyString => EmptyString
  | String c rest =>
    match skip with
    | S k => replace_aux pairs rest k
    | O =>
      match first_match pairs s with
      | Some (o, n) => n ++ replace_aux pairs rest (String.length o - 1)
      | None => String c (replace_aux pairs rest 0)
      end
    end
  end.
Definition replace_all (pairs : list (string * string)) (s : string) : string :=
  replace_aux pairs s 0.

(* strconv.Itoa on naturals *)
Definition itoa (n : nat) : string := NilEmpty.string_of_uint (Nat.to_uint n).

Definition has_suffix (s suf : string) : bool :=
  String.prefix (rev_str suf) (rev_str s).
Definition has_prefix (s pre : string) : bool := String.prefix pre s.

Fixpoint drop_str (n : nat) (s : string) : string :=
  match n, s with
  | O, _ => s
  | S k, String _ r => drop_str k r
  | S _, EmptyString => EmptyString
  end.
Definition trim_left_slash (s : string) : string :=
  (fix go (s : string) : string :=
     match s with
     | String c r => if Ascii.eqb c "/"%char then go r else s
     | EmptyString => EmptyString
     end) s.

(* Go identifiers restricted to ASCII *)
Definition is_ident_char (c : ascii) : bool := is_letter c || is_digit c.
Definition is_identifier (s : string) : bool :=
  match s with
  | EmptyString => false
  | String c r => is_letter c && forall_str is_ident_char r
  end.

(* association lists keyed by strings *)
Fixpoint assoc {A} (k : string) (l : list (string * A)) : option A :=
  match l with
  | [] => None
  | (k', v) :: r => if String.eqb k k' then Some v else assoc k r
  end.

(* insertion sort, used for the import block *)
Fixpoint insert_by {A} (lt : A -> A -> bool) (x : A) (l : list A) : list A :=
  match l with
  | [] => [x]
  | y :: r => if lt y x then y :: insert_by lt x r else x :: l
  end.
Definition sort_by {A} (lt : A -> A -> bool) (l : list A) : list A :=
  fold_right (insert_by lt) [] l.

Fixpoint nodupb (l : list string) : bool :=
  match l with
  | [] => true
  | x :: r => negb (str_mem x r) && nodupb r
  end.

Fixpoint list_eqb {A} (l1 l2 : list A) (eqb : A -> A -> bool) : bool :=
  match l1, l2 with
  | [], [] => true
  | x :: r1, y :: r2 => eqb x y && list_eqb r1 r2 eqb
  | _, _ => false
  end.
