(* P_C20_whole.v -- C20 / C02 for the whole run.  Statements only; proofs in WholeRun_Proofs.v. *)
From Moq Require Import Strs GoTypes TypeString VarName Registry Scope Gen WholeRun_Proofs.
Local Open Scope list_scope.

(* C02, whole run: for every requested interface, in argument order, the generated mock has
   exactly the interface's methods (as go/types delivers the completed method set), each with
   the parameter types, variadic-ness and result types of the interface's signature; the mock is
   named as requested and has as many type parameters as the interface *)
Theorem C02_whole_run_signatures i c args d :
  mock_run i c args = Ok d ->
  map (fun k => Some (erase_mock k)) (d_mocks d) = map (expect_mock i) args.
Proof. exact (run_erased i c args d). Qed.

(* C20: generated together or alone, under whatever flags, -pkg value or source aliases, a mock
   has the same name, type-parameter count, methods and signatures as types *)
Theorem C20_alone_or_together i c args d i' c' a d1 k :
  mock_run i c args = Ok d -> nth_error args k = Some a ->
  in_lookup i' = in_lookup i -> mock_run i' c' [a] = Ok d1 ->
  exists m m1, nth_error (d_mocks d) k = Some m /\ d_mocks d1 = [m1] /\ erase_mock m = erase_mock m1.
Proof. exact (alone_or_together i c args d i' c' a d1 k). Qed.

(* the premises hold on a non-trivial input: two interfaces whose packages collide (so the joint
   run re-aliases what the solo run leaves alone), one requested under another name *)
Definition w_src : pkg := mkPkg "example.com/m/store" "store".
Definition w_a : pkg := mkPkg "example.com/m/one/client" "client".
Definition w_b : pkg := mkPkg "example.com/m/two/client" "client".
Definition w_input : input :=
  mkInput w_src [] None
    [("A", LIface true true [] [mkMethod "Get" (mkSig [("x", TNamed (Some w_a) "T" [])] false [])]);
     ("B", LIface true true [mkTparam "K" (TAlias None "any" []) [] false]
                  [mkMethod "Put" (mkSig [("k", TParam "K"); ("vs", TSlice (TNamed (Some w_b) "T" []))] true
                                         [("", TNamed None "error" [])])])].
Example C20_premises_hold :
  match mock_run w_input (mkConfig "" false false false) ["A"; "B:Other"],
        mock_run w_input (mkConfig "mocks" true true true) ["B:Other"] with
  | Ok d, Ok d1 =>
    (* the joint run prints the second package under an alias the solo run does not need *)
    map (fun im => qualifier im) (d_imports d) = ["oneclient"; "twoclient"; "sync"]%string /\
    map (fun im => qualifier im) (d_imports d1) = ["client"; "sync"]%string /\
    map mk_name (d_mocks d) = ["AMock"; "Other"]%string
  | _, _ => False
  end.
Proof. vm_compute. repeat split. Qed.
