(* TmplRegion_accessor.v -- closedness of one region of the template regenerated from /repo. *)
From Moq Require Import Strs TmplAst TmplClosed TmplRegions.
From Moq.gen Require Import TemplateSrc.

Theorem accessor_region_closed : regions_found moq_template && closed (accessor_region moq_template) = true.
Proof. vm_compute. reflexivity. Qed.
