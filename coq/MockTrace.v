(* MockTrace.v -- rendering of the model's traces in the textual form the Go driver
   (vh/driver_go.py) prints for the REAL compiled mock, so the two can be compared. *)
From Moq Require Import Strs MockSem.
Local Open Scope string_scope.

Definition show_argval (a : argval) : string :=
  match a with ASame v => itoa v | AWrapped v => "W" ++ itoa v end.
Definition show_record (r : record) : string := "[" ++ join "," (map (fun kv => itoa (snd kv)) r) ++ "]".

Definition show_event (h : heap) (e : event) : string :=
  match e with
  | EvInvoke m args => "I " ++ m ++ " " ++ join "," (map show_argval args)
  | EvReturn m rs =>
    "R " ++ m ++ " " ++
    (match rs with
     | [] => "0"
     | _ => if forallb (Nat.eqb 0) rs then "zero" ++ itoa (List.length rs) else itoa (List.length rs)
     end) ++ " ok"
  | EvPanic m (PUser _) => "P " ++ m ++ " user"
  | EvPanic m (PNil msg) => "P " ++ m ++ " nil " ++ msg
  | EvSnapshot m s => "S " ++ m ++ " " ++ concat_all (map show_record (denote h s))
  | EvReset (Some m) => "X " ++ m
  | EvReset None => "X *"
  end.

Section Trace.
Variable grow : nat -> nat.
Variable mk : mmock.

(* run the top-level operations one at a time; the events of each are rendered against the
   heap right after it; at the end every snapshot is rendered again against the final heap *)
Fixpoint trace_ops (ops : list op) (st : mstate) (acc : list string) (snaps : list event)
  : option (list string * list string) :=
  match ops with
  | [] => Some (acc, map (show_event (st_heap st)) snaps)
  | o :: r =>
    match run_op grow mk o st with
    | None => None
    | Some (st1, evs) =>
      trace_ops r st1 (acc ++ map (show_event (st_heap st1)) evs)%list
                (snaps ++ filter (fun e => match e with EvSnapshot _ _ => true | _ => false end) evs)%list
    end
  end.

Definition trace_text (ops : list op) : string :=
  match trace_ops ops init_state [] [] with
  | None => "STUCK"
  | Some (tr, fin) => join ";" tr ++ "#" ++ join ";" fin
  end.
End Trace.

Definition grow2 (n : nat) : nat := 2 * n + 1.
