(* SkeletonPins.v -- the statements (normalised text) of main.run, main.main, Mocker.Mock,
   Mocker.format, mockPkgName, parseInterfaceName, moq.New, gofmt and goimports that the
   hand-written models Cli.v and Gen.v were WRITTEN FROM.  gen/Skeletons.v is regenerated
   from /repo on every run; Cli_Proofs.v requires the two to be equal.  Maintained by hand:
   update only after re-reading the changed function and the models. *)
From Moq Require Import Strs.

Definition pinned_main_run : list string :=
  ["func func(flags userFlags) error";
   "if len(flags.args) < 2 { return errors.New(""not enough arguments"") }";
   "if flags.remove && flags.outFile != """" { if err := os.Remove(flags.outFile); err != nil { if !errors.Is(err, os.ErrNotExist) { return err } } }";
   "var buf bytes.Buffer";
   "var out io.Writer = os.Stdout";
   "if flags.outFile != """" { out = &buf }";
   "srcDir, args := flags.args[0], flags.args[1:]";
   "m, err := moq.New(moq.Config{ SrcDir: srcDir, PkgName: flags.pkgName, Formatter: flags.formatter, StubImpl: flags.stubImpl, SkipEnsure: flags.skipEnsure, WithResets: flags.withResets, })";
   "if err != nil { return err }";
   "if err = m.Mock(out, args...); err != nil { return err }";
   "if flags.outFile == """" { return nil }";
   "err = os.MkdirAll(filepath.Dir(flags.outFile), 0o750)";
   "if err != nil { return err }";
   "return os.WriteFile(flags.outFile, buf.Bytes(), 0o600)"].

Definition pinned_main_main : list string :=
  ["func func()";
   "var flags userFlags";
   "flag.StringVar(&flags.outFile, ""out"", """", ""output file (default stdout)"")";
   "flag.StringVar(&flags.pkgName, ""pkg"", """", ""package name (default will infer)"")";
   "flag.StringVar(&flags.formatter, ""fmt"", """", ""go pretty-printer: gofmt, goimports or noop (default gofmt)"")";
   "flag.BoolVar(&flags.stubImpl, ""stub"", false, ""return zero values when no mock implementation is provided, do not panic"")";
   "printVersion := flag.Bool(""version"", false, ""show the version for moq"")";
   "flag.BoolVar(&flags.skipEnsure, ""skip-ensure"", false, ""suppress mock implementation check, avoid import cycle if mocks generated outside of the tested package"")";
   "flag.BoolVar(&flags.remove, ""rm"", false, ""first remove output file, if it exists"")";
   "flag.BoolVar(&flags.withResets, ""with-resets"", false, ""generate functions to facilitate resetting calls made to a mock"")";
   "flag.Usage = func() { fmt.Println(`moq [flags] source-dir interface [interface2 [interface3 [...]]]`) flag.PrintDefaults() fmt.Println(`Specifying an alias for the mock is also supported with the format 'interface:alias'`) fmt.Println(`Ex: moq -pkg different . MyInterface:MyMock`) }";
   "flag.Parse()";
   "flags.args = flag.Args()";
   "if *printVersion { fmt.Printf(""moq version %s\n"", Version) os.Exit(0) }";
   "if err := run(flags); err != nil { fmt.Fprintln(os.Stderr, err) flag.Usage() os.Exit(1) }"].

Definition pinned_mocker_mock : list string :=
  ["func func(w io.Writer, namePairs ...string) error";
   "if len(namePairs) == 0 { return errors.New(""must specify one interface"") }";
   "mocks := make([]template.MockData, len(namePairs))";
   "for i, np := range namePairs { name, mockName := parseInterfaceName(np) iface, tparams, err := m.registry.LookupInterface(name) if err != nil { return err } methods := make([]template.MethodData, iface.NumMethods()) for j := 0; j < iface.NumMethods(); j++ { methods[j] = m.methodData(iface.Method(j)) } mocks[i] = template.MockData{ InterfaceName: name, MockName: mockName, Methods: methods, TypeParams: m.typeParams(tparams), } }";
   "data := template.Data{ PkgName: m.mockPkgName(), Mocks: mocks, StubImpl: m.cfg.StubImpl, SkipEnsure: m.cfg.SkipEnsure, WithResets: m.cfg.WithResets, }";
   "if data.MocksSomeMethod() { m.registry.AddImport(types.NewPackage(""sync"", ""sync"")) }";
   "if m.registry.SrcPkgName() != m.mockPkgName() { data.SrcPkgQualifier = m.registry.SrcPkgName() + ""."" if !m.cfg.SkipEnsure { imprt := m.registry.AddImport(m.registry.SrcPkg()) data.SrcPkgQualifier = imprt.Qualifier() + ""."" } }";
   "data.Imports = m.registry.Imports()";
   "var buf bytes.Buffer";
   "if err := m.tmpl.Execute(&buf, data); err != nil { return err }";
   "formatted, err := m.format(buf.Bytes())";
   "if err != nil { return err }";
   "if _, err := w.Write(formatted); err != nil { return err }";
   "return nil"].

Definition pinned_mocker_format : list string :=
  ["func func(src []byte) ([]byte, error)";
   "switch m.cfg.Formatter { case ""goimports"": return goimports(src) case ""noop"": return src, nil }";
   "return gofmt(src)"].

Definition pinned_mock_pkg_name : list string :=
  ["func func() string";
   "if m.cfg.PkgName != """" { return m.cfg.PkgName }";
   "return m.registry.SrcPkgName()"].

Definition pinned_parse_interface_name : list string :=
  ["func func(namePair string) (ifaceName, mockName string)";
   "parts := strings.SplitN(namePair, "":"", 2)";
   "if len(parts) == 2 { return parts[0], parts[1] }";
   "ifaceName = parts[0]";
   "return ifaceName, ifaceName + ""Mock"""].

Definition pinned_moq_new : list string :=
  ["func func(cfg Config) (*Mocker, error)";
   "reg, err := registry.New(cfg.SrcDir, cfg.PkgName)";
   "if err != nil { return nil, err }";
   "tmpl, err := template.New()";
   "if err != nil { return nil, err }";
   "return &Mocker{ cfg: cfg, registry: reg, tmpl: tmpl, }, nil"].

Definition pinned_gofmt : list string :=
  ["func func(src []byte) ([]byte, error)";
   "formatted, err := format.Source(src)";
   "if err != nil { return nil, fmt.Errorf(""go/format: %s"", err) }";
   "return formatted, nil"].

Definition pinned_goimports : list string :=
  ["func func(src []byte) ([]byte, error)";
   "formatted, err := imports.Process(""filename"", src, &imports.Options{ TabWidth: 8, TabIndent: true, Comments: true, Fragment: true, })";
   "if err != nil { return nil, fmt.Errorf(""goimports: %s"", err) }";
   "return formatted, nil"].

