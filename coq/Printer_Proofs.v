(* Printer_Proofs.v -- what the model of types.TypeString consults: the printed text of a
   type depends on the qualifier function only through the packages listed by
   GoTypes.mentions, and every one of those is visited by the import walk (GoTypes.refs). *)
From Moq Require Import Strs Strs_Proofs GoTypes GoTypes_Proofs TypeString.
Local Open Scope list_scope.

Section Ext.
Variables q1 q2 : pkg -> string.

Lemma pkg_prefix_ext p :
  (forall x, p = Some x -> q1 x = q2 x) -> pkg_prefix q1 p = pkg_prefix q2 p.
Proof. destruct p as [x|]; simpl; [|reflexivity]. intros H. rewrite (H x eq_refl). reflexivity. Qed.

Definition agree (t : ty) : Prop := forall p, In p (mentions t) -> q1 p = q2 p.
Definition P (t : ty) : Prop := agree t -> forall kw, tstr q1 kw t = tstr q2 kw t.

Lemma agree_app_l (a b : list pkg) :
  (forall p, In p (a ++ b) -> q1 p = q2 p) -> forall p, In p a -> q1 p = q2 p.
Proof. intros H p I. apply H. apply in_or_app. left. exact I. Qed.
Lemma agree_app_r (a b : list pkg) :
  (forall p, In p (a ++ b) -> q1 p = q2 p) -> forall p, In p b -> q1 p = q2 p.
Proof. intros H p I. apply H. apply in_or_app. right. exact I. Qed.

(* the list helpers inside tstr, one lemma each *)
Lemma tlist_ext (l : list ty) :
  Forall P l ->
  (forall p, In p ((fix go (l : list ty) : list pkg :=
                      match l with [] => [] | x :: r => mentions x ++ go r end) l) -> q1 p = q2 p) ->
  (fix go (l : list ty) : list string := match l with [] => [] | x :: r => tstr q1 true x :: go r end) l =
  (fix go (l : list ty) : list string := match l with [] => [] | x :: r => tstr q2 true x :: go r end) l.
Proof.
  induction 1 as [|x l Hx F IH]; intros A; [reflexivity|].
  rewrite (Hx (agree_app_l _ _ A) true), (IH (agree_app_r _ _ A)). reflexivity.
Qed.

Definition tuple_of (q : pkg -> string) :=
  fix go (l : list (string * ty)) (variadic : bool) : list string :=
     match l with
     | [] => []
     | (n, x) :: r =>
       ((if String.eqb n "" then ""%string else (n ++ " ")%string) ++
        match r, variadic, x with
        | [], true, TSlice e => ("..." ++ tstr q true e)%string
        | _, _, _ => tstr q true x
        end)%string :: go r variadic
     end.

Lemma tuple_ext (l : list (string * ty)) (variadic : bool) :
  Forall (fun x => P (snd x)) l ->
  (forall p, In p ((fix go (l : list (string * ty)) : list pkg :=
                      match l with [] => [] | (_, x) :: r => mentions x ++ go r end) l) -> q1 p = q2 p) ->
  tuple_of q1 l variadic = tuple_of q2 l variadic.
Proof.
  induction 1 as [|[n x] l Hx F IH]; intros A; [reflexivity|].
  cbn [snd] in Hx. cbn [tuple_of]. fold (tuple_of q1). fold (tuple_of q2).
  rewrite (IH (agree_app_r _ _ A)). f_equal. f_equal.
  pose proof (Hx (agree_app_l _ _ A) true) as E.
  destruct l; [|exact E]. destruct variadic; [|exact E].
  destruct x; try exact E.
  cbn [tstr] in E. apply append_inj_l in E. rewrite E. reflexivity.
Qed.

Theorem tstr_ext : forall t, P t.
Proof.
  apply (ty_ind' P); unfold P, agree.
  - intros n k u A kw. destruct u; [|reflexivity]. cbn [tstr]. f_equal.
    apply pkg_prefix_ext. intros x E. inversion E; subst. apply A. left. reflexivity.
  - intros p n targs F A kw. cbn [tstr]. cbn [mentions] in A.
    rewrite (pkg_prefix_ext p).
    + f_equal. f_equal. destruct targs as [|t0 ts]; [reflexivity|].
      rewrite (tlist_ext _ F (agree_app_r _ _ A)). reflexivity.
    + intros x E. subst p. apply A. left. reflexivity.
  - intros p n targs F A kw. cbn [tstr]. cbn [mentions] in A.
    rewrite (pkg_prefix_ext p).
    + f_equal. f_equal. destruct targs as [|t0 ts]; [reflexivity|].
      rewrite (tlist_ext _ F (agree_app_r _ _ A)). reflexivity.
    + intros x E. subst p. apply A. left. reflexivity.
  - reflexivity.
  - intros t IH A kw. cbn [tstr]. rewrite (IH A true). reflexivity.
  - intros t IH A kw. cbn [tstr]. rewrite (IH A true). reflexivity.
  - intros n t IH A kw. cbn [tstr]. rewrite (IH A true). reflexivity.
  - intros k v IHk IHv A kw. cbn [tstr]. cbn [mentions] in A.
    rewrite (IHk (agree_app_l _ _ A) true), (IHv (agree_app_r _ _ A) true). reflexivity.
  - intros d t IH A kw. cbn [tstr]. rewrite (IH A true). reflexivity.
  - intros ps v rs Fp Fr A kw. cbn [mentions] in A.
    change (tstr q1 kw (TFunc ps v rs)) with
      ((if kw then "func" else "") ++ "(" ++ join ", " (tuple_of q1 ps v) ++ ")" ++
       match rs with
       | [] => ""
       | [(n, x)] => if String.eqb n "" then " " ++ tstr q1 true x
                     else " (" ++ join ", " (tuple_of q1 rs false) ++ ")"
       | _ => " (" ++ join ", " (tuple_of q1 rs false) ++ ")"
       end)%string.
    change (tstr q2 kw (TFunc ps v rs)) with
      ((if kw then "func" else "") ++ "(" ++ join ", " (tuple_of q2 ps v) ++ ")" ++
       match rs with
       | [] => ""
       | [(n, x)] => if String.eqb n "" then " " ++ tstr q2 true x
                     else " (" ++ join ", " (tuple_of q2 rs false) ++ ")"
       | _ => " (" ++ join ", " (tuple_of q2 rs false) ++ ")"
       end)%string.
    rewrite (tuple_ext ps v Fp (agree_app_l _ _ A)).
    rewrite (tuple_ext rs false Fr (agree_app_r _ _ A)).
    f_equal. f_equal. f_equal.
    destruct rs as [|[n x] rs]; [reflexivity|]. destruct rs; [|reflexivity].
    destruct (String.eqb n ""); [|reflexivity].
    inversion Fr as [|? ? Hx _]; subst. cbn [snd] in Hx.
    rewrite (Hx (fun p I => agree_app_r _ _ A p (in_or_app _ _ _ (or_introl I))) true). reflexivity.
  - intros fs F A kw. cbn [tstr]. cbn [mentions] in A. f_equal. f_equal. f_equal.
    induction F as [|[[[n e] x] tag] l Hx F IH]; [reflexivity|].
    cbn [snd fst] in Hx.
    rewrite (Hx (agree_app_l _ _ A) true), (IH (agree_app_r _ _ A)). reflexivity.
  - intros k ms es Fm Fe A kw.
    assert (MS : forall (A' : forall p, In p ((fix go (l : list (string * ty)) : list pkg :=
                      match l with [] => [] | (_, x) :: r => mentions x ++ go r end) ms) -> q1 p = q2 p),
               (fix go (l : list (string * ty)) : list string :=
                  match l with [] => [] | (n, x) :: r => (n ++ tstr q1 false x)%string :: go r end) ms =
               (fix go (l : list (string * ty)) : list string :=
                  match l with [] => [] | (n, x) :: r => (n ++ tstr q2 false x)%string :: go r end) ms).
    { clear A. induction Fm as [|[n x] l Hx F IH]; intros A'; [reflexivity|]. cbn [snd] in Hx.
      rewrite (Hx (agree_app_l _ _ A') false), (IH (agree_app_r _ _ A')). reflexivity. }
    destruct k.
    + cbn [tstr]. cbn [mentions] in A.
      rewrite (MS (agree_app_l _ _ A)), (tlist_ext _ Fe (agree_app_r _ _ A)). reflexivity.
    + reflexivity.
    + cbn [mentions] in A.
      assert (G : forall pre : string,
        (pre ++ "interface{" ++ join "; "
          ((fix go (l : list (string * ty)) : list string :=
              match l with [] => [] | (n, x) :: r => (n ++ tstr q1 false x)%string :: go r end) ms ++
           (fix go (l : list ty) : list string :=
              match l with [] => [] | x :: r => tstr q1 true x :: go r end) es) ++ "}")%string =
        (pre ++ "interface{" ++ join "; "
          ((fix go (l : list (string * ty)) : list string :=
              match l with [] => [] | (n, x) :: r => (n ++ tstr q2 false x)%string :: go r end) ms ++
           (fix go (l : list ty) : list string :=
              match l with [] => [] | x :: r => tstr q2 true x :: go r end) es) ++ "}")%string).
      { intros pre. rewrite (MS (agree_app_l _ _ A)), (tlist_ext _ Fe (agree_app_r _ _ A)). reflexivity. }
      destruct ms as [|m ms]; [|cbn [tstr]; apply G].
      destruct es as [|e es]; [cbn [tstr]; apply G|].
      destruct es as [|e2 es]; [|cbn [tstr]; apply G].
      cbn [tstr]. inversion Fe as [|? ? He _]; subst.
      apply He. intros p I. apply A. cbn. rewrite app_nil_r. exact I.
  - intros ts F A kw. cbn [tstr]. cbn [mentions] in A. f_equal.
    induction F as [|[tilde x] l Hx F IH]; [reflexivity|]. cbn [snd] in Hx.
    rewrite (Hx (agree_app_l _ _ A) true), (IH (agree_app_r _ _ A)). reflexivity.
Qed.
End Ext.

(* the text of a type depends on the qualifier function only through the packages in
   [mentions]: two qualifier functions that agree there print the same text *)
Theorem type_string_ext (q1 q2 : pkg -> string) (t : ty) :
  (forall p, In p (mentions t) -> q1 p = q2 p) -> type_string q1 t = type_string q2 t.
Proof. intros A. exact (tstr_ext q1 q2 t A true). Qed.

(* ... and the import walk visits every one of them, whatever the shape of the type *)
Theorem mentions_incl_refs : forall t, incl (mentions t) (refs t).
Proof.
  apply (ty_ind' (fun t => incl (mentions t) (refs t))).
  - intros n k u. apply incl_refl.
  - intros p n targs F. cbn [mentions refs]. apply incl_app; [apply incl_appl, incl_refl|apply incl_appr].
    induction F as [|x l Hx F IH]; [apply incl_refl|].
    apply incl_app; [apply incl_appl, Hx|apply incl_appr, IH].
  - intros p n targs F. cbn [mentions refs]. apply incl_app; [apply incl_appl, incl_refl|apply incl_appr].
    induction F as [|x l Hx F IH]; [apply incl_refl|].
    apply incl_app; [apply incl_appl, Hx|apply incl_appr, IH].
  - intros n. apply incl_refl.
  - intros t IH. exact IH.
  - intros t IH. exact IH.
  - intros n t IH. exact IH.
  - intros k v IHk IHv. cbn [mentions refs]. apply incl_app; [apply incl_appl, IHk|apply incl_appr, IHv].
  - intros d t IH. exact IH.
  - intros ps v rs Fp Fr. cbn [mentions refs]. apply incl_app; [apply incl_appl|apply incl_appr].
    + induction Fp as [|[n x] l Hx F IH]; [apply incl_refl|]. cbn [snd] in Hx.
      apply incl_app; [apply incl_appl, Hx|apply incl_appr, IH].
    + induction Fr as [|[n x] l Hx F IH]; [apply incl_refl|]. cbn [snd] in Hx.
      apply incl_app; [apply incl_appl, Hx|apply incl_appr, IH].
  - intros fs F. cbn [mentions refs].
    induction F as [|[[[n e] x] tag] l Hx F IH]; [apply incl_refl|]. cbn [snd fst] in Hx.
    apply incl_app; [apply incl_appl, Hx|apply incl_appr, IH].
  - intros k ms es Fm Fe.
    assert (G : incl ((fix go (l : list (string * ty)) : list pkg :=
                         match l with [] => [] | (_, x) :: r => mentions x ++ go r end) ms ++
                      (fix go (l : list ty) : list pkg :=
                         match l with [] => [] | x :: r => mentions x ++ go r end) es)
                     (refs (TIface k ms es))).
    { cbn [refs]. apply incl_app; [apply incl_appl|apply incl_appr].
      - induction Fm as [|[n x] l Hx F IH]; [apply incl_refl|]. cbn [snd] in Hx.
        apply incl_app; [apply incl_appl, Hx|apply incl_appr, IH].
      - induction Fe as [|x l Hx F IH]; [apply incl_refl|].
        apply incl_app; [apply incl_appl, Hx|apply incl_appr, IH]. }
    destruct k; [exact G|intros p []|exact G].
  - intros ts F. cbn [mentions refs].
    induction F as [|[tilde x] l Hx F IH]; [apply incl_refl|]. cbn [snd] in Hx.
    apply incl_app; [apply incl_appl, Hx|apply incl_appr, IH].
Qed.
