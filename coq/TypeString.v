(* TypeString.v -- model of types.TypeString(t, qualifier) (go/types/typestring.go),
   for the constructors of GoTypes.ty.  Validated against the real function by the
   correspondence harness on every run. *)
From Moq Require Import Strs GoTypes.

Section TS.
Variable q : pkg -> string.

Definition pkg_prefix (p : option pkg) : string :=
  match p with
  | None => ""
  | Some p => let s := q p in if String.eqb s "" then "" else s ++ "."
  end.

(* strconv.Quote for printable ASCII: escape double quote and backslash *)
Fixpoint quote_body (s : string) : string :=
  match s with
  | EmptyString => EmptyString
  | String c r =>
    if Ascii.eqb c """"%char || Ascii.eqb c "\"%char
    then String "\"%char (String c (quote_body r))
    else String c (quote_body r)
  end.
Definition go_quote (s : string) : string := """" ++ quote_body s ++ """".

Definition chan_kw (d : chandir) : string :=
  match d with CBoth => "chan " | CSend => "chan<- " | CRecv => "<-chan " end.

(* kw = false prints a signature without the leading "func" (interface methods) *)
Fixpoint tstr (kw : bool) (t : ty) {struct t} : string :=
  let tlist := fix go (l : list ty) : list string :=
    match l with [] => [] | x :: r => tstr true x :: go r end in
  let tuple := fix go (l : list (string * ty)) (variadic : bool) : list string :=
    match l with
    | [] => []
    | (n, x) :: r =>
      let nm := if String.eqb n "" then "" else n ++ " " in
      let body :=
        match r, variadic, x with
        | [], true, TSlice e => "..." ++ tstr true e
        | _, _, _ => tstr true x
        end in
      (nm ++ body) :: go r variadic
    end in
  match t with
  | TBasic name _ true => pkg_prefix (Some unsafe_pkg) ++ name
  | TBasic name _ false => name
  | TNamed p name targs =>
    pkg_prefix p ++ name ++
    (match targs with [] => "" | _ => "[" ++ join ", " (tlist targs) ++ "]" end)
  | TAlias p name targs =>
    pkg_prefix p ++ name ++
    (match targs with [] => "" | _ => "[" ++ join ", " (tlist targs) ++ "]" end)
  | TParam name => name
  | TPtr t => "*" ++ tstr true t
  | TSlice t => "[]" ++ tstr true t
  | TArray n t => "[" ++ n ++ "]" ++ tstr true t
  | TMap k v => "map[" ++ tstr true k ++ "]" ++ tstr true v
  | TChan d t =>
    let parens := match d, t with CBoth, TChan CRecv _ => true | _, _ => false end in
    chan_kw d ++ (if parens then "(" else "") ++ tstr true t ++ (if parens then ")" else "")
  | TFunc ps variadic rs =>
    (if kw then "func" else "") ++ "(" ++ join ", " (tuple ps variadic) ++ ")" ++
    (match rs with
     | [] => ""
     | [(n, x)] => if String.eqb n "" then " " ++ tstr true x
                   else " (" ++ join ", " (tuple rs false) ++ ")"
     | _ => " (" ++ join ", " (tuple rs false) ++ ")"
     end)
  | TStruct fs =>
    "struct{" ++ join "; "
      ((fix go (l : list (string * bool * ty * string)) : list string :=
          match l with
          | [] => []
          | (n, emb, x, tag) :: r =>
            ((if emb then "" else n ++ " ") ++ tstr true x ++
             (if String.eqb tag "" then "" else " " ++ go_quote tag)) :: go r
          end) fs) ++ "}"
  | TIface IfAny _ _ => "any"
  | TIface IfImplicit [] [e] => tstr true e
  | TIface k ms es =>
    (match k with IfImplicit => "/* implicit */ " | _ => "" end) ++
    "interface{" ++ join "; "
      ((fix go (l : list (string * ty)) : list string :=
          match l with [] => [] | (n, x) :: r => (n ++ tstr false x) :: go r end) ms
       ++ tlist es) ++ "}"
  | TUnion ts =>
    join " | "
      ((fix go (l : list (bool * ty)) : list string :=
          match l with
          | [] => []
          | (tilde, x) :: r => ((if tilde then "~" else "") ++ tstr true x) :: go r
          end) ts)
  end.

Definition type_string (t : ty) : string := tstr true t.
End TS.
