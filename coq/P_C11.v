(* P_C11.v -- C11: the import block is exact, canonical and conflict-free (the parts that
   hold unconditionally; the guarded parts are named _partial / _refuted). *)
From Moq Require Import Strs Strs_Proofs GoTypes TypeString VarName Registry Scope Gen Registry_Proofs.
From Coq Require Import Lia Permutation.
Local Open Scope list_scope.

Lemma mock_run_registry i c args d :
  mock_run i c args = Ok d ->
  exists r3, d_imports d = imports_sorted r3 /\ RInv (rcfg_of i c) r3.
Proof.
  unfold mock_run. destruct args as [|a args]; [discriminate|].
  destruct (collect i (rcfg_of i c) [] (a :: args)) as [[r1 rks]| | | |] eqn:C; try discriminate.
  cbn [bind].
  pose proof (collect_rgrows _ _ _ _ _ _ C (rinv_nil _)) as [I1 _].
  assert (S2 : forall r2, (if existsb (fun k => match rk_methods k with [] => false | _ => true end) rks
                then match add_import (rcfg_of i c) r1 sync_pkg with
                     | AddSelf => Ok r1 | AddOk r _ => Ok r
                     | AddDiverges => OutOfFuel "resolveImportConflict" end
                else Ok r1) = Ok r2 -> RInv (rcfg_of i c) r2).
  { intros r2. destruct (existsb _ rks); [|intros E; inversion E; subst; exact I1].
    destruct (add_import (rcfg_of i c) r1 sync_pkg) as [|r path|] eqn:A; try discriminate;
      intros E; inversion E; subst; [exact I1|]. eapply add_import_rinv; eassumption. }
  destruct (if existsb _ rks then _ else Ok r1) as [r2| | | |] eqn:E2; try discriminate. cbn [bind].
  specialize (S2 r2 eq_refl).
  destruct (String.eqb (p_name (in_src i)) (mock_pkg_name i c)).
  - cbn [bind]. intros E. inversion E; subst. exists r2. split; [reflexivity|exact S2].
  - destruct (c_skip_ensure c).
    + cbn [bind]. intros E. inversion E; subst. exists r2. split; [reflexivity|exact S2].
    + destruct (add_import (rcfg_of i c) r2 (in_src i)) as [|r path|] eqn:A; try discriminate; cbn [bind];
        intros E; inversion E; subst.
      * exists r2. split; [reflexivity|exact S2].
      * exists r. split; [reflexivity|]. eapply add_import_rinv; eassumption.
Qed.

(* each package is imported exactly once: import paths are pairwise distinct *)
Theorem C11_once i c args d :
  mock_run i c args = Ok d -> NoDup (map i_path (d_imports d)).
Proof.
  intros E. destruct (mock_run_registry _ _ _ _ E) as [r3 [-> [ND _]]].
  eapply Permutation_NoDup; [|exact ND]. apply Permutation_map. apply Permutation_sym. apply sort_by_perm.
Qed.

(* the block is ordered by import path *)
Theorem C11_sorted i c args d :
  mock_run i c args = Ok d ->
  adj_sorted (fun a b => String.ltb (i_path a) (i_path b)) (d_imports d).
Proof.
  intros E. destruct (mock_run_registry _ _ _ _ E) as [r3 [-> _]].
  apply sort_by_sorted. intros a b. apply str_ltb_asym.
Qed.

(* the destination package itself is never imported (shared with C10) *)
Theorem C11_never_imports_destination i c args d :
  mock_run i c args = Ok d -> ~ In (moq_pkg_path (rcfg_of i c)) (map i_path (d_imports d)).
Proof.
  intros E I. destruct (mock_run_registry _ _ _ _ E) as [r3 [EQ [_ NM]]]. apply NM. rewrite EQ in I.
  eapply Permutation_in; [|exact I]. apply Permutation_map. apply sort_by_perm.
Qed.

(* an alias the source file uses for a package is kept when it conflicts with nothing *)
Theorem C11_keep_alias cfg r p a :
  strip_vendor (p_path p) <> moq_pkg_path cfg ->
  find_path r (strip_vendor (p_path p)) = None ->
  assoc (strip_vendor (p_path p)) (src_aliases cfg) = Some a -> a <> ""%string ->
  search_import r a = None ->
  add_import cfg r p = AddOk (r ++ [mkImp (strip_vendor (p_path p)) (p_name p) a]) (strip_vendor (p_path p)).
Proof.
  intros NE F A NA S. unfold add_import.
  destruct (String.eqb_spec (strip_vendor (p_path p)) (moq_pkg_path cfg)); [contradiction|].
  rewrite F, A. unfold qualifier. cbn [i_alias].
  destruct (String.eqb_spec a ""); [contradiction|]. rewrite S. reflexivity.
Qed.

(* dot and blank imports of the source are never taken over as aliases *)
Theorem C11_no_dot_blank specs acc path a :
  (forall p x, In (p, x) acc -> x <> "."%string /\ x <> "_"%string /\ x <> ""%string) ->
  In (path, a) (parse_aliases specs acc) -> a <> "."%string /\ a <> "_"%string /\ a <> ""%string.
Proof.
  revert acc. induction specs as [|[p n] specs IH]; intros acc OK; simpl; [apply OK|].
  destruct (String.eqb_spec n ""); [apply IH; exact OK|].
  destruct (String.eqb_spec n "."); [apply IH; exact OK|].
  destruct (String.eqb_spec n "_"); [apply IH; exact OK|]. simpl.
  apply IH. intros p0 x [E|I]; [inversion E; subst; auto|].
  apply filter_In in I. destruct I as [I _]. eapply OK. exact I.
Qed.

(* vendor directories are stripped: the documented example, and identity without one *)
Example C11_vendor_example :
  strip_vendor "github.com/foo/bar/vendor/github.com/pkg/errors" = "github.com/pkg/errors"%string /\
  strip_vendor "github.com/pkg/errors" = "github.com/pkg/errors"%string /\
  strip_vendor "a/vendor/b/vendor/c/d" = "b/c/d"%string.
Proof. vm_compute. repeat split. Qed.

(* sync is imported whenever some mock has a method (unless it is the destination) *)
Theorem C11_sync_when_methods i c args d :
  mock_run i c args = Ok d -> moq_pkg_path (rcfg_of i c) <> "sync"%string ->
  existsb (fun k => match mk_methods k with [] => false | _ => true end) (d_mocks d) = true ->
  In "sync"%string (map i_path (d_imports d)).
Proof.
  unfold mock_run. destruct args as [|a args]; [discriminate|].
  destruct (collect i (rcfg_of i c) [] (a :: args)) as [[r1 rks]| | | |] eqn:C; try discriminate.
  cbn [bind]. intros E NS EX.
  assert (EXR : existsb (fun k => match rk_methods k with [] => false | _ => true end) rks = true).
  { destruct (if existsb _ rks then _ else Ok r1) as [r2| | | |]; try discriminate. cbn [bind] in E.
    destruct (if String.eqb _ _ then _ else _) as [[r3 q]| | | |]; try discriminate. cbn [bind] in E.
    inversion E; subst. cbn [d_mocks] in EX. rewrite existsb_exists in *. destruct EX as [k [I M]].
    apply in_map_iff in I. destruct I as [rk [<- I]]. exists rk. split; [exact I|].
    cbn [finish_mock mk_methods] in M. destruct (rk_methods rk); [discriminate|reflexivity]. }
  rewrite EXR in E.
  destruct (add_import (rcfg_of i c) r1 sync_pkg) as [|r2 path|] eqn:A; try discriminate.
  - unfold add_import in A. change (strip_vendor (p_path sync_pkg)) with "sync"%string in A.
    destruct (String.eqb_spec "sync" (moq_pkg_path (rcfg_of i c))); [congruence|].
    destruct (find_path r1 "sync"); [discriminate|]. destruct (search_import r1 _); [|discriminate].
    destruct (resolve _ _ _ _ _); discriminate.
  - cbn [bind] in E.
    assert (IN2 : In "sync"%string (map i_path r2)).
    { destruct (add_import_paths _ _ _ _ _ A) as [P [_ [[EQ I]|[EQ _]]]];
        change (strip_vendor (p_path sync_pkg)) with "sync"%string in P; subst path.
      - rewrite EQ. exact I.
      - rewrite EQ. apply in_or_app. right. left. reflexivity. }
    assert (FIN : forall r3, incl (map i_path r2) (map i_path r3) ->
                             In "sync"%string (map i_path (imports_sorted r3))).
    { intros r3 INC. eapply Permutation_in; [apply Permutation_map; apply Permutation_sym; apply sort_by_perm|].
      apply INC. exact IN2. }
    destruct (String.eqb (p_name (in_src i)) (mock_pkg_name i c)).
    + cbn [bind] in E. inversion E; subst. apply FIN. apply incl_refl.
    + destruct (c_skip_ensure c).
      * cbn [bind] in E. inversion E; subst. apply FIN. apply incl_refl.
      * destruct (add_import (rcfg_of i c) r2 (in_src i)) as [|r path2|] eqn:A2; try discriminate; cbn [bind] in E;
          inversion E; subst; apply FIN; [apply incl_refl|].
        destruct (add_import_paths _ _ _ _ _ A2) as [_ [_ [[EQ _]|[EQ _]]]]; rewrite EQ;
          [apply incl_refl|apply incl_appl; apply incl_refl].
Qed.

(* two imports can end up under one qualifier (finding D13): a witness, evaluated *)
Example C11_distinct_refuted :
  let cfg := mkRcfg "x/src" [] in
  let add r p := match add_import cfg r p with AddOk r' _ => r' | _ => r end in
  map qualifier (fold_left add [mkPkg "p/bar" "bar"; mkPkg "q/foobar" "z"; mkPkg "foo/bar" "z"] [])
  = ["pbar"; "foobar"; "foobar"]%string.
Proof. vm_compute. reflexivity. Qed.

(* ... and an alias built from path components can be a keyword (finding D14) *)
Example C11_identifier_refuted :
  let cfg := mkRcfg "x/src" [] in
  let add r p := match add_import cfg r p with AddOk r' _ => r' | _ => r end in
  map qualifier (fold_left add [mkPkg "m/type/q" "q"; mkPkg "m/range/q" "q"] [])
  = ["typeq"; "rangeq"]%string.
Proof. vm_compute. reflexivity. Qed.
