(* P_C11_distinct.v -- C11: packages sharing a name get distinct aliases -- the part that holds:
   AddImport keeps the qualifiers of the import map pairwise distinct when the package is known,
   meets no conflict, or its conflict is resolved directly (Distinct_Proofs.direct, a computed
   condition whose coverage of the run's additions is reported in the evidence).  The complement
   is refuted in P_C11.v (D13) and P_C19.v (divergence).  Statements only. *)
From Moq Require Import Strs GoTypes TypeString VarName Registry Scope Gen Registry_Proofs Distinct_Proofs
     Benign WellScoped DistinctRun_Proofs.
Local Open Scope list_scope.

Theorem C11_distinct_known cfg r p r' path i :
  QDistinct r -> find_path r (strip_vendor (p_path p)) = Some i ->
  add_import cfg r p = AddOk r' path -> r' = r.
Proof. exact (add_import_distinct_known cfg r p r' path i). Qed.

Theorem C11_distinct_no_conflict cfg r p r' path :
  QDistinct r -> find_path r (strip_vendor (p_path p)) = None ->
  search_import r (qualifier (mkImp (strip_vendor (p_path p)) (p_name p)
     (match assoc (strip_vendor (p_path p)) (src_aliases cfg) with Some a => a | None => ""%string end))) = None ->
  add_import cfg r p = AddOk r' path -> QDistinct r'.
Proof. exact (add_import_distinct_no_conflict cfg r p r' path). Qed.

Theorem C11_distinct_direct cfg r p c l r' path :
  let i := mkImp (strip_vendor (p_path p)) (p_name p)
                 (match assoc (strip_vendor (p_path p)) (src_aliases cfg) with Some a => a | None => ""%string end) in
  NoDup (map i_path r) -> QDistinct r ->
  find_path r (i_path i) = None ->
  search_import r (qualifier i) = Some c ->
  l < resolve_fuel -> direct r i c l = true ->
  add_import cfg r p = AddOk r' path ->
  r' = set_alias r (i_path c) (un c l) ++ [mkImp (i_path i) (i_name i) (un i l)] /\ QDistinct r'.
Proof. exact (add_import_distinct_direct cfg r p c l r' path). Qed.

Example C11_distinct_direct_example :
  let r := [mkImp "a/one/client" "client" ""] in
  let i := mkImp "a/two/client" "client" "" in
  direct r i (mkImp "a/one/client" "client" "") 1 = true /\
  add_import (mkRcfg "x/src" []) r (mkPkg "a/two/client" "client") =
  AddOk [mkImp "a/one/client" "client" "oneclient"; mkImp "a/two/client" "client" "twoclient"] "a/two/client".
Proof. exact direct_example. Qed.

(* one statement for the three classes: an addition the model classifies as known, conflict-free or
   directly resolved keeps paths and qualifiers of the import map pairwise distinct *)
Theorem C11_distinct_step cfg r p r' path :
  RD r -> classify_add cfg r p < 3 -> add_import cfg r p = AddOk r' path -> RD r'.
Proof. exact (add_import_distinct_step cfg r p r' path). Qed.

(* the whole run: if every AddImport of the run is of such a class (a computed guard, reported per
   case), no two imports of the output share a qualifier *)
Theorem C11_distinct_whole_run i c args d :
  mock_run i c args = Ok d -> benign_run i c args = true -> imports_distinct d = true.
Proof. exact (run_qualifiers_distinct i c args d). Qed.

(* the guard holds on a run that has to re-alias (two packages called client, generated elsewhere) *)
Example C11_distinct_guard_holds :
  let src := mkPkg "example.com/m/store" "store" in
  let a := mkPkg "example.com/m/one/client" "client" in
  let b := mkPkg "example.com/m/two/client" "client" in
  let i := mkInput src [] None
     [("Repo", LIface true true []
        [mkMethod "Get" (mkSig [("x", TNamed (Some a) "T" []); ("k", TNamed (Some src) "Key" [])] false
                               [("", TPtr (TNamed (Some b) "T" []))])])] in
  benign_run i (mkConfig "mocks" false false false) ["Repo"] = true.
Proof. vm_compute. reflexivity. Qed.
