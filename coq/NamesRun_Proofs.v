(* NamesRun_Proofs.v -- C12 for the whole run: under the computed guard Benign.names_run_ok the
   parameters and results of every generated method have pairwise distinct names: the conjunct
   names_distinct of WellScoped is TRUE for every method of every mock. *)
From Moq Require Import Strs Strs_Proofs GoTypes TypeString VarName Registry Scope Gen Benign WellScoped
     P_C12 P_C14 DistinctRun_Proofs.
From Coq Require Import Lia.
Local Open Scope list_scope.

Definition SND (sc : scope) : Prop := NoDup (map v_name (sc_vars sc)).

Lemma add_var_snd cfg r sc n t suffix r' sc' idx :
  add_var cfg r sc n t suffix = Ok (r', sc', idx) -> names_step_ok cfg r sc t = true -> SND sc'.
Proof.
  intros A G. eapply C12_add_var_keeps_distinct; [exact A|].
  intros r1 imps P. unfold names_step_ok in G. rewrite P in G. apply nodupb_NoDup. exact G.
Qed.

Lemma add_vars_snd cfg suffix vs : forall r sc r' sc',
  add_vars cfg r sc vs suffix = Ok (r', sc') -> names_vars_ok cfg r sc vs suffix = true -> SND sc -> SND sc'.
Proof.
  induction vs as [|[n t] vs IH]; intros r sc r' sc'; cbn [add_vars names_vars_ok].
  - intros E _ S. inversion E; subst. exact S.
  - destruct (add_var cfg r sc n t suffix) as [[[r1 sc1] idx]| | | |] eqn:A; try discriminate. cbn [bind].
    intros E G _. apply andb_prop in G. destruct G as [G1 G2].
    eapply IH; [exact E|exact G2|]. eapply add_var_snd; eassumption.
Qed.

Lemma method_data_snd cfg r m r' rm :
  method_data cfg r m = Ok (r', rm) -> names_method_ok cfg r m = true -> SND (rm_scope rm).
Proof.
  unfold method_data, names_method_ok.
  destruct (add_vars cfg r empty_scope _ "") as [[r1 sc1]| | | |] eqn:A1; try discriminate. cbn [bind].
  destruct (add_vars cfg r1 sc1 _ "Out") as [[r2 sc2]| | | |] eqn:A2; try discriminate. cbn [bind].
  intros E G. inversion E; subst. cbn [rm_scope]. apply andb_prop in G. destruct G as [G1 G2].
  eapply add_vars_snd; [exact A2|exact G2|]. eapply add_vars_snd; [exact A1|exact G1|]. constructor.
Qed.

Lemma methods_data_snd cfg ms : forall r r' rms,
  methods_data cfg r ms = Ok (r', rms) -> names_methods_ok cfg r ms = true ->
  Forall (fun rm => SND (rm_scope rm)) rms.
Proof.
  induction ms as [|m ms IH]; intros r r' rms; cbn [methods_data names_methods_ok].
  - intros E _. inversion E; subst. constructor.
  - destruct (method_data cfg r m) as [[r1 rm]| | | |] eqn:M; try discriminate. cbn [bind].
    destruct (methods_data cfg r1 ms) as [[r2 rms2]| | | |] eqn:MS; try discriminate. cbn [bind].
    intros E G. inversion E; subst. apply andb_prop in G. destruct G as [G1 G2].
    constructor; [eapply method_data_snd; eassumption|eapply IH; eassumption].
Qed.

Lemma collect_snd i cfg args : forall r r' rks,
  collect i cfg r args = Ok (r', rks) -> names_collect_ok i cfg r args = true ->
  Forall (fun k => Forall (fun rm => SND (rm_scope rm)) (rk_methods k)) rks.
Proof.
  induction args as [|np rest IH]; intros r r' rks; cbn [collect names_collect_ok].
  - intros E _. inversion E; subst. constructor.
  - destruct (parse_interface_name np) as [name mock_name]. cbn [fst].
    destruct (assoc name (in_lookup i)) as [[| |mset isty tps meths]|]; try discriminate.
    destruct (methods_data cfg r meths) as [[r1 rms]| | | |] eqn:M; try discriminate. cbn [bind].
    destruct (type_params cfg r1 tps) as [[r2 tsc]| | | |] eqn:T; try discriminate. cbn [bind].
    destruct (collect i cfg r2 rest) as [[r3 rks']| | | |] eqn:C; try discriminate. cbn [bind].
    intros E G. inversion E; subst. apply andb_prop in G. destruct G as [G1 G2].
    constructor; [cbn [rk_methods]; eapply methods_data_snd; eassumption|eapply IH; eassumption].
Qed.

Lemma finish_params_names cfg rf variadic vs :
  map pd_name (finish_params cfg rf variadic vs) = map v_name vs.
Proof.
  induction vs as [|v vs IH]; [reflexivity|]. destruct vs as [|w vs]; [reflexivity|].
  change (finish_params cfg rf variadic (v :: w :: vs))
    with (finish_param cfg rf false v :: finish_params cfg rf variadic (w :: vs)).
  cbn [map]. rewrite IH. reflexivity.
Qed.

Lemma nodup_app_l {A} (a b : list A) : NoDup (a ++ b) -> NoDup a.
Proof.
  induction a as [|x a IH]; [constructor|]. cbn [app]. intros N. inversion N as [|? ? NI ND]; subst.
  constructor; [intros I; apply NI; apply in_or_app; left; exact I|apply IH; exact ND].
Qed.

Lemma finish_method_names cfg rf (stub : bool) rm :
  SND (rm_scope rm) ->
  NoDup (map pd_name (md_params (finish_method cfg rf rm)) ++
         (if stub then map pd_name (md_returns (finish_method cfg rf rm)) else [])).
Proof.
  unfold SND, finish_method. cbn [md_params md_returns]. intros N.
  rewrite finish_params_names, map_map. cbn [finish_param pd_name].
  assert (ALL : NoDup (map v_name (firstn (rm_nparams rm) (sc_vars (rm_scope rm))) ++
                       map v_name (skipn (rm_nparams rm) (sc_vars (rm_scope rm))))).
  { rewrite <- map_app, firstn_skipn. exact N. }
  destruct stub; [exact ALL|]. rewrite app_nil_r. eapply nodup_app_l. exact ALL.
Qed.

(* THE WHOLE RUN *)
Theorem run_names_distinct i c args d :
  mock_run i c args = Ok d -> names_run_ok i c args = true ->
  forallb (fun k => forallb (names_distinct d) (mk_methods k)) (d_mocks d) = true.
Proof.
  unfold mock_run, names_run_ok. destruct args as [|a args]; [discriminate|].
  set (cfg := rcfg_of i c).
  destruct (collect i cfg [] (a :: args)) as [[r1 rks]| | | |] eqn:C; try discriminate. cbn [bind].
  intros E G. pose proof (collect_snd _ _ _ _ _ _ C G) as S.
  destruct (if existsb _ rks then _ else Ok r1) as [r2| | | |]; try discriminate. cbn [bind] in E.
  destruct (if String.eqb (p_name (in_src i)) (mock_pkg_name i c) then _ else _) as [[r3 q]| | | |];
    try discriminate. cbn [bind] in E.
  inversion E; subst. cbn [d_mocks].
  apply forallb_forall. intros k IK. apply in_map_iff in IK. destruct IK as [rk [<- IRK]].
  rewrite Forall_forall in S. pose proof (S _ IRK) as SK. rewrite Forall_forall in SK.
  apply forallb_forall. intros m IM. cbn [finish_mock mk_methods] in IM.
  apply in_map_iff in IM. destruct IM as [rm [<- IRM]].
  unfold names_distinct, method_names. cbn [d_stub]. apply NoDup_nodupb.
  apply finish_method_names. apply SK. exact IRM.
Qed.
