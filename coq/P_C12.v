(* P_C12.v -- C12: parameter and result identifiers never collide or capture (the parts that
   hold of the code; the rest is delimited by refutations with witnesses). *)
From Moq Require Import Strs Strs_Proofs GoTypes TypeString VarName Registry Scope Gen P_C19.
From Moq.gen Require Import Tables.
From Coq Require Import Lia.
Local Open Scope string_scope.

(* ---- obligations on the reserved-name table regenerated from /repo ---- *)

(* every Go keyword, the receiver and the local record variable are reserved *)
Theorem C12_reserved_covers_keywords :
  forallb (fun k => str_mem k reserved_names) (go_keywords ++ ["mock"; "callInfo"])%list = true.
Proof. vm_compute. reflexivity. Qed.

(* ... and so are the predeclared type names a generated name could shadow *)
Theorem C12_reserved_covers_basic_types :
  forallb (fun k => str_mem k reserved_names)
          ["string"; "bool"; "byte"; "rune"; "uintptr"; "int"; "int8"; "int16"; "int32"; "int64";
           "uint"; "uint8"; "uint16"; "uint32"; "uint64"; "float32"; "float64"; "complex64";
           "complex128"] = true.
Proof. vm_compute. reflexivity. Qed.

Theorem C12_suffix_escapes_table :
  forallb (fun r => negb (has_suffix r reserved_suffix)) reserved_names = true
  /\ negb (String.eqb reserved_suffix "") = true.
Proof. vm_compute. split; reflexivity. Qed.

(* a name GENERATED for an unnamed or blank parameter is never a keyword, never mock or
   callInfo, never a listed basic type *)
Theorem C12_generated_not_reserved name t suffix :
  name = "" \/ name = "_" -> str_mem (var_name name t suffix) reserved_names = false.
Proof.
  intros N. unfold var_name, var_name_with.
  assert (E : negb (String.eqb name "") && negb (String.eqb name "_") = false).
  { destruct N as [-> | ->]; reflexivity. }
  rewrite E. destruct (str_mem (var_name_for_type t ++ suffix) reserved_names) eqn:M; [|exact M].
  destruct (str_mem ((var_name_for_type t ++ suffix) ++ reserved_suffix) reserved_names) eqn:M2; [|reflexivity].
  exfalso.
  unfold str_mem in M2. apply existsb_exists in M2. destruct M2 as [r [I Q]]. apply String.eqb_eq in Q.
  destruct C12_suffix_escapes_table as [T _]. rewrite forallb_forall in T. specialize (T r I).
  rewrite <- Q, has_suffix_append in T. discriminate T.
Qed.

(* ---- freshness of the name AddVar picks ---- *)

Lemma first_free_spec f vs s n k :
  first_free f vs s n = Some k -> has_var vs (s ++ itoa k) = false /\ n <= k.
Proof.
  revert n. induction f as [|f IH]; intros n; simpl; [discriminate|].
  destruct (has_var vs (s ++ itoa n)) eqn:H.
  - intros E. destruct (IH _ E). split; [assumption|lia].
  - intros E. inversion E; subst. split; [exact H|lia].
Qed.

Definition names (sc : scope) : list string := map v_name (sc_vars sc).

(* The name AddVar picks is never the name of a variable already in the scope (after the
   import-driven renames and the numbering rename): unconditional since the repair of D2. *)
Theorem C12_fresh cfg r sc name t suffix r' sc' idx :
  add_var cfg r sc name t suffix = Ok (r', sc', idx) ->
  exists vs2 v, sc_vars sc' = (vs2 ++ [v])%list /\ idx = List.length vs2 /\
                has_var vs2 (v_name v) = false.
Proof.
  unfold add_var. destruct (populate cfg r (refs t) []) as [[r1 imps]| | | |]; try discriminate.
  cbn [bind].
  set (vs1 := rename_for_imports (sc_vars sc) (var_quals r1 imps)).
  set (n1 := match search_import r1 (var_name name t suffix) with Some _ => _ | None => _ end).
  destruct (has_var vs1 n1 || str_mem n1 (sc_conflicted sc)) eqn:CONF.
  - unfold resolve_var_name_conflict. cbn [sc_vars sc_conflicted].
    destruct (first_free _ vs1 n1 1) as [k|] eqn:FF; [|discriminate].
    destruct (first_free_spec _ _ _ _ _ FF) as [FREE GE].
    destruct k as [|[|k]]; [lia| |].
    + destruct (first_free _ _ n1 2) as [n|] eqn:F2; [|discriminate]. cbn [bind].
      destruct (first_free_spec _ _ _ _ _ F2) as [FREE2 _].
      intros E. inversion E; subst. do 2 eexists. split; [reflexivity|]. split; [reflexivity|].
      exact FREE2.
    + cbn [bind]. intros E. inversion E; subst. do 2 eexists. split; [reflexivity|]. split; [reflexivity|].
      exact FREE.
  - cbn [bind]. intros E. inversion E; subst. do 2 eexists. split; [reflexivity|]. split; [reflexivity|].
    cbn [v_name]. apply orb_false_elim in CONF. tauto.
Qed.


Lemma NoDup_app_one {A} (l : list A) (x : A) : NoDup l -> ~ In x l -> NoDup (l ++ [x]).
Proof.
  intros ND NI. induction l as [|y l IH]; cbn [app]; [constructor; [intros []|constructor]|].
  inversion ND as [|? ? NIy NDl]; subst. constructor.
  - intros I. apply in_app_or in I. destruct I as [I|[E|[]]]; [contradiction|]. apply NI. left. symmetry. exact E.
  - apply IH; [exact NDl|]. intros I. apply NI. right. exact I.
Qed.

(* ---- numbering never makes two variables share a name (the invariant D2 broke) ---- *)

Lemma has_var_false_notin vs name : has_var vs name = false -> ~ In name (map v_name vs).
Proof. intros H I. apply has_var_In in I. rewrite I in H. discriminate. Qed.

Lemma rename_first_names_nodup : forall vs a b,
  NoDup (map v_name vs) -> ~ In b (map v_name vs) -> NoDup (map v_name (rename_first vs a b)).
Proof.
  induction vs as [|v vs IH]; intros a b ND NI; [constructor|].
  cbn [rename_first]. inversion ND as [|x l NIv NDr]; subst.
  destruct (String.eqb (v_name v) a).
  - cbn [map v_name]. constructor; [|exact NDr]. intros I. apply NI. right. exact I.
  - cbn [map]. constructor.
    + intros I.
      assert (In (v_name v) (b :: map v_name vs)) as I2.
      { clear - I. induction vs as [|w vs IH]; [destruct I|]. cbn [rename_first] in I.
        destruct (String.eqb (v_name w) a).
        - cbn [map v_name] in I. destruct I as [E|I]; [left; exact E|right; right; exact I].
        - cbn [map] in I. destruct I as [E|I]; [right; left; exact E|].
          destruct (IH I) as [E|I2]; [left; exact E|right; right; exact I2]. }
      destruct I2 as [E|I2]; [apply NI; left; symmetry; exact E|contradiction].
    + apply IH; [exact NDr|]. intros I. apply NI. right. exact I.
Qed.

Theorem C12_numbering_keeps_distinct sc s n sc' :
  NoDup (names sc) ->
  resolve_var_name_conflict sc s = Ok (n, sc') ->
  NoDup (n :: names sc').
Proof.
  unfold names, resolve_var_name_conflict. intros ND.
  destruct (first_free _ (sc_vars sc) s 1) as [k|] eqn:FF; [|discriminate].
  destruct (first_free_spec _ _ _ _ _ FF) as [FREE GE].
  destruct k as [|[|k]]; [lia| |].
  - (* the bare stem becomes <stem>1, the new variable gets the first free number from 2 *)
    set (vs1 := if has_var (sc_vars sc) s then rename_first (sc_vars sc) s (s ++ "1") else sc_vars sc).
    assert (ND1 : NoDup (map v_name vs1)).
    { unfold vs1. destruct (has_var (sc_vars sc) s); [|exact ND].
      apply rename_first_names_nodup; [exact ND|]. apply has_var_false_notin. exact FREE. }
    destruct (first_free _ vs1 s 2) as [m|] eqn:F2; [|discriminate].
    destruct (first_free_spec _ _ _ _ _ F2) as [FREE2 _].
    intros E. inversion E; subst. cbn [sc_vars]. constructor; [|exact ND1].
    apply has_var_false_notin. exact FREE2.
  - intros E. inversion E; subst. constructor; [|exact ND].
    apply has_var_false_notin. exact FREE.
Qed.

(* AddVar keeps the names of a scope pairwise distinct unless an import-driven rename
   (resolveImportVarConflicts: q -> qMoqParam) lands on a name that is already taken --
   the residual family names_distinct/names_qualifiers, decided per input by WellScoped. *)
Theorem C12_add_var_keeps_distinct cfg r sc name t suffix r' sc' idx :
  add_var cfg r sc name t suffix = Ok (r', sc', idx) ->
  (forall r1 imps, populate cfg r (refs t) [] = Ok (r1, imps) ->
     NoDup (map v_name (rename_for_imports (sc_vars sc) (var_quals r1 imps)))) ->
  NoDup (names sc').
Proof.
  unfold add_var, names. destruct (populate cfg r (refs t) []) as [[r1 imps]| | | |]; try discriminate.
  cbn [bind]. intros E H. specialize (H r1 imps eq_refl).
  set (vs1 := rename_for_imports (sc_vars sc) (var_quals r1 imps)) in *.
  set (n1 := match search_import r1 (var_name name t suffix) with Some _ => _ | None => _ end) in *.
  destruct (has_var vs1 n1 || str_mem n1 (sc_conflicted sc)) eqn:CONF.
  - destruct (resolve_var_name_conflict (mkScope vs1 (sc_conflicted sc)) n1) as [[n2 sc2]| | | |] eqn:R;
      try discriminate.
    cbn [bind] in E. inversion E; subst. cbn [sc_vars].
    pose proof (C12_numbering_keeps_distinct (mkScope vs1 (sc_conflicted sc)) n1 n2 sc2 H R) as ND.
    unfold names in ND. rewrite map_app. cbn [map v_name].
    apply NoDup_cons_iff in ND. destruct ND as [NI ND].
    apply NoDup_app_one; assumption.
  - cbn [bind] in E. inversion E; subst. cbn [sc_vars]. rewrite map_app. cbn [map v_name].
    apply orb_false_elim in CONF. destruct CONF as [HV _].
    apply NoDup_app_one; [exact H|]. apply has_var_false_notin. exact HV.
Qed.

(* ---- what remains false of the code, and what the repairs changed: evaluated witnesses ---- *)

Definition mk_cfg := mkRcfg "example.com/x" [].
Definition run_params (ps : list (string * ty)) : outcome (list string) :=
  bind (add_vars mk_cfg [] empty_scope ps "") (fun '(_, sc) => Ok (map v_name (sc_vars sc))).
Definition t_string := TBasic "string" KString false.
Definition t_int := TBasic "int" KInt false.

(* D2 (repaired): M(s2 int, _ string, _ string) no longer yields s2 twice *)
Example C12_number_two_fixed :
  run_params [("s2", t_int); ("_", t_string); ("_", t_string)] = Ok ["s2"; "s1"; "s3"].
Proof. vm_compute. reflexivity. Qed.

(* D4 (repaired for the two names the body declares): mock and callInfo are renamed *)
Example C12_user_reserved_fixed :
  run_params [("mock", t_int); ("callInfo", t_string)] = Ok ["mockMoqParam"; "callInfoMoqParam"].
Proof. vm_compute. reflexivity. Qed.

(* D4 (remaining): a user parameter may still capture a predeclared identifier the body uses *)
Example C12_user_reserved_refuted :
  run_params [("append", t_int); ("nil", t_string)] = Ok ["append"; "nil"].
Proof. vm_compute. reflexivity. Qed.

(* D5: distinct parameters, equal record fields *)
Example C12_fields_refuted :
  run_params [("a", t_int); ("A", t_int)] = Ok ["a"; "A"] /\ exported "a" = exported "A".
Proof. vm_compute. split; reflexivity. Qed.

(* D22 (repaired): the numbering no longer dereferences nil after an import renamed the
   variable it expected, and the names stay distinct *)
Example C12_numbering_crash_fixed :
  bind (add_vars mk_cfg [] empty_scope
           [("", t_string); ("", t_string); ("", TNamed (Some (mkPkg "example.com/s1" "s1")) "T" []);
            ("", t_string)] "") (fun '(_, sc) => Ok (map v_name (sc_vars sc)))
  = Ok ["s1MoqParam"; "s2"; "t"; "s3"].
Proof. vm_compute. reflexivity. Qed.
