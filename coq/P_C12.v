(* P_C12.v -- C12: parameter and result identifiers never collide or capture (the parts that
   hold of the code; the rest is delimited by refutations with witnesses). *)
From Moq Require Import Strs Strs_Proofs GoTypes TypeString VarName Registry Scope Gen P_C19.
From Moq.gen Require Import Tables.
From Coq Require Import Lia.
Local Open Scope string_scope.

(* ---- obligations on the reserved-name table regenerated from /repo ---- *)

(* every Go keyword, the receiver and the local record variable are reserved *)
Theorem C12_reserved_covers_keywords :
  forallb (fun k => str_mem k reserved_names) (go_keywords ++ ["mock"; "callInfo"])%list = true.
Proof. vm_compute. reflexivity. Qed.

(* ... and so are the predeclared type names a generated name could shadow *)
Theorem C12_reserved_covers_basic_types :
  forallb (fun k => str_mem k reserved_names)
          ["string"; "bool"; "byte"; "rune"; "uintptr"; "int"; "int8"; "int16"; "int32"; "int64";
           "uint"; "uint8"; "uint16"; "uint32"; "uint64"; "float32"; "float64"; "complex64";
           "complex128"] = true.
Proof. vm_compute. reflexivity. Qed.

Theorem C12_suffix_escapes_table :
  forallb (fun r => negb (has_suffix r reserved_suffix)) reserved_names = true
  /\ negb (String.eqb reserved_suffix "") = true.
Proof. vm_compute. split; reflexivity. Qed.

(* a name GENERATED for an unnamed or blank parameter is never a keyword, never mock or
   callInfo, never a listed basic type *)
Theorem C12_generated_not_reserved name t suffix :
  name = "" \/ name = "_" -> str_mem (var_name name t suffix) reserved_names = false.
Proof.
  intros N. unfold var_name, var_name_with.
  assert (E : negb (String.eqb name "") && negb (String.eqb name "_") = false).
  { destruct N as [-> | ->]; reflexivity. }
  rewrite E. destruct (str_mem (var_name_for_type t ++ suffix) reserved_names) eqn:M; [|exact M].
  destruct (str_mem ((var_name_for_type t ++ suffix) ++ reserved_suffix) reserved_names) eqn:M2; [|reflexivity].
  exfalso.
  unfold str_mem in M2. apply existsb_exists in M2. destruct M2 as [r [I Q]]. apply String.eqb_eq in Q.
  destruct C12_suffix_escapes_table as [T _]. rewrite forallb_forall in T. specialize (T r I).
  rewrite <- Q, has_suffix_append in T. discriminate T.
Qed.

(* ---- freshness of the name AddVar picks ---- *)

Lemma first_free_spec f vs s n k :
  first_free f vs s n = Some k -> has_var vs (s ++ itoa k) = false /\ n <= k.
Proof.
  revert n. induction f as [|f IH]; intros n; simpl; [discriminate|].
  destruct (has_var vs (s ++ itoa n)) eqn:H.
  - intros E. destruct (IH _ E). split; [assumption|lia].
  - intros E. inversion E; subst. split; [exact H|lia].
Qed.

Definition names (sc : scope) : list string := map v_name (sc_vars sc).

(* The name AddVar picks is never the name of a variable already in the scope (after the
   import-driven renames and the numbering rename): unconditional since the repair of D2. *)
Theorem C12_fresh cfg r sc name t suffix r' sc' idx :
  add_var cfg r sc name t suffix = Ok (r', sc', idx) ->
  exists vs2 v, sc_vars sc' = (vs2 ++ [v])%list /\ idx = List.length vs2 /\
                has_var vs2 (v_name v) = false.
Proof.
  unfold add_var. destruct (populate cfg r (refs t) []) as [[r1 imps]| | | |]; try discriminate.
  cbn [bind]. destruct (_ && _); [discriminate|].
  set (vs1 := rename_for_imports (sc_vars sc) (map (imp_qualifier r1) imps)).
  set (n1 := match search_import r1 (var_name name t suffix) with Some _ => _ | None => _ end).
  destruct (has_var vs1 n1 || str_mem n1 (sc_conflicted sc)) eqn:CONF.
  - unfold resolve_var_name_conflict. cbn [sc_vars sc_conflicted].
    destruct (first_free _ vs1 n1 1) as [k|] eqn:FF; [|discriminate].
    destruct (first_free_spec _ _ _ _ _ FF) as [FREE GE].
    destruct k as [|[|k]]; [lia| |].
    + destruct (first_free _ _ n1 2) as [n|] eqn:F2; [|discriminate]. cbn [bind].
      destruct (first_free_spec _ _ _ _ _ F2) as [FREE2 _].
      intros E. inversion E; subst. do 2 eexists. split; [reflexivity|]. split; [reflexivity|].
      exact FREE2.
    + cbn [bind]. intros E. inversion E; subst. do 2 eexists. split; [reflexivity|]. split; [reflexivity|].
      exact FREE.
  - cbn [bind]. intros E. inversion E; subst. do 2 eexists. split; [reflexivity|]. split; [reflexivity|].
    cbn [v_name]. apply orb_false_elim in CONF. tauto.
Qed.

(* ---- what remains false of the code, and what the repairs changed: evaluated witnesses ---- *)

Definition mk_cfg := mkRcfg "example.com/x" [].
Definition run_params (ps : list (string * ty)) : outcome (list string) :=
  bind (add_vars mk_cfg [] empty_scope ps "") (fun '(_, sc) => Ok (map v_name (sc_vars sc))).
Definition t_string := TBasic "string" KString false.
Definition t_int := TBasic "int" KInt false.

(* D2 (repaired): M(s2 int, _ string, _ string) no longer yields s2 twice *)
Example C12_number_two_fixed :
  run_params [("s2", t_int); ("_", t_string); ("_", t_string)] = Ok ["s2"; "s1"; "s3"].
Proof. vm_compute. reflexivity. Qed.

(* D4 (repaired for the two names the body declares): mock and callInfo are renamed *)
Example C12_user_reserved_fixed :
  run_params [("mock", t_int); ("callInfo", t_string)] = Ok ["mockMoqParam"; "callInfoMoqParam"].
Proof. vm_compute. reflexivity. Qed.

(* D4 (remaining): a user parameter may still capture a predeclared identifier the body uses *)
Example C12_user_reserved_refuted :
  run_params [("append", t_int); ("nil", t_string)] = Ok ["append"; "nil"].
Proof. vm_compute. reflexivity. Qed.

(* D5: distinct parameters, equal record fields *)
Example C12_fields_refuted :
  run_params [("a", t_int); ("A", t_int)] = Ok ["a"; "A"] /\ exported "a" = exported "A".
Proof. vm_compute. split; reflexivity. Qed.

(* D22 (repaired): the numbering no longer dereferences nil after an import renamed the
   variable it expected, and the names stay distinct *)
Example C12_numbering_crash_fixed :
  bind (add_vars mk_cfg [] empty_scope
           [("", t_string); ("", t_string); ("", TNamed (Some (mkPkg "example.com/s1" "s1")) "T" []);
            ("", t_string)] "") (fun '(_, sc) => Ok (map v_name (sc_vars sc)))
  = Ok ["s1MoqParam"; "s2"; "t"; "s3"].
Proof. vm_compute. reflexivity. Qed.
