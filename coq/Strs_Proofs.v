(* Strs_Proofs.v -- basic facts about byte strings used across the development. *)
From Moq Require Import Strs.
From Coq Require Import Lia.
Local Open Scope string_scope.

Lemma append_assoc (a b c : string) : (a ++ b) ++ c = a ++ (b ++ c).
Proof. induction a as [|x a IH]; simpl; [reflexivity|]. rewrite IH. reflexivity. Qed.

Lemma append_nil_r (a : string) : a ++ "" = a.
Proof. induction a as [|x a IH]; simpl; [reflexivity|]. rewrite IH. reflexivity. Qed.

Lemma append_length (a b : string) : String.length (a ++ b) = String.length a + String.length b.
Proof. induction a as [|x a IH]; simpl; [reflexivity|]. rewrite IH. reflexivity. Qed.

Lemma append_inj_l (a b c : string) : a ++ b = a ++ c -> b = c.
Proof. induction a as [|x a IH]; simpl; [auto|]. intros H. inversion H. auto. Qed.

Lemma append_eq_nil (a b : string) : a ++ b = "" -> a = "" /\ b = "".
Proof. destruct a; simpl; [auto|discriminate]. Qed.

Lemma rev_str_aux_app a b : rev_str_aux a b = rev_str_aux a "" ++ b.
Proof.
  revert b. induction a as [|c a IH]; intros b; simpl; [reflexivity|].
  rewrite IH. rewrite (IH (String c "")). rewrite append_assoc. reflexivity.
Qed.

Lemma rev_str_aux_append a b acc : rev_str_aux (a ++ b) acc = rev_str_aux b (rev_str_aux a acc).
Proof. revert acc. induction a as [|c a IH]; intros acc; simpl; [reflexivity|apply IH]. Qed.

Lemma rev_str_involutive s : rev_str (rev_str s) = s.
Proof.
  unfold rev_str. induction s as [|c s IH]; [reflexivity|]. simpl.
  rewrite (rev_str_aux_app s (String c "")). rewrite rev_str_aux_append. simpl. rewrite IH. reflexivity.
Qed.

Lemma rev_str_append a b : rev_str (a ++ b) = rev_str b ++ rev_str a.
Proof. unfold rev_str. rewrite rev_str_aux_append. apply rev_str_aux_app. Qed.

Lemma prefix_append a b : String.prefix a (a ++ b) = true.
Proof.
  induction a as [|c a IH]; simpl; [destruct b; reflexivity|].
  destruct (Ascii.ascii_dec c c); [exact IH|contradiction].
Qed.

Lemma has_suffix_append a b : has_suffix (a ++ b) b = true.
Proof. unfold has_suffix. rewrite rev_str_append. apply prefix_append. Qed.
