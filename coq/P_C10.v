(* P_C10.v -- C10: type references respect the package the mock is generated into. *)
From Moq Require Import Strs Strs_Proofs GoTypes TypeString VarName Registry Scope Gen Registry_Proofs P_C11.
Local Open Scope string_scope.

(* no -pkg: the destination is the source package *)
Theorem C10_infer oracle src_path : find_pkg_path oracle "" src_path = src_path.
Proof. reflexivity. Qed.

(* generated into the source package: the file never imports its own package ... *)
Theorem C10_same_no_self_import i c args d :
  moq_pkg_path (rcfg_of i c) = p_path (in_src i) ->
  mock_run i c args = Ok d -> ~ In (p_path (in_src i)) (map i_path (d_imports d)).
Proof. intros E R. rewrite <- E. apply (C11_never_imports_destination _ _ _ _ R). Qed.

(* ... and types of that package are written unqualified *)
Theorem C10_same_bare cfg rf v p :
  moq_pkg_path cfg <> "" -> strip_vendor (p_path p) = moq_pkg_path cfg ->
  var_qualifier cfg rf v p = "".
Proof.
  intros NE E. unfold var_qualifier. rewrite E.
  destruct (String.eqb_spec (moq_pkg_path cfg) ""); [contradiction|]. rewrite String.eqb_refl. reflexivity.
Qed.

(* generated into another package with the self-check: the source package is imported and
   the self-check line is qualified through that import *)
Theorem C10_other_imports_source i c args d :
  mock_run i c args = Ok d ->
  p_name (in_src i) <> mock_pkg_name i c -> c_skip_ensure c = false ->
  strip_vendor (p_path (in_src i)) <> moq_pkg_path (rcfg_of i c) ->
  exists im, In im (d_imports d) /\ i_path im = strip_vendor (p_path (in_src i)) /\
             d_src_qualifier d = qualifier im ++ ".".
Proof.
  unfold mock_run. destruct args as [|a args]; [discriminate|].
  destruct (collect i (rcfg_of i c) [] (a :: args)) as [[r1 rks]| | | |]; try discriminate. cbn [bind].
  destruct (if existsb _ rks then _ else Ok r1) as [r2| | | |]; try discriminate. cbn [bind].
  intros E NN SK NP.
  destruct (String.eqb_spec (p_name (in_src i)) (mock_pkg_name i c)); [contradiction|]. rewrite SK in E.
  destruct (add_import (rcfg_of i c) r2 (in_src i)) as [|r path|] eqn:A; try discriminate.
  - unfold add_import in A.
    destruct (String.eqb_spec (strip_vendor (p_path (in_src i))) (moq_pkg_path (rcfg_of i c))); [contradiction|].
    destruct (find_path r2 _); [discriminate|]. destruct (search_import r2 _); [|discriminate].
    destruct (resolve _ _ _ _ _); discriminate.
  - cbn [bind] in E. inversion E; subst. cbn [d_imports d_src_qualifier].
    destruct (Registry_Proofs.add_import_paths _ _ _ _ _ A) as [P [_ IN]].
    assert (INP : In path (map i_path r)).
    { destruct IN as [[EQ I]|[EQ _]]; rewrite EQ; [exact I|apply in_or_app; right; left; reflexivity]. }
    destruct (find_path r path) as [im|] eqn:F.
    + exists im. unfold find_path in F. apply find_some in F. destruct F as [I Q]. apply String.eqb_eq in Q.
      split; [|split; [congruence|reflexivity]].
      eapply Permutation.Permutation_in; [apply Permutation.Permutation_sym; apply sort_by_perm|exact I].
    + exfalso. apply in_map_iff in INP. destruct INP as [im [Q I]]. unfold find_path in F.
      apply (find_none _ _ F) in I. rewrite Q, String.eqb_refl in I. discriminate.
Qed.

(* -skip-ensure: the source package is not imported for the self-check; whether it is
   imported at all is decided by the signatures alone *)
Theorem C10_skip_qualifier i c args d :
  mock_run i c args = Ok d -> p_name (in_src i) <> mock_pkg_name i c -> c_skip_ensure c = true ->
  d_src_qualifier d = p_name (in_src i) ++ ".".
Proof.
  unfold mock_run. destruct args as [|a args]; [discriminate|].
  destruct (collect i (rcfg_of i c) [] (a :: args)) as [[r1 rks]| | | |]; try discriminate. cbn [bind].
  destruct (if existsb _ rks then _ else Ok r1) as [r2| | | |]; try discriminate. cbn [bind].
  intros E NN SK. destruct (String.eqb_spec (p_name (in_src i)) (mock_pkg_name i c)); [contradiction|].
  rewrite SK in E. cbn [bind] in E. inversion E; subst. reflexivity.
Qed.

(* -pkg naming the source package itself: findPkgPath compares the package NAME found in
   the directory with the source package's import PATH, so for an ordinary layout it answers
   "" -- neither the source package nor a sub-package (finding D15) *)
Example C10_explicit_same_refuted :
  find_pkg_path (Some "store") "store" "example.com/m/store" = "" /\
  find_pkg_path None "store" "example.com/m/store" = "".
Proof. vm_compute. split; reflexivity. Qed.
