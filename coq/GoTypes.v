(* GoTypes.v -- a first-order copy of go/types' type constructors, as dumped by the
   harness from the objects the real type checker produced. *)
From Moq Require Import Strs.
Local Open Scope list_scope.

Record pkg := mkPkg { p_path : string; p_name : string }.

(* b.Info() of a *types.Basic compared by equality, exactly as basicTypeVarName does *)
Inductive bkind := KBool | KInt | KFloat | KString | KOther.
Inductive chandir := CBoth | CSend | CRecv.
(* how an interface literal prints: ordinary, the universe "any", comparable's underlying *)
Inductive ifkind := IfPlain | IfAny | IfImplicit.

Inductive ty :=
| TBasic (name : string) (k : bkind) (is_unsafe_ptr : bool)
| TNamed (p : option pkg) (name : string) (targs : list ty)
| TAlias (p : option pkg) (name : string) (targs : list ty)
| TParam (name : string)
| TPtr (t : ty)
| TSlice (t : ty)
| TArray (n : string) (t : ty)
| TMap (k v : ty)
| TChan (d : chandir) (t : ty)
| TFunc (params : list (string * ty)) (variadic : bool) (results : list (string * ty))
| TStruct (fields : list (string * bool * ty * string))  (* name, embedded, type, tag *)
| TIface (k : ifkind) (methods : list (string * ty)) (embeds : list ty) (* methods carry a TFunc *)
| TUnion (terms : list (bool * ty)).                     (* tilde, type *)

Definition unsafe_pkg : pkg := mkPkg "unsafe" "unsafe".

(* What MethodScope.populateImports visits, in visiting order (since the repair of D8 also the
   terms of a union and the package unsafe for unsafe.Pointer). *)
Fixpoint refs (t : ty) : list pkg :=
  let refs_l := fix go (l : list ty) : list pkg :=
    match l with [] => [] | x :: r => refs x ++ go r end in
  let refs_nl := fix go (l : list (string * ty)) : list pkg :=
    match l with [] => [] | (_, x) :: r => refs x ++ go r end in
  match t with
  | TBasic _ _ true => [unsafe_pkg]
  | TBasic _ _ false => []
  | TNamed p _ targs => (match p with Some p => [p] | None => [] end) ++ refs_l targs
  | TAlias p _ targs => (match p with Some p => [p] | None => [] end) ++ refs_l targs
  | TParam _ => []
  | TPtr t => refs t
  | TSlice t => refs t
  | TArray _ t => refs t
  | TMap k v => refs k ++ refs v
  | TChan _ t => refs t
  | TFunc ps _ rs => refs_nl ps ++ refs_nl rs
  | TStruct fs =>
    (fix go (l : list (string * bool * ty * string)) : list pkg :=
       match l with [] => [] | (_, _, x, _) :: r => refs x ++ go r end) fs
  | TIface _ ms es => refs_nl ms ++ refs_l es
  | TUnion ts =>
    (fix go (l : list (bool * ty)) : list pkg :=
       match l with [] => [] | (_, x) :: r => refs x ++ go r end) ts
  end.

(* The packages types.TypeString asks a qualifier for, in printing order. *)
Fixpoint mentions (t : ty) : list pkg :=
  let m_l := fix go (l : list ty) : list pkg :=
    match l with [] => [] | x :: r => mentions x ++ go r end in
  let m_nl := fix go (l : list (string * ty)) : list pkg :=
    match l with [] => [] | (_, x) :: r => mentions x ++ go r end in
  match t with
  | TBasic _ _ true => [unsafe_pkg]
  | TBasic _ _ false => []
  | TNamed p _ targs => (match p with Some p => [p] | None => [] end) ++ m_l targs
  | TAlias p _ targs => (match p with Some p => [p] | None => [] end) ++ m_l targs
  | TParam _ => []
  | TPtr t => mentions t
  | TSlice t => mentions t
  | TArray _ t => mentions t
  | TMap k v => mentions k ++ mentions v
  | TChan _ t => mentions t
  | TFunc ps _ rs => m_nl ps ++ m_nl rs
  | TStruct fs =>
    (fix go (l : list (string * bool * ty * string)) : list pkg :=
       match l with [] => [] | (_, _, x, _) :: r => mentions x ++ go r end) fs
  | TIface IfAny _ _ => []
  | TIface _ ms es => m_nl ms ++ m_l es
  | TUnion ts =>
    (fix go (l : list (bool * ty)) : list pkg :=
       match l with [] => [] | (_, x) :: r => mentions x ++ go r end) ts
  end.

(* the guard of refs_eq_mentions.  Before the repair of D8 it excluded unsafe.Pointer and
   package-qualified union terms; what is left is a well-formedness condition on the dumped
   terms: the predeclared any / interface{} (IfAny) has no members. *)
Fixpoint walk_complete (t : ty) : bool :=
  let w_l := fix go (l : list ty) : bool :=
    match l with [] => true | x :: r => walk_complete x && go r end in
  let w_nl := fix go (l : list (string * ty)) : bool :=
    match l with [] => true | (_, x) :: r => walk_complete x && go r end in
  match t with
  | TBasic _ _ _ => true
  | TNamed _ _ targs => w_l targs
  | TAlias _ _ targs => w_l targs
  | TParam _ => true
  | TPtr t => walk_complete t
  | TSlice t => walk_complete t
  | TArray _ t => walk_complete t
  | TMap k v => walk_complete k && walk_complete v
  | TChan _ t => walk_complete t
  | TFunc ps _ rs => w_nl ps && w_nl rs
  | TStruct fs =>
    (fix go (l : list (string * bool * ty * string)) : bool :=
       match l with [] => true | (_, _, x, _) :: r => walk_complete x && go r end) fs
  | TIface IfAny ms es => match ms, es with [], [] => true | _, _ => false end
  | TIface _ ms es => w_nl ms && w_l es
  | TUnion ts =>
    (fix go (l : list (bool * ty)) : bool :=
       match l with [] => true | (_, x) :: r => walk_complete x && go r end) ts
  end.

Record sig := mkSig {
  s_params : list (string * ty);
  s_variadic : bool;
  s_results : list (string * ty) }.
