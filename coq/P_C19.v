(* P_C19.v -- C19: every invocation terminates with output or a diagnostic. *)
From Moq Require Import Strs Strs_Proofs GoTypes TypeString VarName Registry Scope Gen Registry_Proofs.
From Coq Require Import Lia DecimalString DecimalNat FinFun.
Local Open Scope string_scope.

(* ---- numbering of parameter names terminates ---- *)

Lemma itoa_inj n m : itoa n = itoa m -> n = m.
Proof.
  unfold itoa. intros H. apply (f_equal NilEmpty.uint_of_string) in H.
  rewrite !NilEmpty.usu in H. inversion H as [E]. apply Unsigned.to_uint_inj. exact E.
Qed.

Lemma has_var_In vs name : has_var vs name = true <-> In name (map v_name vs).
Proof.
  unfold has_var. rewrite existsb_exists. split.
  - intros [v [I E]]. apply String.eqb_eq in E. subst. apply in_map. exact I.
  - intros I. apply in_map_iff in I. destruct I as [v [E I]]. exists v. split; [exact I|].
    subst. apply String.eqb_refl.
Qed.

(* if the search gives up after f steps, f distinct candidates are all taken *)
Lemma first_free_none f vs s n :
  first_free f vs s n = None ->
  forall k, n <= k < n + f -> In (s ++ itoa k) (map v_name vs).
Proof.
  revert n. induction f as [|f IH]; intros n H k K; [lia|].
  simpl in H. destruct (has_var vs (s ++ itoa n)) eqn:HV; [|discriminate].
  destruct (Nat.eq_dec k n) as [->|NE]; [apply has_var_In; exact HV|].
  apply (IH (S n) H). lia.
Qed.

Lemma candidates_nodup s n f : NoDup (map (fun k => s ++ itoa k) (seq n f)).
Proof.
  apply Injective_map_NoDup; [|apply seq_NoDup].
  intros a b E. apply append_inj_l in E. apply itoa_inj. exact E.
Qed.

(* the search for a free numbered name never runs out of the fuel the model gives it:
   the unbounded `for n := 1; ; n++` loop of resolveVarNameConflict always terminates *)
Theorem C19_numbering_terminates vs s :
  first_free (S (S (List.length vs))) vs s 1 <> None.
Proof.
  intros H.
  assert (INCL : incl (map (fun k => s ++ itoa k) (seq 1 (S (S (List.length vs))))) (map v_name vs)).
  { intros x I. apply in_map_iff in I. destruct I as [k [<- I]]. apply in_seq in I.
    apply (first_free_none _ _ _ _ H). lia. }
  pose proof (NoDup_incl_length (candidates_nodup s 1 _) INCL) as L.
  rewrite !map_length, seq_length in L. lia.
Qed.

Lemma first_free_mono f vs s n : first_free f vs s n = None -> forall g, g <= f -> first_free g vs s n = None.
Proof.
  revert n. induction f as [|f IH]; intros n H g L; [destruct g; [reflexivity|lia]|].
  destruct g as [|g]; [reflexivity|]. simpl in *.
  destruct (has_var vs (s ++ itoa n)); [|discriminate]. apply IH; [exact H|lia].
Qed.

Lemma rename_first_length vs a b : List.length (rename_first vs a b) = List.length vs.
Proof. induction vs as [|v vs IH]; simpl; [reflexivity|]. destruct (String.eqb (v_name v) a); simpl; auto. Qed.

(* from 2 the search also succeeds within the same fuel: at most |vs| names are taken *)
Lemma first_free_from_two vs s :
  first_free (S (S (List.length vs))) vs s 2 <> None.
Proof.
  intros H.
  assert (INCL : incl (map (fun k => s ++ itoa k) (seq 2 (S (S (List.length vs))))) (map v_name vs)).
  { intros x I. apply in_map_iff in I. destruct I as [k [<- I]]. apply in_seq in I.
    apply (first_free_none _ _ _ _ H). lia. }
  pose proof (NoDup_incl_length (candidates_nodup s 2 _) INCL) as L.
  rewrite !map_length, seq_length in L. lia.
Qed.

(* the numbering never runs out of fuel and -- since the repair of D22 -- never crashes *)
Theorem C19_numbering_total sc s :
  exists n sc', resolve_var_name_conflict sc s = Ok (s ++ itoa n, sc').
Proof.
  unfold resolve_var_name_conflict.
  destruct (first_free _ (sc_vars sc) s 1) as [[|[|k]]|] eqn:E.
  - eexists _, _. reflexivity.
  - set (vs1 := if has_var (sc_vars sc) s then _ else _).
    assert (LEN : List.length vs1 = List.length (sc_vars sc)).
    { unfold vs1. destruct (has_var (sc_vars sc) s); [apply rename_first_length|reflexivity]. }
    destruct (first_free _ vs1 s 2) as [n|] eqn:E2; [eexists _, _; reflexivity|].
    exfalso. rewrite <- LEN in E2. exact (first_free_from_two _ _ E2).
  - eexists _, _. reflexivity.
  - exfalso. exact (C19_numbering_terminates _ _ E).
Qed.

Corollary C19_numbering_never_out_of_fuel sc s :
  resolve_var_name_conflict sc s <> OutOfFuel "resolveVarNameConflict" /\
  forall site, resolve_var_name_conflict sc s <> Crash site.
Proof.
  destruct (C19_numbering_total sc s) as (n & sc' & E). rewrite E. split; [discriminate|intros; discriminate].
Qed.

(* ---- alias resolution: the repaired case (D12a) and the divergence that remains (D12) ---- *)

(* the standard package sync (always imported when a mock has a method) against a user
   package that is also called sync: before the repair resolveImportConflict called itself
   for ever (the name "sync" never changes and was held by the other package of the call) *)
Example C19_alias_sync_fixed :
  add_import (mkRcfg "example.com/x/src" []) [mkImp "example.com/x/sync" "sync" ""] (mkPkg "sync" "sync")
  = AddOk [mkImp "example.com/x/sync" "sync" "xsync"; mkImp "sync" "sync" "sync"] "sync".
Proof. vm_compute. reflexivity. Qed.

(* what remains: two import paths that the replacer maps to the same components
   (go-yaml / yaml, my_pkg / mypkg ...) have the same unique name at EVERY level, and the
   first test of resolveImportConflict recurses for ever: a proof of non-termination *)
Definition yaml_witness : rstate :=
  mkRstate (mkImp "example.com/dep/yaml" "yaml" "") [mkImp "example.com/dep/go-yaml" "yaml" ""].

Lemma uniq_yaml lvl :
  unique_name "example.com/dep/yaml" lvl = unique_name "example.com/dep/go-yaml" lvl.
Proof. destruct lvl as [|[|[|l]]]; reflexivity. Qed.

Theorem C19_alias_diverges_refuted :
  forall fuel lvl, resolve fuel yaml_witness PNew (PIn "example.com/dep/go-yaml") lvl = None.
Proof.
  induction fuel as [|fuel IH]; intros lvl; [reflexivity|].
  cbn [resolve]. cbn [ref_path yaml_witness rs_new rs_map i_path].
  rewrite uniq_yaml, String.eqb_refl. apply IH.
Qed.

Example C19_alias_diverges_at_add_import :
  add_import (mkRcfg "example.com/x/src" []) [mkImp "example.com/dep/go-yaml" "yaml" ""]
             (mkPkg "example.com/dep/yaml" "yaml")
  = AddDiverges.
Proof. vm_compute. reflexivity. Qed.

(* the same family without the replacer: a directory whose name is the concatenation of another
   path's last two components (found by the exhaustive L1 triples): one/client wants the alias
   oneclient, which package a/oneclient holds, and from level 2 on the two paths have the same
   unique name *)
Example C19_alias_diverges_concatenation :
  add_import (mkRcfg "example.com/x/src" [])
             [mkImp "a/one/client" "client" ""; mkImp "a/oneclient" "oneclient" ""]
             (mkPkg "a/two/client" "client")
  = AddDiverges.
Proof. vm_compute. reflexivity. Qed.

(* ---- errors name the offending type ---- *)

Theorem C19_error_not_found i cfg r np rest name mock :
  parse_interface_name np = (name, mock) ->
  (assoc name (in_lookup i) = None \/ assoc name (in_lookup i) = Some LNotFound) ->
  collect i cfg r (np :: rest) = Err ("interface not found: " ++ name).
Proof. intros P [A|A]; cbn [collect]; rewrite P, A; reflexivity. Qed.

Theorem C19_error_not_interface i cfg r np rest name mock printed :
  parse_interface_name np = (name, mock) ->
  assoc name (in_lookup i) = Some (LNotIface printed) ->
  collect i cfg r (np :: rest) = Err (name ++ " (" ++ printed ++ ") is not an interface").
Proof. intros P A. cbn [collect]. rewrite P, A. reflexivity. Qed.

Theorem C19_error_no_arguments i c : mock_run i c [] = Err "must specify one interface".
Proof. reflexivity. Qed.

(* ---- no index-out-of-range in the name generator ---- *)

(* a type-derived name is never empty, so the s[:1] in capitalise/deCapitalise is in range
   (basic types have non-empty names) *)
Fixpoint basic_names_ok (t : ty) : bool :=
  match t with
  | TBasic n _ _ => negb (String.eqb n "")
  | TPtr t | TSlice t | TArray _ t | TChan _ t => basic_names_ok t
  | TMap k v => basic_names_ok k && basic_names_ok v
  | _ => true
  end.

Lemma app_nonempty_r a b : b <> "" -> a ++ b <> "".
Proof. destruct a; simpl; [auto|discriminate]. Qed.
Lemma app_nonempty_l a b : a <> "" -> a ++ b <> "".
Proof. destruct a; simpl; [congruence|discriminate]. Qed.

Theorem C19_no_slice_panic t : basic_names_ok t = true -> var_name_for_type t <> "".
Proof.
  induction t; cbn [var_name_for_type basic_names_ok]; intros OK; try discriminate;
    try (intros H; apply append_eq_nil in H; destruct H as [_ H]; discriminate H).
  - destruct k; discriminate.
  - destruct (String.eqb name "error"); [discriminate|].
    destruct (String.eqb (decapitalise name) name) eqn:E.
    + apply app_nonempty_r. discriminate.
    + intros H. rewrite H in E. destruct name; simpl in *; discriminate.
  - auto.
Qed.

(* the variadic spelling drops the first two bytes of a slice type's string: always "[]" *)
Theorem C19_variadic_slice_in_range q t : exists rest, type_string q (TSlice t) = "[]" ++ rest.
Proof. exists (type_string q t). reflexivity. Qed.

(* ---- the whole run: every outcome is output, a diagnostic, or the one refuted family that is
   left (divergence of resolveImportConflict); since the repair of D16 no outcome depends on
   Go's map iteration order; the generator core has no crash site left and no other unbounded
   loop ---- *)
Definition settled {A} (x : outcome A) : Prop :=
  match x with
  | Crash _ => False
  | OutOfFuel site => site = "resolveImportConflict"
  | OrderDependent _ => False
  | Ok _ | Err _ => True
  end.

Lemma settled_bind {A B} (x : outcome A) (f : A -> outcome B) :
  settled x -> (forall a, x = Ok a -> settled (f a)) -> settled (bind x f).
Proof. destruct x; cbn [bind settled]; intros S F; auto. Qed.

Lemma populate_settled cfg : forall ps r imps, settled (populate cfg r ps imps).
Proof.
  induction ps as [|p ps IH]; intros r imps; cbn [populate]; [exact I|].
  destruct (add_import cfg r p); [apply IH|apply IH|reflexivity].
Qed.

Lemma resolve_var_name_conflict_settled sc s : settled (resolve_var_name_conflict sc s).
Proof. destruct (C19_numbering_total sc s) as (n & sc' & E). rewrite E. exact I. Qed.

Lemma add_var_settled cfg r sc n t suffix : settled (add_var cfg r sc n t suffix).
Proof.
  unfold add_var. apply settled_bind; [apply populate_settled|]. intros [r1 imps] _.
  apply settled_bind.
  - destruct (_ || _); [apply resolve_var_name_conflict_settled|exact I].
  - intros [n2 sc2] _. exact I.
Qed.

Lemma add_vars_settled cfg : forall vs r sc suffix, settled (add_vars cfg r sc vs suffix).
Proof.
  induction vs as [|[n t] vs IH]; intros r sc suffix; cbn [add_vars]; [exact I|].
  apply settled_bind; [apply add_var_settled|]. intros [[r1 sc1] k] _. apply IH.
Qed.

Lemma method_data_settled cfg r m : settled (method_data cfg r m).
Proof.
  unfold method_data. apply settled_bind; [apply add_vars_settled|]. intros [r1 sc1] _.
  apply settled_bind; [apply add_vars_settled|]. intros [r2 sc2] _. exact I.
Qed.

Lemma methods_data_settled cfg : forall ms r, settled (methods_data cfg r ms).
Proof.
  induction ms as [|m ms IH]; intros r; cbn [methods_data]; [exact I|].
  apply settled_bind; [apply method_data_settled|]. intros [r1 rm] _.
  apply settled_bind; [apply IH|]. intros [r2 rms] _. exact I.
Qed.

Lemma collect_settled i cfg : forall args r, settled (collect i cfg r args).
Proof.
  induction args as [|np args IH]; intros r; cbn [collect]; [exact I|].
  destruct (parse_interface_name np) as [name mock_name].
  destruct (assoc name (in_lookup i)) as [[| |ok is_type tps ms]|]; try exact I.
  apply settled_bind; [apply methods_data_settled|]. intros [r1 rms] _.
  apply settled_bind; [unfold type_params; apply add_vars_settled|]. intros [r2 tsc] _.
  apply settled_bind; [apply IH|]. intros [r3 rks] _. exact I.
Qed.

Theorem C19_run_settled i c args : settled (mock_run i c args).
Proof.
  unfold mock_run. destruct args as [|a0 args]; [exact I|]. cbv zeta.
  apply settled_bind; [apply collect_settled|]. intros [r1 rks] _.
  apply settled_bind.
  - destruct (existsb _ rks); [|exact I]. destruct (add_import _ r1 sync_pkg); try exact I. reflexivity.
  - intros r2 _. apply settled_bind.
    + destruct (String.eqb _ _); [exact I|]. destruct (c_skip_ensure c); [exact I|].
      destruct (add_import _ r2 (in_src i)); try exact I. reflexivity.
    + intros [r3 srcq] _. exact I.
Qed.

Corollary C19_run_never_crashes i c args site : mock_run i c args <> Crash site.
Proof. intros E. pose proof (C19_run_settled i c args) as S. rewrite E in S. exact S. Qed.

(* ---- the fuel of resolveImportConflict is not part of the result: once it suffices, more
   of it changes nothing (so a run that ends within [resolve_fuel] is what the unbounded Go
   recursion computes) ---- *)
Lemma one_step_mono (rec1 rec2 : rstate -> pref -> pref -> nat -> option rstate) lvl o p other y :
  (forall st a b l x, rec1 st a b l = Some x -> rec2 st a b l = Some x) ->
  one_step rec1 lvl o p other = Some y -> one_step rec2 lvl o p other = Some y.
Proof.
  intros M. destruct o as [st0|]; [|discriminate]. unfold one_step.
  destruct (search_import (rs_map st0) _) as [c|]; [|exact (fun H => H)].
  destruct (_ || _); [exact (fun H => H)|]. apply M.
Qed.

Lemma resolve_mono : forall f st a b lvl x,
  resolve f st a b lvl = Some x -> forall g, f <= g -> resolve g st a b lvl = Some x.
Proof.
  induction f as [|f IH]; intros st a b lvl x E g LE; [discriminate E|].
  destruct g as [|g]; [lia|]. assert (LE' : f <= g) by lia.
  rewrite resolve_unfold in *.
  destruct (String.eqb (unique_name (ref_path st a) lvl) (unique_name (ref_path st b) lvl)).
  - apply IH; assumption.
  - assert (M : forall st a b l x, resolve f st a b l = Some x -> resolve g st a b l = Some x).
    { intros; eapply IH; eassumption. }
    destruct (one_step (resolve f) lvl (Some st) a b) as [st1|] eqn:E1; [|discriminate E].
    rewrite (one_step_mono _ _ _ _ _ _ _ M E1). exact (one_step_mono _ _ _ _ _ _ _ M E).
Qed.

Theorem C19_resolve_fuel_irrelevant st a b lvl x :
  resolve resolve_fuel st a b lvl = Some x -> forall g, resolve_fuel <= g -> resolve g st a b lvl = Some x.
Proof. apply resolve_mono. Qed.
