(* Gen.v -- model of pkg/moq/moq.go (Mocker.Mock, methodData, typeParams,
   explicitConstraintType, mockPkgName, parseInterfaceName) and of
   internal/template/template_data.go (ArgList, ArgCallList, ReturnArgTypeList,
   ReturnArgNameList, MethodArg, CallName, MocksSomeMethod).  Definitions only. *)
From Moq Require Import Strs GoTypes TypeString VarName Registry Scope.

(* ---------- input: what the unverified front end (go/packages, go/types) delivers ---------- *)

Record tparam := mkTparam {
  tp_name : string;
  tp_constraint : ty;               (* tp.Constraint() *)
  tp_under_embeds : list ty;        (* embedded types of the constraint's underlying interface *)
  tp_plain_comparable : bool }.     (* its type set is comparable and it has no methods
                                       (types.Interface.IsComparable, NumMethods) *)

Record method := mkMethod { m_name : string; m_sig : sig }.

Inductive lookup_res :=
| LNotFound
| LNotIface (printed : string)      (* obj.Type().String() *)
| LIface (method_set : bool)          (* types.Interface.IsMethodSet(): no type-set terms *)
         (is_type : bool)             (* the object is a type name (not a var/const of interface type) *)
         (tparams : list tparam) (methods : list method).

Record input := mkInput {
  in_src : pkg;                             (* the loaded source package *)
  in_specs : list (string * string);        (* import specs (path, name) of all files, in order *)
  in_dir_oracle : option string;            (* name of the package found in the directory called
                                               like the -pkg value (relative to the cwd), if any *)
  in_lookup : list (string * lookup_res) }.

Record config := mkConfig {
  c_pkg_name : string;
  c_stub : bool;
  c_skip_ensure : bool;
  c_with_resets : bool }.

(* ---------- output: the template data, structured ---------- *)

Record param_d := mkParamD {
  pd_name : string;
  pd_type : string;          (* Var.TypeString() against the final registry *)
  pd_ty : ty;
  pd_variadic : bool }.

Record tparam_d := mkTparamD {
  td_name : string;
  td_type : string;                 (* the constraint, rendered through the variable *)
  td_constraint : option string }.  (* explicitConstraintType(...).String(), if any *)

Record method_d := mkMethodD {
  md_name : string;
  md_params : list param_d;
  md_returns : list param_d }.

Record mock_d := mkMockD {
  mk_iface : string;
  mk_name : string;
  mk_tparams : list tparam_d;
  mk_methods : list method_d }.

Record data := mkData {
  d_pkg_name : string;
  d_src_qualifier : string;
  d_imports : list imp;
  d_mocks : list mock_d;
  d_stub : bool;
  d_skip_ensure : bool;
  d_with_resets : bool }.

(* ---------- template_data.go ---------- *)

Definition method_arg (p : param_d) : string :=
  if pd_variadic p then pd_name p ++ " ..." ++ drop_str 2 (pd_type p)
  else pd_name p ++ " " ++ pd_type p.
Definition call_name (p : param_d) : string :=
  if pd_variadic p then pd_name p ++ "..." else pd_name p.
Definition arg_list (m : method_d) : string := join ", " (map method_arg (md_params m)).
Definition arg_call_list (m : method_d) : string := join ", " (map call_name (md_params m)).
Definition return_arg_type_list (m : method_d) : string :=
  let s := join ", " (map pd_type (md_returns m)) in
  match md_returns m with
  | _ :: _ :: _ => "(" ++ s ++ ")"
  | _ => s
  end.
Definition return_arg_name_list (m : method_d) : string :=
  join ", " (map pd_name (md_returns m)).
Definition mocks_some_method (ms : list mock_d) : bool :=
  existsb (fun m => match mk_methods m with [] => false | _ => true end) ms.

(* ---------- moq.go ---------- *)

Definition parse_interface_name (np : string) : string * string :=
  match cut_first ":"%char np "" with
  | Some (a, b) => (a, b)
  | None => (np, np ++ "Mock")
  end.

Definition mock_pkg_name (i : input) (c : config) : string :=
  if String.eqb (c_pkg_name c) "" then p_name (in_src i) else c_pkg_name c.

(* explicitConstraintType: the first embedded element that is a basic type, or the
   first term of the first embedded union *)
Fixpoint explicit_constraint (embeds : list ty) : option ty :=
  match embeds with
  | [] => None
  | TBasic n k u :: _ => Some (TBasic n k u)
  | TUnion ((_, t) :: _) :: _ => Some t
  | TUnion [] :: _ => None   (* t.Term(0) on an empty union would panic; go/types never builds one *)
  | _ :: r => explicit_constraint r
  end.

(* ... and, since the repair of D9a, int when the constraint is comparable without methods *)
Definition explicit_constraint_tp (tp : tparam) : option ty :=
  match explicit_constraint (tp_under_embeds tp) with
  | Some t => Some t
  | None => if tp_plain_comparable tp then Some (TBasic "int" KInt false) else None
  end.

(* types.Type.String(): no qualifier function, i.e. full package paths *)
Definition type_string_full (t : ty) : string := type_string (fun p => p_path p) t.

(* variables are kept as (scope, index); their final names and type strings are read
   once the whole run is over, like the template does through the *Var pointers *)
Record raw_method := mkRawMethod {
  rm_name : string;
  rm_scope : scope;
  rm_nparams : nat;
  rm_variadic : bool }.
Record raw_mock := mkRawMock {
  rk_iface : string;
  rk_name : string;
  rk_tscope : scope;
  rk_tparams : list tparam;
  rk_methods : list raw_method }.

Fixpoint add_vars (cfg : rcfg) (r : registry) (sc : scope)
         (vs : list (string * ty)) (suffix : string) : outcome (registry * scope) :=
  match vs with
  | [] => Ok (r, sc)
  | (n, t) :: rest =>
    bind (add_var cfg r sc n t suffix) (fun '(r1, sc1, _) => add_vars cfg r1 sc1 rest suffix)
  end.

Definition method_data (cfg : rcfg) (r : registry) (m : method) : outcome (registry * raw_method) :=
  bind (add_vars cfg r empty_scope (s_params (m_sig m)) "") (fun '(r1, sc1) =>
  bind (add_vars cfg r1 sc1 (s_results (m_sig m)) "Out") (fun '(r2, sc2) =>
  Ok (r2, mkRawMethod (m_name m) sc2 (List.length (s_params (m_sig m))) (s_variadic (m_sig m))))).

Fixpoint methods_data (cfg : rcfg) (r : registry) (ms : list method)
  : outcome (registry * list raw_method) :=
  match ms with
  | [] => Ok (r, [])
  | m :: rest =>
    bind (method_data cfg r m) (fun '(r1, rm) =>
    bind (methods_data cfg r1 rest) (fun '(r2, rms) => Ok (r2, rm :: rms)))
  end.

Definition type_params (cfg : rcfg) (r : registry) (tps : list tparam) : outcome (registry * scope) :=
  add_vars cfg r empty_scope (map (fun tp => (tp_name tp, tp_constraint tp)) tps) "".

Fixpoint collect (i : input) (cfg : rcfg) (r : registry) (args : list string)
  : outcome (registry * list raw_mock) :=
  match args with
  | [] => Ok (r, [])
  | np :: rest =>
    let '(name, mock_name) := parse_interface_name np in
    match assoc name (in_lookup i) with
    | None | Some LNotFound => Err ("interface not found: " ++ name)
    | Some (LNotIface printed) => Err (name ++ " (" ++ printed ++ ") is not an interface")
    | Some (LIface _ _ tps ms) =>
      bind (methods_data cfg r ms) (fun '(r1, rms) =>
      bind (type_params cfg r1 tps) (fun '(r2, tsc) =>
      bind (collect i cfg r2 rest) (fun '(r3, rks) =>
      Ok (r3, mkRawMock name mock_name tsc tps rms :: rks))))
    end
  end.

Definition finish_param (cfg : rcfg) (rf : registry) (variadic : bool) (v : var) : param_d :=
  mkParamD (v_name v) (var_type_string cfg rf v) (v_ty v) variadic.

Fixpoint finish_params (cfg : rcfg) (rf : registry) (variadic : bool) (vs : list var) : list param_d :=
  match vs with
  | [] => []
  | [v] => [finish_param cfg rf variadic v]
  | v :: r => finish_param cfg rf false v :: finish_params cfg rf variadic r
  end.

Definition finish_method (cfg : rcfg) (rf : registry) (m : raw_method) : method_d :=
  let vs := sc_vars (rm_scope m) in
  mkMethodD (rm_name m)
            (finish_params cfg rf (rm_variadic m) (firstn (rm_nparams m) vs))
            (map (finish_param cfg rf false) (skipn (rm_nparams m) vs)).

Definition finish_tparams (cfg : rcfg) (rf : registry) (k : raw_mock) : list tparam_d :=
  map (fun '(v, tp) =>
         mkTparamD (v_name v) (var_type_string cfg rf v)
                   (option_map type_string_full (explicit_constraint_tp tp)))
      (combine (sc_vars (rk_tscope k)) (rk_tparams k)).

Definition finish_mock (cfg : rcfg) (rf : registry) (k : raw_mock) : mock_d :=
  mkMockD (rk_iface k) (rk_name k) (finish_tparams cfg rf k)
          (map (finish_method cfg rf) (rk_methods k)).

Definition sync_pkg : pkg := mkPkg "sync" "sync".

(* registry.findPkgPath / pkgInDir.  pkgInDir(pkgName, dir) loads [dir] and compares the
   name found there with [pkgName]; findPkgPath passes it (srcPkgPath, pkgInputVal), so
   an import PATH is compared with a package NAME (defect family D15). *)
Definition pkg_in_dir (oracle : option string) (pkg_name : string) : bool :=
  match oracle with
  | Some n => String.eqb n pkg_name || String.eqb (n ++ "_test") pkg_name
  | None => false
  end.
Definition find_pkg_path (oracle : option string) (pkg_flag src_path : string) : string :=
  if String.eqb pkg_flag "" then src_path
  else if pkg_in_dir oracle src_path then src_path
  else let sub := src_path ++ "/" ++ pkg_flag in
       if pkg_in_dir oracle sub then sub else "".

Definition rcfg_of (i : input) (c : config) : rcfg :=
  mkRcfg (find_pkg_path (in_dir_oracle i) (c_pkg_name c) (p_path (in_src i)))
         (parse_aliases (in_specs i) []).

(* Mocker.Mock up to and including data.Imports = m.registry.Imports() *)
Definition mock_run (i : input) (c : config) (args : list string) : outcome data :=
  match args with
  | [] => Err "must specify one interface"
  | _ =>
    let cfg := rcfg_of i c in
    bind (collect i cfg [] args) (fun '(r1, rks) =>
    let some_method :=
      existsb (fun k => match rk_methods k with [] => false | _ => true end) rks in
    bind (if some_method
          then match add_import cfg r1 sync_pkg with
               | AddSelf => Ok r1
               | AddOk r _ => Ok r
               | AddDiverges => OutOfFuel "resolveImportConflict"
               end
          else Ok r1) (fun r2 =>
    let pkgname := mock_pkg_name i c in
    bind (if String.eqb (p_name (in_src i)) pkgname then Ok (r2, "")
          else if c_skip_ensure c then Ok (r2, p_name (in_src i) ++ ".")
          else match add_import cfg r2 (in_src i) with
               | AddSelf => Ok (r2, ".")      (* nil *Package: Qualifier() = "" *)
               | AddOk r path =>
                 Ok (r, match find_path r path with Some im => qualifier im | None => "" end ++ ".")
               | AddDiverges => OutOfFuel "resolveImportConflict"
               end) (fun '(r3, srcq) =>
    Ok (mkData pkgname srcq (imports_sorted r3) (map (finish_mock cfg r3) rks)
               (c_stub c) (c_skip_ensure c) (c_with_resets c)))))
  end.
