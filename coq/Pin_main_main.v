(* Pin_main_main.v -- the model was written from exactly this source text (tie, see DESIGN 2.4). *)
From Moq Require Import Strs SkeletonPins.
From Moq.gen Require Import Skeletons.
Theorem pin_main_main : src_main_main = pinned_main_main. Proof. reflexivity. Qed.
