(* P_C09_whole.v -- C09 for the whole run.  Statements only; proofs in C09Run_Proofs.v. *)
From Moq Require Import Strs GoTypes TypeString VarName Registry Scope Gen WellScoped Imports_Proofs C09Run_Proofs.
Local Open Scope list_scope.

(* for every requested interface, in argument order: the mock has the interface's type parameters, in
   order, each printed under the interface's own constraint type with the qualifiers of the final
   import block (packages of the constraint imported or the destination), and with the self-check
   type argument that the constraint determines *)
Theorem C09_whole_run_tparams i c args d :
  mock_run i c args = Ok d ->
  Forall2 (fun a k => exists tps, tparams_of i a = Some tps /\
             Forall2 (fun tp td =>
                        td_type td = type_string (final_qual (rcfg_of i c) (d_imports d)) (tp_constraint tp) /\
                        td_constraint td = option_map type_string_full (explicit_constraint_tp tp) /\
                        covered (rcfg_of i c) (d_imports d) (tp_constraint tp))
                     tps (mk_tparams k))
          args (d_mocks d).
Proof. exact (run_tparams i c args d). Qed.

(* in particular: as many type parameters as the interface *)
Corollary C09_whole_run_count i c args d :
  mock_run i c args = Ok d ->
  Forall2 (fun a k => exists tps, tparams_of i a = Some tps /\ List.length (mk_tparams k) = List.length tps)
          args (d_mocks d).
Proof.
  intros E. pose proof (run_tparams _ _ _ _ E) as H.
  clear E. induction H as [|a k args' ks [tps [T F]] H IH]; [constructor|]. constructor; [|exact IH].
  exists tps. split; [exact T|]. clear T. induction F; cbn [List.length]; [reflexivity|f_equal; assumption].
Qed.

(* the premise holds on a generic interface whose constraint comes from a re-aliased package *)
Example C09_whole_run_example :
  let src := mkPkg "example.com/m/store" "store" in
  let a := mkPkg "example.com/m/one/codec" "codec" in
  let b := mkPkg "example.com/m/two/codec" "codec" in
  let i := mkInput src [] None
     [("Repo", LIface true true [mkTparam "K" (TNamed (Some a) "Key" []) [] false]
        [mkMethod "Get" (mkSig [("k", TParam "K")] false [("", TNamed (Some b) "T" [])])])] in
  match mock_run i (mkConfig "" false false false) ["Repo"] with
  | Ok d => map (fun k => map (fun td => (td_name td, td_type td)) (mk_tparams k)) (d_mocks d)
            = [[("K", "onecodec.Key")]]%string
  | _ => False
  end.
Proof. vm_compute. reflexivity. Qed.
