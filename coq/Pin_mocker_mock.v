(* Pin_mocker_mock.v -- the model was written from exactly this source text (tie, see DESIGN 2.4). *)
From Moq Require Import Strs SkeletonPins.
From Moq.gen Require Import Skeletons.
Theorem pin_mocker_mock : src_mocker_mock = pinned_mocker_mock. Proof. reflexivity. Qed.
