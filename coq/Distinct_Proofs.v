(* Distinct_Proofs.v -- C11: "packages sharing a name get distinct aliases".  AddImport keeps the
   qualifiers of the import map pairwise distinct when it meets no conflict, and when the
   conflict is resolved DIRECTLY: at the first level at which the two packages' unique names
   differ, neither name is held by a third import.  (The complement is the refuted part:
   D13 -- search sees only the map -- and the divergence family.)  [direct] is a computed
   boolean: the check reports how many of the run's additions it covers. *)
From Moq Require Import Strs Strs_Proofs GoTypes TypeString VarName Registry Registry_Proofs.
From Coq Require Import Lia.
Local Open Scope list_scope.

Definition QDistinct (r : registry) : Prop := NoDup (map qualifier r).

Lemma search_none_notin r q : search_import r q = None -> ~ In q (map qualifier r).
Proof.
  unfold search_import, matches. intros S I. apply in_map_iff in I. destruct I as [i [Q I]].
  assert (In i (filter (fun i => String.eqb (qualifier i) q) r)).
  { apply filter_In. split; [exact I|]. rewrite Q. apply String.eqb_refl. }
  destruct (filter _ r); [contradiction|discriminate].
Qed.

Lemma search_some_in r q c : search_import r q = Some c -> In c r /\ qualifier c = q.
Proof.
  unfold search_import, matches. destruct (filter _ r) as [|x l] eqn:F; [discriminate|].
  intros E. inversion E; subst x.
  assert (I : In c (filter (fun i => String.eqb (qualifier i) q) r)) by (rewrite F; left; reflexivity).
  apply filter_In in I. destruct I as [I Q]. apply String.eqb_eq in Q. auto.
Qed.

(* no conflict: the new package joins under its own qualifier *)
Theorem add_import_distinct_no_conflict cfg r p r' path :
  QDistinct r -> find_path r (strip_vendor (p_path p)) = None ->
  search_import r (qualifier (mkImp (strip_vendor (p_path p)) (p_name p)
     (match assoc (strip_vendor (p_path p)) (src_aliases cfg) with Some a => a | None => ""%string end))) = None ->
  add_import cfg r p = AddOk r' path -> QDistinct r'.
Proof.
  intros D F S. unfold add_import.
  destruct (String.eqb _ (moq_pkg_path cfg)); [discriminate|]. rewrite F, S.
  intros E. inversion E; subst. unfold QDistinct. rewrite map_app. cbn [map].
  apply nodup_snoc; [exact D|apply search_none_notin; exact S].
Qed.

(* a package that is already registered (or is the destination) changes nothing *)
Theorem add_import_distinct_known cfg r p r' path i :
  QDistinct r -> find_path r (strip_vendor (p_path p)) = Some i ->
  add_import cfg r p = AddOk r' path -> r' = r.
Proof.
  intros D F. unfold add_import. destruct (String.eqb _ (moq_pkg_path cfg)); [discriminate|]. rewrite F.
  intros E. inversion E. reflexivity.
Qed.

(* ---------- direct resolution ---------- *)

Lemma resolve_skip st a b : forall l k f,
  forallb (fun j => String.eqb (unique_name (ref_path st a) j) (unique_name (ref_path st b) j)) (seq k l) = true ->
  resolve (l + f) st a b k = resolve f st a b (k + l).
Proof.
  induction l as [|l IH]; intros k f H.
  - rewrite Nat.add_0_r. reflexivity.
  - cbn [seq forallb] in H. apply andb_prop in H. destruct H as [H0 H1].
    cbn [Nat.add]. rewrite resolve_unfold, H0. rewrite (IH (S k) f H1). f_equal. lia.
Qed.

Lemma qualifier_alias path name alias : alias <> ""%string -> qualifier (mkImp path name alias) = alias.
Proof. intros N. unfold qualifier. cbn [i_alias]. destruct (String.eqb_spec alias ""); [contradiction|reflexivity]. Qed.

Lemma set_alias_qualifiers r path alias :
  alias <> ""%string ->
  map qualifier (set_alias r path alias) =
  map (fun i => if String.eqb (i_path i) path then alias else qualifier i) r.
Proof.
  intros N. unfold set_alias. rewrite map_map. apply map_ext. intros i.
  destruct (String.eqb (i_path i) path); [apply qualifier_alias; exact N|reflexivity].
Qed.

(* re-aliasing the one import of a path to a name no other import holds keeps qualifiers distinct *)
Lemma set_alias_distinct r c alias :
  NoDup (map i_path r) -> QDistinct r -> In c r -> alias <> ""%string ->
  (forall x, In x r -> qualifier x = alias -> i_path x = i_path c) ->
  QDistinct (set_alias r (i_path c) alias).
Proof.
  unfold QDistinct. intros NP ND IC NE ONLY. rewrite (set_alias_qualifiers _ _ _ NE).
  induction r as [|i r IH]; [constructor|].
  cbn [map] in *. inversion NP as [|? ? NIp NPr]; subst. inversion ND as [|? ? NIq NDr]; subst.
  destruct (String.eqb_spec (i_path i) (i_path c)) as [EQ|NEQ].
  - (* i is the import of that path; no other element of r has this path *)
    constructor.
    + intros I. apply in_map_iff in I. destruct I as [x [Q Ix]].
      destruct (String.eqb_spec (i_path x) (i_path c)) as [EX|NX].
      * apply NIp. rewrite EQ, <- EX. apply in_map. exact Ix.
      * apply NX. apply ONLY; [right; exact Ix|exact Q].
    + assert (SAME : map (fun i0 => if String.eqb (i_path i0) (i_path c) then alias else qualifier i0) r = map qualifier r).
      { apply map_ext_in. intros x Ix. destruct (String.eqb_spec (i_path x) (i_path c)) as [EX|NX]; [|reflexivity].
        exfalso. apply NIp. rewrite EQ, <- EX. apply in_map. exact Ix. }
      rewrite SAME. exact NDr.
  - destruct IC as [<-|IC]; [contradiction NEQ; reflexivity|].
    constructor.
    + intros I. apply in_map_iff in I. destruct I as [x [Q Ix]].
      destruct (String.eqb_spec (i_path x) (i_path c)) as [EX|NX].
      * (* qualifier i = alias: then i would be on c's path *)
        apply NEQ. apply ONLY; [left; reflexivity|symmetry; exact Q].
      * apply NIq. rewrite <- Q. apply in_map. exact Ix.
    + apply IH; try assumption. intros x Ix Q. apply ONLY; [right; exact Ix|exact Q].
Qed.

Lemma nodup_map_inj {A B} (f : A -> B) (l : list A) a b :
  NoDup (map f l) -> In a l -> In b l -> f a = f b -> a = b.
Proof.
  induction l as [|x l IH]; [intros _ []|]. cbn [map]. intros ND Ia Ib E.
  inversion ND as [|? ? NI NDr]; subst.
  destruct Ia as [<-|Ia], Ib as [<-|Ib]; [reflexivity| | |apply IH; assumption].
  - exfalso. apply NI. rewrite E. apply in_map. exact Ib.
  - exfalso. apply NI. rewrite <- E. apply in_map. exact Ia.
Qed.

Lemma held_only_spec r q c :
  QDistinct r -> held_only_by r q c = true -> forall x, In x r -> qualifier x = q -> i_path x = i_path c.
Proof.
  unfold held_only_by. intros D H x Ix Q. destruct (search_import r q) as [y|] eqn:S.
  - apply String.eqb_eq in H. destruct (search_some_in _ _ _ S) as [Iy Qy].
    rewrite (nodup_map_inj qualifier r x y D Ix Iy); [exact H|congruence].
  - exfalso. apply (search_none_notin _ _ S). rewrite <- Q. apply in_map. exact Ix.
Qed.

Lemma one_step_assign rec lvl st p other :
  (match search_import (rs_map st) (unique_name (ref_path st p) lvl) with
   | None => true
   | Some x => ref_eqb (PIn (i_path x)) p || ref_eqb (PIn (i_path x)) other
   end = true) ->
  one_step rec lvl (Some st) p other = Some (assign st p (unique_name (ref_path st p) lvl)).
Proof.
  unfold one_step. destruct (search_import (rs_map st) _) as [x|]; [|reflexivity].
  intros H. rewrite H. reflexivity.
Qed.

(* a conflict resolved directly: both packages get their unique name of the first level that
   tells them apart, and the qualifiers of the map stay pairwise distinct *)
Theorem add_import_distinct_direct cfg r p c l r' path :
  let i := mkImp (strip_vendor (p_path p)) (p_name p)
                 (match assoc (strip_vendor (p_path p)) (src_aliases cfg) with Some a => a | None => ""%string end) in
  NoDup (map i_path r) -> QDistinct r ->
  find_path r (i_path i) = None ->
  search_import r (qualifier i) = Some c ->
  l < resolve_fuel -> direct r i c l = true ->
  add_import cfg r p = AddOk r' path ->
  r' = set_alias r (i_path c) (un c l) ++ [mkImp (i_path i) (i_name i) (un i l)] /\ QDistinct r'.
Proof.
  intros i NP D F S L DIR. unfold add_import.
  destruct (String.eqb _ (moq_pkg_path cfg)); [discriminate|].
  pose proof F as F'. unfold i in F'. cbn [i_path] in F'. rewrite F'. fold i. rewrite S.
  unfold direct in DIR. repeat (apply andb_prop in DIR; destruct DIR as [DIR ?]).
  rename H into HB, H0 into HA, H1 into NEB, H2 into NEA, H3 into DIFF.
  apply negb_true_iff in DIFF, NEA, NEB.
  apply String.eqb_neq in NEA, NEB.
  set (st := mkRstate i r).
  assert (SKIP : resolve resolve_fuel st PNew (PIn (i_path c)) 0 =
                 resolve (resolve_fuel - l) st PNew (PIn (i_path c)) l).
  { replace resolve_fuel with (l + (resolve_fuel - l)) at 1 by lia.
    rewrite (resolve_skip st PNew (PIn (i_path c)) l 0 (resolve_fuel - l)); [reflexivity|exact DIR]. }
  rewrite SKIP. destruct (resolve_fuel - l) as [|f] eqn:EF; [lia|].
  rewrite resolve_unfold. cbn [ref_path st rs_new]. fold (un i l). fold (un c l). rewrite DIFF.
  (* the new package *)
  rewrite (one_step_assign (resolve f) l st PNew (PIn (i_path c))).
  2:{ cbn [ref_path st rs_new rs_map]. fold (un i l). unfold held_only_by in HA.
      destruct (search_import r (un i l)) as [x|]; [|reflexivity]. cbn [ref_eqb]. exact HA. }
  (* the package that held the name *)
  cbn [ref_path st rs_new]. fold (un i l).
  set (st1 := assign st PNew (un i l)).
  rewrite (one_step_assign (resolve f) l st1 (PIn (i_path c)) PNew).
  2:{ cbn [ref_path st1 st assign rs_map]. fold (un c l). unfold held_only_by in HB.
      destruct (search_import r (un c l)) as [x|]; [|reflexivity]. cbn [ref_eqb]. rewrite HB. reflexivity. }
  cbn [ref_path st1 st assign rs_map rs_new i_path i_name]. fold (un c l).
  intros E. inversion E; subst r'. split; [reflexivity|].
  destruct (search_some_in _ _ _ S) as [IC _].
  unfold QDistinct. rewrite map_app. cbn [map]. rewrite (qualifier_alias _ _ _ NEA).
  apply nodup_snoc.
  - apply set_alias_distinct; try assumption. apply held_only_spec; assumption.
  - rewrite (set_alias_qualifiers _ _ _ NEB). intros I. apply in_map_iff in I. destruct I as [x [Q Ix]].
    destruct (String.eqb_spec (i_path x) (i_path c)) as [EX|NX].
    + apply String.eqb_neq in DIFF. apply DIFF. symmetry. exact Q.
    + apply NX. apply (held_only_spec r (un i l) c D HA x Ix Q).
Qed.

(* the premises are met by the everyday case: two packages called client *)
Example direct_example :
  let r := [mkImp "a/one/client" "client" ""] in
  let i := mkImp "a/two/client" "client" "" in
  direct r i (mkImp "a/one/client" "client" "") 1 = true /\
  add_import (mkRcfg "x/src" []) r (mkPkg "a/two/client" "client") =
  AddOk [mkImp "a/one/client" "client" "oneclient"; mkImp "a/two/client" "client" "twoclient"] "a/two/client".
Proof. vm_compute. split; reflexivity. Qed.

(* ---------- one statement for the three classes ---------- *)

Lemma first_diff_spec i c : forall fuel l k,
  first_diff i c l fuel = Some k ->
  l <= k /\ k < l + fuel /\
  forallb (fun j => String.eqb (un i j) (un c j)) (seq l (k - l)) = true /\
  String.eqb (un i k) (un c k) = false.
Proof.
  induction fuel as [|f IH]; intros l k; [discriminate|]. cbn [first_diff].
  destruct (String.eqb (un i l) (un c l)) eqn:E.
  - intros H. destruct (IH _ _ H) as [A [B [C D]]]. split; [lia|]. split; [lia|]. split; [|exact D].
    replace (k - l) with (S (k - S l)) by lia. cbn [seq forallb]. rewrite E. exact C.
  - intros H. inversion H; subst. split; [lia|]. split; [lia|]. rewrite Nat.sub_diag. split; [reflexivity|exact E].
Qed.

Definition RD (r : registry) : Prop := NoDup (map i_path r) /\ QDistinct r.

(* every addition that the model classifies as known, conflict-free or directly resolved keeps
   both the paths and the qualifiers of the import map pairwise distinct *)
Theorem add_import_distinct_step cfg r p r' path :
  RD r -> classify_add cfg r p < 3 -> add_import cfg r p = AddOk r' path -> RD r'.
Proof.
  intros [NP D] CL A.
  assert (NP' : NoDup (map i_path r')).
  { destruct (add_import_paths _ _ _ _ _ A) as [_ [_ [[E _]|[E NI]]]]; rewrite E; [exact NP|].
    apply nodup_snoc; assumption. }
  split; [exact NP'|].
  unfold classify_add in CL. pose proof A as A0. unfold add_import in A.
  destruct (String.eqb (strip_vendor (p_path p)) (moq_pkg_path cfg)); [discriminate|].
  destruct (find_path r (strip_vendor (p_path p))) as [known|] eqn:F.
  - inversion A; subst. exact D.
  - set (i := mkImp (strip_vendor (p_path p)) (p_name p)
                    (match assoc (strip_vendor (p_path p)) (src_aliases cfg) with Some a => a | None => ""%string end)) in *.
    destruct (search_import r (qualifier i)) as [c|] eqn:S.
    + destruct (first_diff i c 0 16) as [l|] eqn:FD; [|lia].
      destruct (direct r i c l) eqn:DIR; [|lia].
      destruct (first_diff_spec _ _ _ _ _ FD) as [_ [LT _]].
      assert (L : l < resolve_fuel) by (unfold resolve_fuel; lia).
      destruct (add_import_distinct_direct cfg r p c l r' path NP D F S L DIR A0) as [_ Q]. exact Q.
    + eapply add_import_distinct_no_conflict; [exact D|exact F|exact S|exact A0].
Qed.
