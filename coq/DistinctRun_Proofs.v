(* DistinctRun_Proofs.v -- C11 for the whole run: if every AddImport of the run is of a proved class
   (Benign.benign_run, computed), the qualifiers of the final import block are pairwise distinct:
   the conjunct imports_distinct of WellScoped is TRUE, not just evaluated. *)
From Moq Require Import Strs Strs_Proofs GoTypes TypeString VarName Registry Scope Gen Registry_Proofs
     Distinct_Proofs Benign WellScoped.
From Coq Require Import Lia Permutation.
Local Open Scope list_scope.

Lemma rd_nil : RD [].
Proof. split; constructor. Qed.

Lemma after_add_rd cfg r p : RD r -> Nat.ltb (classify_add cfg r p) 3 = true -> RD (after_add cfg r p).
Proof.
  intros R C. apply Nat.ltb_lt in C. unfold after_add.
  destruct (add_import cfg r p) as [|r' path|] eqn:A; try exact R.
  eapply add_import_distinct_step; eassumption.
Qed.

Lemma populate_rd cfg ps : forall r imps r' imps',
  populate cfg r ps imps = Ok (r', imps') -> benign_pkgs cfg r ps = true -> RD r -> RD r'.
Proof.
  induction ps as [|p ps IH]; intros r imps r' imps'; cbn [populate benign_pkgs].
  - intros E _ R. inversion E; subst. exact R.
  - intros E B R. apply andb_prop in B. destruct B as [B1 B2].
    pose proof (after_add_rd cfg r p R B1) as R1. unfold after_add in R1, B2.
    destruct (add_import cfg r p) as [|r1 path|] eqn:A; try discriminate.
    + eapply IH; eassumption.
    + eapply IH; eassumption.
Qed.

Lemma add_var_rd cfg r sc name t suffix r' sc' idx :
  add_var cfg r sc name t suffix = Ok (r', sc', idx) -> benign_pkgs cfg r (refs t) = true -> RD r -> RD r'.
Proof.
  unfold add_var. destruct (populate cfg r (refs t) []) as [[r1 imps]| | | |] eqn:P; try discriminate.
  cbn [bind].
  match goal with |- bind ?x _ = _ -> _ => destruct x as [[n2 sc2]| | | |]; try discriminate end.
  cbn [bind]. intros E B R. inversion E; subst. eapply populate_rd; eassumption.
Qed.

Lemma add_vars_rd cfg suffix vs : forall r sc r' sc',
  add_vars cfg r sc vs suffix = Ok (r', sc') -> benign_vars cfg r sc vs suffix = true -> RD r -> RD r'.
Proof.
  induction vs as [|[n t] vs IH]; intros r sc r' sc'; cbn [add_vars benign_vars].
  - intros E _ R. inversion E; subst. exact R.
  - destruct (add_var cfg r sc n t suffix) as [[[r1 sc1] idx]| | | |] eqn:A; try discriminate. cbn [bind].
    intros E B R. apply andb_prop in B. destruct B as [B1 B2].
    eapply IH; [exact E|exact B2|]. eapply add_var_rd; eassumption.
Qed.

Lemma method_data_rd cfg r m r' rm :
  method_data cfg r m = Ok (r', rm) -> benign_method cfg r m = true -> RD r -> RD r'.
Proof.
  unfold method_data, benign_method.
  destruct (add_vars cfg r empty_scope _ "") as [[r1 sc1]| | | |] eqn:A1; try discriminate. cbn [bind].
  destruct (add_vars cfg r1 sc1 _ "Out") as [[r2 sc2]| | | |] eqn:A2; try discriminate. cbn [bind].
  intros E B R. inversion E; subst. apply andb_prop in B. destruct B as [B1 B2].
  eapply add_vars_rd; [exact A2|exact B2|]. eapply add_vars_rd; eassumption.
Qed.

Lemma methods_data_rd cfg ms : forall r r' rms,
  methods_data cfg r ms = Ok (r', rms) -> benign_methods cfg r ms = true -> RD r -> RD r'.
Proof.
  induction ms as [|m ms IH]; intros r r' rms; cbn [methods_data benign_methods].
  - intros E _ R. inversion E; subst. exact R.
  - destruct (method_data cfg r m) as [[r1 rm]| | | |] eqn:M; try discriminate. cbn [bind].
    destruct (methods_data cfg r1 ms) as [[r2 rms2]| | | |] eqn:MS; try discriminate. cbn [bind].
    intros E B R. inversion E; subst. apply andb_prop in B. destruct B as [B1 B2].
    eapply IH; [exact MS|exact B2|]. eapply method_data_rd; eassumption.
Qed.

Lemma collect_rd i cfg args : forall r r' rks,
  collect i cfg r args = Ok (r', rks) -> benign_collect i cfg r args = true -> RD r -> RD r'.
Proof.
  induction args as [|np rest IH]; intros r r' rks; cbn [collect benign_collect].
  - intros E _ R. inversion E; subst. exact R.
  - destruct (parse_interface_name np) as [name mock_name]. cbn [fst].
    destruct (assoc name (in_lookup i)) as [[| |mset isty tps meths]|]; try discriminate.
    destruct (methods_data cfg r meths) as [[r1 rms]| | | |] eqn:M; try discriminate. cbn [bind].
    destruct (type_params cfg r1 tps) as [[r2 tsc]| | | |] eqn:T; try discriminate. cbn [bind].
    destruct (collect i cfg r2 rest) as [[r3 rks']| | | |] eqn:C; try discriminate. cbn [bind].
    intros E B R. inversion E; subst.
    apply andb_prop in B. destruct B as [B1 B2]. apply andb_prop in B2. destruct B2 as [B2 B3].
    eapply IH; [exact C|exact B3|]. unfold type_params in T.
    eapply add_vars_rd; [exact T|exact B2|]. eapply methods_data_rd; eassumption.
Qed.

Lemma NoDup_nodupb l : NoDup l -> nodupb l = true.
Proof.
  induction 1 as [|x l NI ND IH]; [reflexivity|]. cbn [nodupb]. rewrite IH, andb_true_r.
  apply negb_true_iff. destruct (str_mem x l) eqn:M; [|reflexivity].
  exfalso. apply NI. unfold str_mem in M. apply existsb_exists in M. destruct M as [y [I Q]].
  apply String.eqb_eq in Q. subst. exact I.
Qed.

(* THE WHOLE RUN: under the computed guard, no two imports of the output share a qualifier *)
Theorem run_qualifiers_distinct i c args d :
  mock_run i c args = Ok d -> benign_run i c args = true -> imports_distinct d = true.
Proof.
  unfold mock_run, benign_run. destruct args as [|a args]; [discriminate|].
  set (cfg := rcfg_of i c).
  destruct (collect i cfg [] (a :: args)) as [[r1 rks]| | | |] eqn:C; try discriminate. cbn [bind].
  intros E B. apply andb_prop in B. destruct B as [BC B]. apply andb_prop in B. destruct B as [BS BE].
  pose proof (collect_rd _ _ _ _ _ _ C BC rd_nil) as R1.
  set (sm := existsb (fun k => match rk_methods k with [] => false | _ => true end) rks) in *.
  assert (FIN : forall r3 srcq, RD r3 ->
            Ok (mkData (mock_pkg_name i c) srcq (imports_sorted r3) (map (finish_mock cfg r3) rks)
                       (c_stub c) (c_skip_ensure c) (c_with_resets c)) = Ok d -> imports_distinct d = true).
  { intros r3 srcq [_ Q] X. inversion X; subst. unfold imports_distinct. cbn [d_imports].
    apply NoDup_nodupb. eapply Permutation_NoDup; [|exact Q].
    apply Permutation_map. apply Permutation_sym. apply sort_by_perm. }
  assert (R2 : RD (if sm then after_add cfg r1 sync_pkg else r1)).
  { destruct sm; [apply after_add_rd; assumption|exact R1]. }
  assert (E2 : (if sm then match add_import cfg r1 sync_pkg with
                           | AddSelf => Ok r1 | AddOk r _ => Ok r
                           | AddDiverges => OutOfFuel "resolveImportConflict" end
                else Ok r1) = Ok (if sm then after_add cfg r1 sync_pkg else r1) \/
               (exists s, (if sm then match add_import cfg r1 sync_pkg with
                           | AddSelf => Ok r1 | AddOk r _ => Ok r
                           | AddDiverges => OutOfFuel "resolveImportConflict" end
                else Ok r1) = OutOfFuel s)).
  { destruct sm; [|left; reflexivity]. unfold after_add.
    destruct (add_import cfg r1 sync_pkg); [left; reflexivity|left; reflexivity|right; eexists; reflexivity]. }
  destruct E2 as [E2|[s E2]]; rewrite E2 in E; [|discriminate]. cbn [bind] in E.
  set (r2 := if sm then after_add cfg r1 sync_pkg else r1) in *.
  destruct (String.eqb (p_name (in_src i)) (mock_pkg_name i c)).
  - cbn [bind] in E. eapply FIN; eassumption.
  - destruct (c_skip_ensure c).
    + cbn [bind] in E. eapply FIN; eassumption.
    + pose proof (after_add_rd cfg r2 (in_src i) R2 BE) as R3. unfold after_add in R3.
      destruct (add_import cfg r2 (in_src i)) as [|r path|] eqn:A; try discriminate; cbn [bind] in E;
        eapply FIN; eassumption.
Qed.
