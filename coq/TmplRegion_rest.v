(* TmplRegion_rest.v -- closedness of one region of the template regenerated from /repo. *)
From Moq Require Import Strs TmplAst TmplClosed TmplRegions.
From Moq.gen Require Import TemplateSrc.

Theorem rest_region_closed : regions_found moq_template && closed (rest_region moq_template) = true.
Proof. vm_compute. reflexivity. Qed.
