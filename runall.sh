#!/bin/bash
# runs the quick check of every claimed property; prints one line per property
cd "$(dirname "$0")"
fail=0
for p in $(python3 -c "import json; print(' '.join(c['property_id'] for c in json.load(open('MANIFEST.json'))['checks']))"); do
  out=$(./check $p --tier ${1:-quick} 2>&1); rc=$?
  v=$(echo "$out" | grep -c '^VIOLATION')
  echo "$p rc=$rc violations=$v $(echo "$out" | grep '^VIOLATION' | head -1 | cut -c1-120)"
  [ $rc -ne 0 ] && fail=1
done
exit $fail
