"""Shared plumbing of the moq verification checks: building the tools from /repo's
working tree, regenerating the translated Coq files, building the Coq development,
evaluating cases inside Coq, evidence and violation reporting."""
import concurrent.futures
import contextlib
import fcntl
import hashlib
import json
import os
import re
import shutil
import subprocess
import sys
import tempfile
import time

ROOT = os.path.dirname(os.path.dirname(os.path.abspath(__file__)))
REPO = os.environ.get("VERIF_REPO", "/repo")
BUILD = os.path.join(ROOT, ".build")
COQ = os.path.join(ROOT, "coq")
HARNESS = os.path.join(ROOT, "harness")
NCPU = os.cpu_count() or 4


def goenv():
    env = dict(os.environ)
    env.pop("GOSUMDB", None)
    env["GOTOOLCHAIN"] = "auto"
    env["GOFLAGS"] = "-mod=mod"
    env["GOPROXY"] = "off"
    env.setdefault("HOME", "/root")
    return env


def sh(cmd, cwd=None, timeout=600, env=None, check=False, input=None):
    p = subprocess.run(cmd, cwd=cwd, timeout=timeout, env=env or goenv(), input=input,
                       stdout=subprocess.PIPE, stderr=subprocess.PIPE, text=True)
    if check and p.returncode != 0:
        raise RuntimeError("command failed (%d): %s\n%s\n%s" % (p.returncode, cmd, p.stdout[-2000:], p.stderr[-4000:]))
    return p


@contextlib.contextmanager
def locked(name):
    os.makedirs(BUILD, exist_ok=True)
    f = open(os.path.join(BUILD, name + ".lock"), "w")
    fcntl.flock(f, fcntl.LOCK_EX)
    try:
        yield
    finally:
        fcntl.flock(f, fcntl.LOCK_UN)
        f.close()


def _hash_files(paths):
    h = hashlib.sha256()
    for p in sorted(paths):
        h.update(p.encode())
        try:
            with open(p, "rb") as f:
                h.update(f.read())
        except OSError:
            h.update(b"<missing>")
    return h.hexdigest()[:16]


def repo_files():
    p = sh(["git", "-C", REPO, "ls-files", "-co", "--exclude-standard"], timeout=60)
    out = []
    for l in p.stdout.splitlines():
        if l.endswith(".go") or l.endswith("go.mod") or l.endswith("go.sum"):
            if "/testpackages/" in l or "/testdata/" in l or l.endswith("_test.go"):
                continue
            out.append(os.path.join(REPO, l))
    return out


def repo_hash():
    return _hash_files(repo_files())


def verif_hash():
    paths = []
    for base, exts in ((COQ, (".v",)), (HARNESS, (".go", ".mod")), (os.path.join(ROOT, "vh"), (".py",))):
        for d, _, fs in os.walk(base):
            if "/gen" in d or "/run" in d:
                continue
            for f in fs:
                if f.endswith(exts):
                    paths.append(os.path.join(d, f))
    return _hash_files(paths)


class Tools:
    moq = None
    vh = None
    key = None


def build_tools():
    """Builds moq and the harness from /repo's current working tree (cached by content)."""
    with locked("tools"):
        key = repo_hash() + "-" + verif_hash()
        d = os.path.join(BUILD, "tools", key)
        t = Tools()
        t.moq, t.vh, t.key = os.path.join(d, "moq"), os.path.join(d, "vh"), key
        if os.path.exists(os.path.join(d, "ok")):
            return t
        # drop older tool dirs
        shutil.rmtree(os.path.join(BUILD, "tools"), ignore_errors=True)
        os.makedirs(d, exist_ok=True)
        p = sh(["go", "build", "-o", t.moq, "."], cwd=REPO, timeout=600)
        if p.returncode != 0:
            raise BuildError("moq does not build:\n" + p.stderr[-3000:])
        modfile = []
        if REPO != "/repo":
            # checks may be pointed at another tree (VERIF_REPO): same go.mod, other replace target
            alt = os.path.join(d, "go.alt.mod")
            with open(alt, "w") as f:
                f.write(open(os.path.join(HARNESS, "go.mod")).read().replace("=> /repo", "=> " + REPO))
            shutil.copy(os.path.join(REPO, "go.sum"), os.path.join(d, "go.alt.sum"))
            modfile = ["-modfile=" + alt]
        else:
            shutil.copy(os.path.join(REPO, "go.sum"), os.path.join(HARNESS, "go.sum"))
        p = sh(["go", "build"] + modfile + ["-o", t.vh, "./cmd/vh"], cwd=HARNESS, timeout=600)
        if p.returncode != 0:
            raise BuildError("harness does not build against /repo:\n" + p.stderr[-3000:])
        open(os.path.join(d, "ok"), "w").close()
        return t


class BuildError(Exception):
    pass


def coq_prepare(tools):
    """Regenerates the translated files and (re)builds the Coq development.
    Returns (unbuilt: set of .v files that did not compile, log)."""
    with locked("coq"):
        os.makedirs(os.path.join(COQ, "gen"), exist_ok=True)
        p = sh([tools.vh, "trans", "-repo", REPO, "-out", os.path.join(COQ, "gen")], timeout=120)
        if p.returncode != 0:
            raise BuildError("translator failed: " + p.stderr[-2000:])
        mk = os.path.join(COQ, "Makefile")
        cp = os.path.join(COQ, "_CoqProject")
        if not os.path.exists(mk) or os.path.getmtime(mk) < os.path.getmtime(cp):
            sh(["coq_makefile", "-f", "_CoqProject", "-o", "Makefile"], cwd=COQ, check=True)
        p = sh(["make", "-k", "-j%d" % NCPU], cwd=COQ, timeout=1500)
        log = p.stdout + p.stderr
        q = sh(["make", "-n", "-k"], cwd=COQ, timeout=120)
        unbuilt = set(re.findall(r"COQC (\S+\.v)", q.stdout))
        return unbuilt, log


def coq_str(s):
    parts, cur = [], []
    for ch in s:
        o = ord(ch)
        if ch == '"':
            cur.append('""')
        elif ch in "\n\t" or 32 <= o < 127:
            cur.append(ch)
        else:
            if cur:
                parts.append('"' + "".join(cur) + '"')
                cur = []
            for b in ch.encode("utf8"):
                parts.append("String (ascii_of_nat %d) EmptyString" % b)
    if cur or not parts:
        parts.append('"' + "".join(cur) + '"')
    return parts[0] if len(parts) == 1 else "(" + " ++ ".join(parts) + ")"


def coq_list(items):
    return "[" + "; ".join(items) + "]"


def run_dir():
    d = os.path.join(COQ, "run")
    os.makedirs(d, exist_ok=True)
    return d


def coqc_file(path, timeout=900):
    p = sh(["bash", "-c", "ulimit -s unlimited 2>/dev/null || ulimit -s 1000000; exec coqc -Q %s Moq %s" % (COQ, path)],
           cwd=os.path.dirname(path), timeout=timeout)
    return p.returncode, p.stdout, p.stderr


_PAIR = re.compile(r'\(\s*"((?:[^"]|"")*)"\s*,\s*"((?:[^"]|"")*)"\s*\)')


def parse_pairs(out):
    """parses Coq's printing of a list (string * string)"""
    flat = " ".join(out.split())
    return [(a.replace('""', '"'), b.replace('""', '"')) for a, b in _PAIR.findall(flat)]


def eval_shards(name, header, items, defn, nshards=None, timeout=900):
    """items: list of Coq terms (one per case). Writes shards that define
    `cases := [...]` and evaluate `defn` (a Coq term of type list (string*string) over
    `cases`); returns the concatenated pairs, and a list of shard errors."""
    if not items:
        return [], []
    nshards = nshards or min(NCPU, max(1, len(items) // 4))
    shards = [items[i::nshards] for i in range(nshards)]
    d = run_dir()
    tag = "%s_%d" % (name, os.getpid())
    paths = []
    for k, sh_items in enumerate(shards):
        path = os.path.join(d, "%s_%d.v" % (tag, k))
        with open(path, "w") as f:
            f.write(header + "\n")
            f.write("Definition cases := [\n" + ";\n".join(sh_items) + "].\n")
            f.write("Definition R := Eval vm_compute in (%s).\nPrint R.\n" % defn)
        paths.append(path)
    pairs, errors = [], []
    with concurrent.futures.ThreadPoolExecutor(max_workers=NCPU) as ex:
        for k, (path, (rc, out, err)) in enumerate(zip(paths, ex.map(lambda p: coqc_file(p, timeout), paths))):
            if rc != 0:
                errors.append((path, err[-3000:]))
            else:
                got = parse_pairs(out)
                if len(got) != len(shards[k]):
                    # never lose a result silently: the printer's output was not read back completely
                    errors.append((path, "read back %d of %d results from Coq's output" % (len(got), len(shards[k]))))
                pairs += got
    for path in paths:
        if not errors:
            for ext in (".v", ".vo", ".vok", ".vos", ".glob"):
                with contextlib.suppress(OSError):
                    os.remove(path[:-2] + ext)
            with contextlib.suppress(OSError):
                os.remove(os.path.join(os.path.dirname(path), "." + os.path.basename(path)[:-2] + ".aux"))
    return pairs, errors


def print_assumptions(theorems, imports):
    """theorems: list of names, or of (name, import line) pairs (then `imports` is ignored)"""
    """returns {theorem: text}, text being 'Closed under the global context' or the axiom list;
    missing theorems map to None"""
    d = run_dir()
    res = {}
    path = os.path.join(d, "assum_%d.v" % os.getpid())

    def one(item):
        thm, imp = item if isinstance(item, tuple) else (item, imports)
        p = os.path.join(d, "assum_%d_%s.v" % (os.getpid(), re.sub(r"\W", "_", thm)))
        with open(p, "w") as f:
            f.write(imp + "\nPrint Assumptions %s.\n" % thm)
        rc, out, err = coqc_file(p, 300)
        for ext in (".v", ".vo", ".vok", ".vos", ".glob"):
            with contextlib.suppress(OSError):
                os.remove(p[:-2] + ext)
        with contextlib.suppress(OSError):
            os.remove(os.path.join(d, "." + os.path.basename(p)[:-2] + ".aux"))
        return thm, (" ".join(out.split()) if rc == 0 else None)

    with concurrent.futures.ThreadPoolExecutor(max_workers=NCPU) as ex:
        for thm, txt in ex.map(one, theorems):
            res[thm] = txt
    return res


def forbidden_scan():
    """No Admitted/admit/Axiom/Parameter/... anywhere in the development."""
    bad = []
    pat = re.compile(r"\b(Admitted|admit|Axiom|Axioms|Parameter|Parameters|Conjecture|Admit Obligations|"
                     r"Unset Guard Checking|bypass_check|Unset Positivity Checking|Unset Universe Checking|"
                     r"type-in-type|impredicative-set)\b")
    sect = re.compile(r"^\s*(Variable|Variables|Hypothesis|Hypotheses|Context)\b")
    for d, _, fs in os.walk(COQ):
        if d.endswith("/run"):
            continue
        for f in fs:
            if not f.endswith(".v"):
                continue
            depth = 0
            for n, line in enumerate(open(os.path.join(d, f), errors="replace"), 1):
                code = re.sub(r"\(\*.*?\*\)", "", line)
                if re.match(r"^\s*Section\b", code):
                    depth += 1
                if re.match(r"^\s*End\b", code) and depth > 0:
                    depth -= 1
                if pat.search(code) and not code.lstrip().startswith("(*"):
                    bad.append("%s:%d: %s" % (f, n, line.strip()))
                if depth == 0 and sect.match(code):
                    bad.append("%s:%d: %s (outside a section)" % (f, n, line.strip()))
    return bad


def scratch_dir(prefix):
    base = os.environ.get("VERIF_SCRATCH", tempfile.gettempdir())
    return tempfile.mkdtemp(prefix="moqverif-" + prefix + "-", dir=base)


def load_known_findings():
    p = os.path.join(ROOT, "known_findings.json")
    if not os.path.exists(p):
        return {"findings": [], "fixed": []}
    return json.load(open(p))


def write_evidence(pid, tier, seed, coverage, wall, violations, assumptions):
    os.makedirs(os.path.join(ROOT, "evidence"), exist_ok=True)
    ev = {"property_id": pid, "tier": tier, "seed": seed, "level": "proof", "coverage": coverage,
          "assumptions": assumptions, "wall_s": round(wall, 2), "violations": violations}
    with open(os.path.join(ROOT, "evidence", pid + ".json"), "w") as f:
        json.dump(ev, f, indent=1)


def write_replay(pid, payload):
    h = hashlib.sha256(json.dumps(payload, sort_keys=True, default=str).encode()).hexdigest()[:10]
    d = os.path.join(ROOT, "replays", "%s-%s" % (pid, h))
    os.makedirs(d, exist_ok=True)
    with open(os.path.join(d, "case.json"), "w") as f:
        json.dump(payload, f, indent=1, default=str)
    return d


def coqchk_all(key):
    """thorough tier: the independent checker on every compiled file (cached per tree)"""
    cpath = os.path.join(BUILD, "cache", "coqchk-%s.json" % key)
    if os.path.exists(cpath):
        return json.load(open(cpath))
    with locked("coqchk"):
        if os.path.exists(cpath):
            return json.load(open(cpath))
        mods = []
        for l in open(os.path.join(COQ, "_CoqProject")):
            l = l.strip()
            if l.endswith(".v"):
                mods.append("Moq." + l[:-2].replace("/", "."))
        t0 = time.time()
        p = sh(["coqchk", "-silent", "-o", "-Q", ".", "Moq"] + mods, cwd=COQ, timeout=3600)
        out = p.stdout + p.stderr
        m = re.search(r"\* Axioms:(.*?)\n\s*\n\* Constants", out, re.S)
        axioms = " ".join(m.group(1).split()) if m else "?"
        res = dict(rc=p.returncode, axioms=axioms, seconds=round(time.time() - t0, 1), tail=out[-800:])
        os.makedirs(os.path.dirname(cpath), exist_ok=True)
        json.dump(res, open(cpath, "w"))
        return res
