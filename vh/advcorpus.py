"""A hand-written corpus of source packages that exercise, one mechanism each, the parts of
moq where a change can hide: registration order of same-named packages, aliases taken
from the source, names that collide with generated aliases, numbering of unnamed
parameters, unusual constraints, interface literals, destination-package modes.
It always runs (after the template shape space) in every tier."""
import itertools
import os

M = "example.com/m"

EXTRA_DEPS = {
    "dep/alpha2/keys": ("keys", "type Key interface{ comparable }\ntype Range struct{}\ntype T struct{}\n"),
    "dep/beta2/keys": ("keys", "type Key interface{ comparable }\ntype Range struct{}\ntype T struct{}\n"),
    "dep/proto": ("proto", "type T struct{}\ntype Message struct{}\n"),
    "dep/protov2": ("protov2", "type T struct{}\ntype Message struct{}\n"),
    "dep/named/client": ("apiclient", "type T struct{}\ntype Conn struct{}\n"),
    "dep/meta/v1": ("v1", "type T struct{}\ntype Name string\n"),
    "dep/ctx/context": ("context", "type T struct{}\ntype Scope struct{}\n"),
    "dep/paging": ("paging", "type Cursor string\ntype Page[T any] struct{ Items []T }\n"),
    "dep/coll": ("coll", "type Set[T comparable] = map[T]struct{}\ntype Pair[A, B any] = struct{ L A; R B }\n"
                         "type List[T any] []T\n"),
    "dep/ids": ("ids", "type ID string\ntype T struct{}\n"),
    "dep/kinds": ("kinds", "type Text interface{ ~string }\ntype Real interface{ ~float32 | ~float64 }\n"
                           "type Entity struct{}\n"),
    "dep/subvendor/model": ("model", "type T struct{}\ntype Row struct{}\n"),
    "dep/yaml": ("yaml", "type T struct{}\ntype Node struct{}\n"),
    "dep/k1/type": ("kw", "type T struct{}\n"),
    "dep/k2/range": ("kw", "type T struct{}\n"),
    "dep/gw/gateway": ("paygw", "type Charge struct{}\ntype Receipt struct{}\ntype T struct{}\n"
                                "type Processor interface {\n\tPay(c Charge) (*Receipt, error)\n}\n"),
}

FILES = {}
CASES = []


def case(cid, rel, args, pkg="", stub=False, skip=False, resets=False):
    CASES.append(dict(id="adv-" + cid, rel=rel, args=args, pkg=pkg, stub=stub, skip=skip, resets=resets,
                      tags=["adv"]))


def flagsets(cid, rel, args, modes=("", "mocks")):
    for k, (stub, skip, resets) in enumerate([(False, False, False), (True, False, True), (False, True, False)]):
        for pkg in modes:
            case("%s-%d%s" % (cid, k, pkg[:1]), rel, args, pkg=pkg, stub=stub, skip=skip, resets=resets)


# ---- registration order of packages that share a name (three at a time) ----
def triple(name, paths, pkgname, extra_param=None):
    """three files, each importing one of the packages unaliased and declaring three
    one-method interfaces (methods A*, B*, C*); six combined interfaces, one per order"""
    rel = "adv/" + name
    for i, p in enumerate(paths):
        body = ["package " + name, "", 'import "%s/%s"' % (M, p), ""]
        for letter in "ABC":
            body.append("type P%d%s interface{ %s%d(x %s.T) }" % (i, letter, letter, i, pkgname[i]))
        FILES["%s/f%d.go" % (rel, i)] = "\n".join(body) + "\n"
    decl = ["package " + name, ""]
    ifaces = []
    for perm in itertools.permutations("ABC"):
        iname = "R" + "".join(perm)
        ifaces.append(iname)
        decl.append("type %s interface {" % iname)
        for i, letter in enumerate(perm):
            decl.append("\tP%d%s" % (i, letter))
        if extra_param:
            decl.append("\tZ(%s)" % extra_param)
        decl.append("}")
    FILES[rel + "/decl.go"] = "\n".join(decl) + "\n"
    for iname in ifaces:
        case("%s-%s" % (name, iname), rel, [iname])
    case("%s-all" % name, rel, ifaces[:3], pkg="mocks", stub=True, resets=True)


triple("regclient", ["dep/one/client", "dep/two/client", "dep/oneclient"], ["client", "client", "oneclient"],
       extra_param="oneclient string, twoclient int, client bool")
triple("regv1", ["dep/core/v1", "dep/apps/v1", "dep/w/corev1"], ["v1", "v1", "corev1"],
       extra_param="corev1 int, appsv1 string, v1 bool")
triple("regapi", ["dep/v1/api", "dep/v2/api", "dep/alpha"], ["api", "api", "alpha"],
       extra_param="v1api string, v2api int, api bool")
triple("regkeys", ["dep/alpha2/keys", "dep/beta2/keys", "dep/beta"], ["keys", "keys", "beta"])

# ---- aliases from the source files ----
FILES["adv/srcalias/a.go"] = """package srcalias

import (
	stdctx "context"
	"html/template"
)

type Beginner interface {
	Begin(ctx stdctx.Context, context string) error
	Render(template string, t *template.Template)
}
"""
FILES["adv/srcalias/b.go"] = """package srcalias

import (
	texttemplate "text/template"

	yaml "example.com/m/dep/other"
)

var _ yaml.T

type TextRenderer interface {
	RenderText(template string, t *texttemplate.Template, o yaml.T)
}
"""
FILES["adv/srcalias/c.go"] = """package srcalias

import "example.com/m/dep/yaml.v3"

type All interface {
	Beginner
	TextRenderer
	Load(y yaml.T, other string) error
}
"""
flagsets("srcalias-beg", "adv/srcalias", ["Beginner"])
flagsets("srcalias-all", "adv/srcalias", ["All"])
case("srcalias-both", "adv/srcalias", ["TextRenderer", "Beginner", "All"])

FILES["adv/protoalias/a.go"] = """package protoalias

import "example.com/m/dep/proto"

type Plain interface{ A(m proto.Message) }
"""
FILES["adv/protoalias/b.go"] = """package protoalias

import proto "example.com/m/dep/protov2"

type Aliased interface{ B(m proto.Message) }

type Both interface {
	Plain
	Aliased
}

type BothReversed interface {
	Aliased
	C(m proto.T)
	Plain
}
"""
flagsets("protoalias", "adv/protoalias", ["Both"])
case("protoalias-rev", "adv/protoalias", ["BothReversed", "Both"])

FILES["adv/dirname/a.go"] = """package dirname

import (
	client "example.com/m/dep/named/client"
	dir "example.com/m/dep/named/dir"
)

type Dialer interface {
	Dial(addr string) (*client.Conn, error)
	Use(t dir.T, c client.T)
}
"""
flagsets("dirname", "adv/dirname", ["Dialer"])
# ... and spelled out under the package's own name, which differs from the directory (what goimports writes)
FILES["adv/dirname2/a.go"] = """package dirname2

import (
	apiclient "example.com/m/dep/named/client"
	notdir "example.com/m/dep/named/dir"
)

type Dialer interface {
	Dial(addr string) (*apiclient.Conn, error)
	Use(t notdir.T, c apiclient.T)
}
"""
flagsets("dirname2", "adv/dirname2", ["Dialer"])

# ---- numbering, suffixes, names equal to qualifiers ----
FILES["adv/naming/a.go"] = """package naming

import (
	"net/http"
	"net/url"
	"time"

	"example.com/m/dep/one/client"
)

type Numbers interface {
	Blend(s1 string, _ string, _ string)
	Sum(n1, n2 int, _, _ int)
	Three(string, string, string) (string, string)
	Mixed(s string, _ string, s3 string, _ string)
	Floats(float64, float32, float64) float64
	Errs(error, error) (error, error)
	Suffix(sMoqParam string, _ string, sOut string) (string, error)
	Outs(errOut error, sOut string) (s string, err error)
}

type Quals interface {
	Sleep(time int) time.Duration
	Register(url string, http bool, rewrite func(*http.Request) *url.URL) error
	Late(client int, c client.T, clientMoqParam string)
	Early(c client.T, client int)
	Wait(d time.Duration, time string) (timeOut time.Time)
}

type Initials interface {
	Fetch(url, id, uri, utf8 string, Http, jsonData, xMl int) (uuid string, err error)
	Case(Url, ID, Uri, UTF8, tls, Xss, sql, ascii string)
}
"""
flagsets("naming-num", "adv/naming", ["Numbers"])
flagsets("naming-qual", "adv/naming", ["Quals"])
flagsets("naming-init", "adv/naming", ["Initials"])
case("naming-all", "adv/naming", ["Quals", "Numbers", "Initials"], stub=True, resets=True)

# ---- constraints and generic shapes ----
FILES["adv/generic/a.go"] = """package generic

import "fmt"

type ID interface{ ~string | ~int64 }

type Repo[K ID, V any] interface {
	Get(k K) (V, bool)
	Put(k K, v V)
}

type Num int

type Store[K Num, V any] interface {
	Load(k K) V
}

type Ordered[T any] interface{ Less(T) bool }

type Sorter[T Ordered[T]] interface {
	Sort(xs []T) []T
}

type Heap[E interface{ Before(E) bool }] interface {
	Push(e E)
	Pop() E
}

type User struct{ Name string }

type UserStore = Store2[User]

type Store2[T any] interface {
	Save(t T) error
	All() []T
}

type Stringers[S fmt.Stringer] interface {
	Show(s S) string
}
"""
for n in ["Repo", "Store", "Sorter", "Heap", "UserStore", "Store2", "Stringers"]:
    case("generic-" + n, "adv/generic", [n])
    case("generic-%s-skip" % n, "adv/generic", [n], pkg="mocks", skip=True, stub=True)
case("generic-many", "adv/generic", ["Store2", "Heap", "Repo"], resets=True)

FILES["adv/genkeys/a.go"] = """package genkeys

import "example.com/m/dep/alpha2/keys"

type Cache[K keys.Key, V any] interface {
	Get(k K) (V, bool)
}
"""
FILES["adv/genkeys/b.go"] = """package genkeys

import "example.com/m/dep/beta2/keys"

type Scanner interface {
	Scan(r keys.Range) error
}
"""
case("genkeys-cs", "adv/genkeys", ["Cache", "Scanner"])
case("genkeys-sc", "adv/genkeys", ["Scanner", "Cache"])
case("genkeys-c", "adv/genkeys", ["Cache"], pkg="mocks")

# ---- interface literals, aliases of interfaces, variadic of slices ----
FILES["adv/literals/a.go"] = """package literals

type Getter = interface {
	Get(id string) (string, error)
}

type BulkGetter = interface {
	Get(ids ...string) ([]string, error)
}

type UserStore interface {
	Getter
	Put(id, v string) error
}

type BatchStore interface {
	BulkGetter
	Flush() error
}

type Conn interface {
	WriteBuffers(bufs ...[]byte) (int, error)
	WriteArrays(arrs ...[4]byte) error
	ReadInto(dst ...*[]byte)
}
"""
case("literals-ub", "adv/literals", ["UserStore", "BatchStore"], skip=True)
case("literals-bu", "adv/literals", ["BatchStore", "UserStore"])
flagsets("literals-conn", "adv/literals", ["Conn"])

# ---- the same interface more than once, reset-like method names ----
FILES["adv/twice/a.go"] = """package twice

type Sender interface {
	Send(to string, body []byte) error
	Close() error
}

type Auditor interface {
	Audit(event string)
}

type Sessions interface {
	Session() string
	ResetSessionToken()
	Id() int
	Url() string
	Reset2()
}

type Also Sender
"""
case("twice-stub-spy", "adv/twice", ["Sender:SenderStub", "Auditor", "Sender:SenderSpy"])
case("twice-ab", "adv/twice", ["Sender:A", "Sender:B"], stub=True, resets=True)
case("twice-also", "adv/twice", ["Sender", "Also"], pkg="mocks")
flagsets("twice-sessions", "adv/twice", ["Sessions"])

# ---- destination package modes ----
FILES["adv/gw/user/a.go"] = """package user

import "example.com/m/dep/gw/gateway"

type Payer interface {
	Pay(c paygw.Charge) (*paygw.Receipt, error)
}
"""
case("gw-user", "adv/gw/user", ["Payer"], pkg="gateway", skip=True)
case("gw-self-skip", "dep/gw/gateway", ["Processor"], pkg="gateway", skip=True)
case("gw-self", "dep/gw/gateway", ["Processor"], pkg="gateway")
case("gw-self-test", "dep/gw/gateway", ["Processor"], pkg="paygw_test")
case("gw-self-other", "dep/gw/gateway", ["Processor"], pkg="other", stub=True)
case("gw-self-name", "dep/gw/gateway", ["Processor"], pkg="paygw")
case("gw-self-name-skip", "dep/gw/gateway", ["Processor"], pkg="paygw", skip=True, stub=True)
case("twice-self-name", "adv/twice", ["Sender", "Auditor"], pkg="twice")

# ---- build constraints in the declaring file ----
FILES["adv/buildtag/a.go"] = """package buildtag

type Sink interface{ Write(p []byte) (int, error) }
"""
FILES["adv/buildtag/watcher_posix.go"] = """//go:build linux || darwin

package buildtag

type Watcher interface {
	Watch(path string) (<-chan string, error)
}
"""
flagsets("buildtag", "adv/buildtag", ["Watcher"], modes=("",))
case("buildtag-both", "adv/buildtag", ["Sink", "Watcher"])


# ---- witnesses of the repaired defects (D1, D2, D3, D4a, D22): they must stay repaired ----
FILES["adv/fixed/a.go"] = """package fixed

import (
	"io"

	"example.com/m/dep/s1"
)

var Default io.Reader

type Lower[k comparable, v any] interface {
	Get(key k) (v, bool)
	Put(key k, val v)
}

type NumberTwo interface {
	M(s2 int, _ string, _ string)
	N(n1, n2 int, _, _ int)
}

type BodyNames interface {
	M(mock int, callInfo string) (mockOut int)
}

type Renamed interface {
	M(string, string, s1.T, string)
}
"""
FILES["adv/fixed/walk.go"] = """package fixed

import (
	"unsafe"

	"example.com/m/dep/ids"
)

type Raw interface {
	Peek(p unsafe.Pointer, ps ...unsafe.Pointer) uintptr
}

// D33 (repaired): unnamed parameters whose type nests unsafe.Pointer
type RawBatch interface {
	Batch([]unsafe.Pointer) error
	Index(map[string]unsafe.Pointer, chan unsafe.Pointer)
	Flat(unsafe.Pointer, [2]unsafe.Pointer)
}

type Indexed[K ~int | ids.ID, V any] interface {
	Find(k K) (V, bool)
}
"""
case("fixed-walk-raw", "adv/fixed", ["Raw"])
case("fixed-rawbatch", "adv/fixed", ["RawBatch"])
case("fixed-rawbatch-m", "adv/fixed", ["RawBatch"], pkg="mocks", stub=True, resets=True)
case("fixed-walk-union", "adv/fixed", ["Indexed"])
case("fixed-walk-both", "adv/fixed", ["Indexed", "Raw"], pkg="mocks", stub=True, resets=True)
case("fixed-lower", "adv/fixed", ["Lower"], skip=True)
case("fixed-lower-ensure", "adv/fixed", ["Lower"])
case("fixed-lower-stub", "adv/fixed", ["Lower"], skip=True, stub=True, resets=True, pkg="mocks")
case("fixed-numbertwo", "adv/fixed", ["NumberTwo"])
case("fixed-bodynames", "adv/fixed", ["BodyNames"], stub=True)
case("fixed-renamed", "adv/fixed", ["Renamed"])
case("fixed-value", "adv/fixed", ["Default"])
# D12a: a user package called like a standard package moq imports itself
FILES["adv/fixed/sync_user.go"] = """package fixed

import (
	"example.com/m/dep/ctx/context"
	"example.com/m/dep/sync"
)

type Locker interface {
	Hold(t sync.T) error
}

type Scoped interface {
	In(s context.Scope)
}
"""
case("fixed-sync", "adv/fixed", ["Locker"])
case("fixed-sync-m", "adv/fixed", ["Locker"], pkg="mocks", stub=True, resets=True)
case("fixed-sync-both", "adv/fixed", ["Scoped", "Locker"])
case("fixed-value-k2", "adv/fixed", ["NumberTwo", "Default"])


# ---- regeneration over moq's own output (D23, D30) ----
FILES["adv/regen2/f1.go"] = """package regen2

import "example.com/m/dep/core/v1"

type P1 interface{ A(v1 int, x v1.T) }
"""
FILES["adv/regen2/f2.go"] = """package regen2

import "example.com/m/dep/apps/v1"

type P2 interface{ B(y v1.T) }

type R interface {
	P1
	P2
}
"""
case("regen2-R", "adv/regen2", ["R"])
case("regen2-R-stub", "adv/regen2", ["R"], stub=True, resets=True)
FILES["adv/regen3/b.go"] = """package regen3

import yaml "example.com/m/dep/other"

type B interface{ Other(o yaml.T) }
"""
FILES["adv/regen3/c.go"] = """package regen3

import "example.com/m/dep/yaml.v3"

type C interface{ Load(y yaml.T) }

type All interface {
	B
	C
}
"""
case("regen3-All", "adv/regen3", ["All"])


# ---- second round of seeded changes: one package per mechanism ----
# an alias name bound to different paths in different files (import names are file scoped)
FILES["adv/filealias/a.go"] = """package filealias

import pb "example.com/m/dep/core/v1"

type Legacy interface{ Old(x pb.T) }
"""
FILES["adv/filealias/b.go"] = """package filealias

import pb "example.com/m/dep/apps/v1"

type Service interface {
	Legacy
	New(y pb.T)
}

type Fresh interface{ Only(y pb.T) }
"""
FILES["adv/filealias/c.go"] = """package filealias

import "example.com/m/dep/alpha"

type Opener interface{ Open(a alpha.T) }
"""
FILES["adv/filealias/d.go"] = """package filealias

import alpha "example.com/m/dep/beta"

type Saver interface{ Save(b alpha.T) }
"""
flagsets("filealias-svc", "adv/filealias", ["Service"])
case("filealias-lf", "adv/filealias", ["Legacy", "Fresh"], pkg="mocks")
case("filealias-fl", "adv/filealias", ["Fresh", "Legacy"])
case("filealias-os", "adv/filealias", ["Opener", "Saver"])
case("filealias-so", "adv/filealias", ["Saver", "Opener"], pkg="mocks", stub=True)

# a standard-library package registered before a user package of the same name
FILES["adv/stdshadow/a.go"] = """package stdshadow

import "context"

type Acquirer interface{ Acquire(ctx context.Context) error }
"""
FILES["adv/stdshadow/b.go"] = """package stdshadow

import "example.com/m/dep/ctx/context"

type Scoped interface{ In(s context.Scope) }

type Session interface {
	Acquirer
	Scoped
}
"""
case("stdshadow-as", "adv/stdshadow", ["Acquirer", "Scoped"])
case("stdshadow-session", "adv/stdshadow", ["Session"])
case("stdshadow-session-m", "adv/stdshadow", ["Session"], pkg="mocks", stub=True, resets=True)

# three packages of one name, two of them inside one parameter type, no source aliases in reach
FILES["adv/meta3/base/a.go"] = """package base

import (
	appsv1 "example.com/m/dep/apps/v1"
	corev1 "example.com/m/dep/core/v1"
)

type Syncer interface {
	Sync(m map[corev1.T]appsv1.T) error
	Pair(f func(corev1.T) appsv1.T, c chan appsv1.T)
}
"""
FILES["adv/meta3/ctl/a.go"] = """package ctl

import (
	"example.com/m/adv/meta3/base"
	"example.com/m/dep/meta/v1"
)

type Controller interface {
	Name(n v1.Name) string
	base.Syncer
}

type Direct interface {
	base.Syncer
}
"""
flagsets("meta3-ctl", "adv/meta3/ctl", ["Controller"])
case("meta3-direct", "adv/meta3/ctl", ["Direct"])
case("meta3-both", "adv/meta3/ctl", ["Direct", "Controller"], pkg="mocks")

# constraints whose type set excludes int; aliases of instantiated generic interfaces
FILES["adv/generic2/a.go"] = """package generic2

import "example.com/m/dep/kinds"

type Floats[F ~float32 | ~float64] interface{ Sum(xs []F) F }

type Texts[S ~string] interface{ Join(xs ...S) S }

type Index[K kinds.Text, V any] interface {
	Find(k K) (V, kinds.Entity)
}

type Reals[R kinds.Real] interface{ Max(a, b R) R }

type UserID string

type User struct{}

type Repo[K ~string, V any] interface {
	Get(k K) (V, error)
}

type UserRepo = Repo[UserID, User]

type Defined Repo[UserID, *User]

type Hasher interface {
	comparable
	Hash() uint64
}

type Set[T Hasher] interface{ Add(t T) bool }

type Cache[K comparable, V any] interface {
	Get(k K) (V, bool)
	Put(k K, v V)
}

type Key interface{ comparable }

type Keyed[K Key] interface{ Find(k K) int }
"""
for n in ["Floats", "Texts", "Index", "Reals", "UserRepo", "Defined", "Repo", "Set", "Cache", "Keyed"]:
    case("generic2-" + n, "adv/generic2", [n])
    case("generic2-%s-m" % n, "adv/generic2", [n], pkg="mocks", stub=True)

# generated names that meet local types named like packages; names that differ by an underscore
FILES["adv/naming2/a.go"] = """package naming2

import (
	"context"
	"go/token"
	"time"
)

type Token struct{}

type Time struct{}

type Context struct{}

type Request struct{}

type Frame struct{}

type Emitter interface {
	Emit(Token, token.Token)
}

type Clock interface {
	At(Time, time.Time)
	Ctx(context Context, _ context.Context)
}

type Leak interface {
	Copy(string, string)
	Put(s string, v int)
	Query(string) error
	Zed(n int, _ int)
	Zz(n int) (s string)
}

type Under interface {
	Handle(req Request, _req Frame)
	One(_reason string)
	Two(x, _x, __x int)
}
"""
flagsets("naming2-emit", "adv/naming2", ["Emitter"])
case("naming2-clock", "adv/naming2", ["Clock"])
case("naming2-clock-emit", "adv/naming2", ["Clock", "Emitter"], stub=True)
flagsets("naming2-under", "adv/naming2", ["Under"], modes=("",))
flagsets("naming2-leak", "adv/naming2", ["Leak"], modes=("",))
case("naming2-leak-emit", "adv/naming2", ["Emitter", "Leak", "Clock"])

# two named types of one package in one type, the later one instantiated with a local type
FILES["adv/paging/a.go"] = """package paging

import (
	"example.com/m/dep/coll"
	"example.com/m/dep/ids"
	pg "example.com/m/dep/paging"
)

type Item struct{}

type Lister interface {
	List() map[pg.Cursor]pg.Page[Item]
	Pages() pg.Page[pg.Page[*Item]]
	Resolve(s coll.Set[ids.ID]) coll.Pair[ids.ID, Item]
	Each(l coll.List[coll.List[ids.T]], f func(coll.Set[ids.ID]) coll.List[Item])
}
"""
flagsets("paging", "adv/paging", ["Lister"], modes=("", "mocks", "paging_test"))

# a path element that merely ends in "vendor"
FILES["adv/vendorish/a.go"] = """package vendorish

import (
	"example.com/m/dep/multivendor/catalog"
	"example.com/m/dep/subvendor/model"
)

type Shop interface {
	Stock(c catalog.T) []model.Row
}
"""
flagsets("vendorish", "adv/vendorish", ["Shop"])

# regeneration: an alias the conflict resolution overrode; a parameter named like an import of the mock file only
FILES["adv/regen4/a_billing.go"] = """package regen4

import client "example.com/m/dep/one/client"

type Biller interface{ Bill(c client.T) error }
"""
FILES["adv/regen4/b_shipping.go"] = """package regen4

import "example.com/m/dep/two/client"

type Shipper interface{ Ship(c client.T) error }

type Service interface {
	Biller
	Shipper
}
"""
case("regen4-svc", "adv/regen4", ["Service"])
case("regen4-svc-stub", "adv/regen4", ["Service"], stub=True, resets=True)
FILES["adv/regen5/a.go"] = """package regen5

type Record struct{}

type Journal interface {
	Append(rec Record, sync bool) error
	Flush(sync, fsync bool)
}
"""
case("regen5-journal", "adv/regen5", ["Journal"])
case("regen5-journal-resets", "adv/regen5", ["Journal"], resets=True)


# shapes a template might special-case: fluent builders, io.Reader, big value parameters, nested embedding
FILES["adv/special/a.go"] = """package special

type Query interface {
	Limit(n int) Query
	Where(cond string, args ...interface{}) Query
	Run() error
}

type Source interface {
	Read(p []byte) (int, error)
	Close() error
}

type Big struct {
	A, B, C, D, E, F, G, H, I, J, K, L int64
	Name string
}

type Ledger interface {
	Put(entry Big, note string) error
	Get(id int64) (Big, bool)
}

type Reader interface {
	Next() (string, error)
	Close() error
}

type Writer interface {
	Emit(s string) error
	Close() error
}

type Stream interface {
	Reader
	Writer
}

type File interface {
	Stream
	Name() string
}

type Logger interface {
	Info(msg string, context ...interface{})
	Printf(string, ...interface{})
	Id() string
	Url(Id string) string
	Trace(tenantIdentifier string, requestPath string, component string, operation string, correlationIdentifier string, attemptNumber int, deadlineMilliseconds int64, details ...interface{})
	Record(tenantIdentifier string, requestPath string, component string, operation string, correlationIdentifier string, attemptNumber int, deadlineMilliseconds int64, outcome error) (accepted bool, retryAfterMilliseconds int64, failure error)
}

type Private interface {
	Logger
	touch()
	reset(hard bool) error
}

type Fielded interface {
	Local(f func() struct{ key int }, g struct{ Key, other int })
}
"""
flagsets("special-query", "adv/special", ["Query"], modes=("",))
flagsets("special-source", "adv/special", ["Source"], modes=("",))
flagsets("special-ledger", "adv/special", ["Ledger"], modes=("",))
flagsets("special-file", "adv/special", ["File"], modes=("",))
flagsets("special-logger", "adv/special", ["Logger"], modes=("",))
flagsets("special-private", "adv/special", ["Private"], modes=("",))
flagsets("special-fielded", "adv/special", ["Fielded"], modes=("", "mocks"))


# reset helpers next to methods that are spelled like them, in the same and in another interface of the run
FILES["adv/resetspy/a.go"] = """package resetspy

type FetchSpy interface {
	FetchCount() int
	ResetFetchCalls()
}

type Fetcher interface {
	Fetch(id string) error
	Close() error
}

type Meter interface {
	Add(delta int)
	Seek(offset int64, whence int) int64
	SetLevel(l Level, force bool)
	Label(name string)
}

type Level uint8
"""
for a in (["FetchSpy", "Fetcher"], ["Fetcher", "FetchSpy"], ["Meter"], ["Fetcher"]):
    case("resetspy-" + "-".join(a), "adv/resetspy", a, resets=True)
    case("resetspy-%s-plain" % "-".join(a), "adv/resetspy", a, stub=True)

# D12 (what remains): two paths with the same unique name at every level
FILES["adv/yamls/a.go"] = """package yamls

import "example.com/m/dep/go-yaml"

type Old interface{ Load(y yaml.T) }
"""
FILES["adv/yamls/b.go"] = """package yamls

import "example.com/m/dep/yaml"

type New interface{ Parse(n yaml.Node) }

type Both interface {
	Old
	New
}
"""
case("yamls-both", "adv/yamls", ["Both"])
case("yamls-on", "adv/yamls", ["Old", "New"], pkg="mocks")
case("yamls-old", "adv/yamls", ["Old"])

# identifiers outside ASCII (the model is ASCII only: these cases are decided by the oracles alone)
FILES["adv/unicode/a.go"] = """package unicode

type Élan struct{}

type Café interface {
	Servir(été string, größe int, _ Élan, _ []Élan) (résultat string, err error)
	Ωmega(αlpha float64, id int) Élan
}

type Tagged interface {
	Put(s struct {
		F int "json:\\"naïve\\" x:\\"tab\\there\\""
		G string `raw:"back\\\\slash"`
	}) error
	Local(f func() struct{ Ключ int })
}
"""
flagsets("unicode", "adv/unicode", ["Café"], modes=("", "mocks"))
flagsets("unicode-tag", "adv/unicode", ["Tagged"], modes=("", "mocks"))
# letters without case (a type name that de-capitalising cannot change: it gets the MoqParam suffix)
FILES["adv/unicode/b.go"] = """package unicode

type ℝ float64

type 数 int

type Metric interface {
	Abs(ℝ) ℝ
	Scale(ℝ, 数, []ℝ) (数, error)
}
"""
flagsets("unicode-caseless", "adv/unicode", ["Metric"], modes=("",))  # caseless letters are not exported: in place only

# the usual layout: a sub-directory called like the -pkg value already holds that package
FILES["adv/withmocks/a.go"] = """package withmocks

import "context"

type Item struct{ ID string }

type Store interface {
	Get(ctx context.Context, id string) (*Item, error)
	All() []Item
}
"""
FILES["adv/withmocks/mocks/doc.go"] = """// Package mocks holds generated mocks.
package mocks
"""
FILES["adv/withmocks/withmocks_test/doc.go"] = """package withmocks_test
"""
flagsets("withmocks", "adv/withmocks", ["Store"], modes=("mocks", "withmocks_test", "other"))

# D14: aliases made of path elements that are keywords; the formatters must fail on such output
FILES["adv/kwalias/a.go"] = """package kwalias

import "example.com/m/dep/k1/type"

type One interface{ A(t kw.T) }
"""
FILES["adv/kwalias/b.go"] = """package kwalias

import "example.com/m/dep/k2/range"

type Two interface{ B(t kw.T) }

type Both interface {
	One
	Two
}
"""
case("kwalias", "adv/kwalias", ["Both"])
CASES[-1]["fmts_always"] = True
case("kwalias-m", "adv/kwalias", ["One", "Two"], pkg="mocks", stub=True)

# D31: goimports, sibling files and a package name that cannot be guessed from the path
FILES["adv/goimp/a.go"] = """package goimp

import "example.com/m/dep/core/v1"

type Store interface{ Get() v1.T }
"""
FILES["adv/goimp/b.go"] = """package goimp

import v1 "example.com/m/dep/http"

var _ v1.T
"""
case("goimp", "adv/goimp", ["Store"])
CASES[-1]["fmts_always"] = True

# ---- late re-aliasing: a package that is printed under one qualifier when a variable is
# allocated and re-aliased later in the same run (by a later method, a later interface, or by
# the sync import).  Anything that renders a type, a constraint, the self-check argument or the
# source qualifier before the run is over shows here, in every position a type can take:
# variadic tail, result, nested function, map/pointer, constraint, self-check line.
EXTRA_DEPS["dep/one/codec"] = ("codec", "type Key interface{ String() string }\ntype T struct{}\n")
EXTRA_DEPS["dep/two/codec"] = ("codec", "type T struct{}\ntype Frame struct{}\n")
FILES["adv/late/f0.go"] = """package late

import "example.com/m/dep/one/client"

type Emitter interface {
	Emit(prefix string, events ...client.T)
	Fetch() (client.T, error)
	Wrap(f func(client.T) []client.T) map[string]*client.T
}
"""
FILES["adv/late/f1.go"] = """package late

import "example.com/m/dep/two/client"

type Zed interface{ Zap(x client.T) }

type Late interface {
	Emitter
	Zed
}
"""
FILES["adv/late/f2.go"] = """package late

import "example.com/m/dep/one/codec"

type Repo[K codec.Key] interface {
	Get(k K) codec.T
	Put(ks ...codec.T)
}
"""
FILES["adv/late/f3.go"] = """package late

import "example.com/m/dep/two/codec"

type Framer interface{ Frame(f codec.Frame, fs ...codec.T) }
"""
flagsets("late-one", "adv/late", ["Late"])
flagsets("late-two", "adv/late", ["Emitter", "Zed"])
flagsets("late-gen", "adv/late", ["Repo", "Framer"])
case("late-gen-rev", "adv/late", ["Framer", "Repo"])
case("late-all", "adv/late", ["Repo", "Emitter", "Framer", "Zed"], pkg="mocks", stub=True, resets=True)

# a source package that is itself called sync: the sync import is registered last and
# re-aliases the source package's import after everything else was allocated
FILES["adv/sync/store.go"] = """package sync

type T struct{}

type Store interface {
	Load(key string) (T, bool)
	Keep(ts ...T)
}

type Empty interface{}
"""
FILES["adv/sync/mocks/doc.go"] = """package mocks
"""
FILES["adv/sync/sync_test/doc.go"] = """package sync_test
"""
flagsets("srcsync", "adv/sync", ["Store"], modes=("", "mocks", "sync_test"))
case("srcsync-empty", "adv/sync", ["Empty", "Store"], pkg="mocks")

# the same path imported under two different aliases by two files (later file wins: a function
# of the file order, not of chance)
FILES["adv/twoalias/a.go"] = """package twoalias

import ca "example.com/m/dep/alpha"

type A interface{ One(t ca.T) }
"""
FILES["adv/twoalias/b.go"] = """package twoalias

import cb "example.com/m/dep/alpha"

type B interface{ Two(t cb.T) }

type Both interface {
	A
	B
}
"""
FILES["adv/twoalias/c.go"] = """package twoalias

import "example.com/m/dep/alpha"

type C interface{ Three(t alpha.T) }
"""
case("twoalias-both", "adv/twoalias", ["Both"])
case("twoalias-c", "adv/twoalias", ["C", "A"], pkg="mocks", stub=True)

# results and variadic tails of every shape under -stub: the zero-value block and the return
# statement are written from the RESULT list, the call from the PARAMETER list
FILES["adv/stubshape/a.go"] = """package stubshape

type Splitter interface {
	Split(s string, seps ...string) (int, []string)
	Join(parts ...[]string) []string
	Tail(xs ...int) (rest []int)
	Pairs(kv ...map[string][]int) (first map[string][]int, all []map[string][]int)
	None(vs ...interface{})
}
"""
flagsets("stubshape", "adv/stubshape", ["Splitter"])

# numbering next to names that already end in a digit; a generic interface that mentions no type
# of its own package (nothing of the source package to import with -skip-ensure)
FILES["adv/numbered/a.go"] = """package numbered

type Compare interface {
	Compare(v1 string, v string) int
	Scale(n1 float64, _ int) float64
	Copy(s1 string, _ string, _ string) (s2 string, _ string)
	Three(s string, _ string, s3 string, _ string)
}

type Cache[K comparable, V any] interface {
	Get(k K) (V, bool)
	Put(k K, v V, more ...V)
}
"""
flagsets("numbered", "adv/numbered", ["Compare"], modes=("",))
flagsets("numbered-gen", "adv/numbered", ["Cache"])

# D16 (repaired): a parameter called a, and one variable whose type brings in packages with the qualifiers
# a and aMoqParam: the two renames do not commute, the imports are visited in the order of their paths
EXTRA_DEPS["dep/ord/a"] = ("a", "type T struct{}\n")
EXTRA_DEPS["dep/ord/zz"] = ("aMoqParam", "type T struct{}\n")
EXTRA_DEPS["dep/ord2/zz"] = ("b", "type T struct{}\n")
EXTRA_DEPS["dep/ord2/a"] = ("bMoqParam", "type T struct{}\n")
FILES["adv/renameorder/a.go"] = """package renameorder

import (
	"example.com/m/dep/ord/a"
	aMoqParam "example.com/m/dep/ord/zz"
	bMoqParam "example.com/m/dep/ord2/a"
	b "example.com/m/dep/ord2/zz"
)

type Ordered interface {
	First(a int, f func(x a.T, y aMoqParam.T))
	Second(b int, f func(x b.T, y bMoqParam.T))
	Both(a, b string, m map[a.T]b.T, g func(aMoqParam.T) bMoqParam.T)
}
"""
flagsets("renameorder", "adv/renameorder", ["Ordered"])

# round 7: constraints that embed comparable next to a type term (either order) or a named constraint;
# a mock named exactly like its interface in another package; type names that are predeclared
# function names; a package mentioned twice by one parameter, the second time with a type argument
# from a package named nowhere else; named results whose names are types of the same package
FILES["adv/round7/a.go"] = """package round7

import (
	"time"

	"example.com/m/dep/gen"
)

type StrKey interface {
	comparable
	~string
}

type KeyStr interface {
	~string | ~int64
	comparable
}

type Number interface{ ~int | ~float64 }

type Store[K StrKey, V any] interface {
	Get(k K) (V, bool)
}

type Store2[K KeyStr, N interface {
	Number
	String() string
}] interface {
	Put(k K, n N)
}

type Client interface {
	Do(req string) (string, error)
}

type Max int
type Min int
type Len int
type Close struct{}
type New func()
type Cap []int

type Builtins interface {
	Limits(Max, Min, Len) Cap
	Hooks(Close, New, []Max, map[Min]Len)
}

type Tracker interface {
	Track(m map[gen.T]gen.Box[time.Duration], again gen.Pair[string, gen.Box[time.Month]])
}

type node struct{}

type Tree interface {
	Find(key string) (node *node, parent *node)
	Walk(fn func(*node) bool) (visited int, node node)
}
"""
FILES["adv/round7/mocks/doc.go"] = "package mocks\n"
flagsets("round7-store", "adv/round7", ["Store"])
case("round7-store2", "adv/round7", ["Store2"], skip=True)
case("round7-client-same", "adv/round7", ["Client:Client"], pkg="mocks")
case("round7-client-two", "adv/round7", ["Client:Client", "Client:Other"], pkg="mocks", stub=True, resets=True)
flagsets("round7-builtins", "adv/round7", ["Builtins"], modes=("",))
flagsets("round7-tracker", "adv/round7", ["Tracker"])
flagsets("round7-tree", "adv/round7", ["Tree"], modes=("",))


def write_all(root, write):
    for rel, (name, decls) in EXTRA_DEPS.items():
        write(os.path.join(root, rel, "x.go"), "package %s\n\n%s" % (name, decls))
    for rel, text in FILES.items():
        write(os.path.join(root, rel), text)
    out = []
    for c in CASES:
        d = dict(c)
        d["dir"] = os.path.join(root, d.pop("rel"))
        out.append(d)
    return out
