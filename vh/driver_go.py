"""Text of the reflection-driven Go test that executes seeded histories on REAL compiled
mocks and prints an abstract trace comparable with coq/MockSem.v's run_ops."""

DRIVER = r'''package %(pkg)s

import (
	"context"
	"encoding/json"
	"errors"
	"fmt"
	"os"
	"reflect"
	"sort"
	"strings"
	"sync"
	"testing"
	"time"
)

var _ = context.Background
var _ = errors.New

type vOp struct {
	Op   string `json:"op"` // call | calls | reset | resetall
	M    string `json:"m"`
	F    string `json:"f"` // nil | ret | panic
	CB   []vOp  `json:"cb"`
	Seq  int    `json:"seq"`
}
type vHistory struct {
	Mock string `json:"mock"`
	Ops  []vOp  `json:"ops"`
	Conc int    `json:"conc"`
}
type vResult struct {
	Mock   string   `json:"mock"`
	Trace  []string `json:"trace"`
	Final  []string `json:"final"`
	Error  string   `json:"error,omitempty"`
}

var vMocks = map[string]func() interface{}{
%(mocks)s
}

type vSnap struct {
	m      string
	val    reflect.Value
	maxseq int
}

type vRun struct {
	mock   reflect.Value // pointer to the mock struct
	sent   map[int][]reflect.Value // call seq -> argument values
	rets   map[int][]reflect.Value // call seq -> values the function returned
	order  map[string][]int        // method -> call seqs whose record should be in the log (spec side not used)
	trace  []string
	snaps  []vSnap
	ctr    int
	mu     sync.Mutex
}

func (r *vRun) emit(format string, a ...interface{}) {
	r.mu.Lock()
	r.trace = append(r.trace, fmt.Sprintf(format, a...))
	r.mu.Unlock()
}

// mkval builds a value of type t that can be told apart from other values where the
// type allows it.
func (r *vRun) mkval(t reflect.Type, depth int) reflect.Value {
	r.ctr++
	n := r.ctr
	switch t.Kind() {
	case reflect.Bool:
		return reflect.ValueOf(n%%2 == 0).Convert(t)
	case reflect.Int, reflect.Int16, reflect.Int32, reflect.Int64:
		return reflect.ValueOf(int64(1000 + n)).Convert(t)
	case reflect.Int8:
		return reflect.ValueOf(int64(n %% 100)).Convert(t)
	case reflect.Uint, reflect.Uint16, reflect.Uint32, reflect.Uint64, reflect.Uintptr:
		return reflect.ValueOf(uint64(1000 + n)).Convert(t)
	case reflect.Uint8:
		return reflect.ValueOf(uint64(n %% 200)).Convert(t)
	case reflect.Float32, reflect.Float64:
		return reflect.ValueOf(float64(n) + 0.5).Convert(t)
	case reflect.Complex64, reflect.Complex128:
		return reflect.ValueOf(complex(float64(n), 1)).Convert(t)
	case reflect.String:
		return reflect.ValueOf(fmt.Sprintf("s%%d", n)).Convert(t)
	case reflect.Ptr:
		p := reflect.New(t.Elem())
		if depth < 2 {
			defer func() { recover() }()
			p.Elem().Set(r.mkval(t.Elem(), depth+1))
		}
		return p
	case reflect.Slice:
		s := reflect.MakeSlice(t, 2, 4)
		if depth < 2 {
			s.Index(0).Set(r.mkval(t.Elem(), depth+1))
			s.Index(1).Set(r.mkval(t.Elem(), depth+1))
		}
		return s
	case reflect.Array:
		a := reflect.New(t).Elem()
		if depth < 2 && t.Len() > 0 {
			a.Index(0).Set(r.mkval(t.Elem(), depth+1))
		}
		return a
	case reflect.Map:
		return reflect.MakeMapWithSize(t, 1)
	case reflect.Chan:
		return reflect.MakeChan(reflect.ChanOf(reflect.BothDir, t.Elem()), 1).Convert(t)
	case reflect.Func:
		return reflect.MakeFunc(t, func(args []reflect.Value) []reflect.Value {
			out := make([]reflect.Value, t.NumOut())
			for i := range out {
				out[i] = reflect.Zero(t.Out(i))
			}
			return out
		})
	case reflect.Struct:
		v := reflect.New(t).Elem()
		if depth < 2 {
			for i := 0; i < t.NumField(); i++ {
				if t.Field(i).PkgPath == "" {
					func() {
						defer func() { recover() }()
						v.Field(i).Set(r.mkval(t.Field(i).Type, depth+1))
					}()
				}
			}
		}
		return v
	case reflect.Interface:
		if t.NumMethod() == 0 {
			return reflect.ValueOf(fmt.Sprintf("boxed%%d", n)).Convert(t)
		}
		if t.Implements(reflect.TypeOf((*error)(nil)).Elem()) || reflect.TypeOf((*error)(nil)).Elem().Implements(t) {
			e := errors.New(fmt.Sprintf("err%%d", n))
			if reflect.TypeOf(e).Implements(t) {
				return reflect.ValueOf(e).Convert(t)
			}
		}
		ctx := context.WithValue(context.Background(), n, n)
		if reflect.TypeOf(ctx).Implements(t) {
			return reflect.ValueOf(ctx).Convert(t)
		}
		return reflect.Zero(t)
	}
	return reflect.Zero(t)
}

// same reports whether b is "the very same value" as a: identity for reference kinds,
// deep equality otherwise.
func same(a, b reflect.Value) bool {
	if !a.IsValid() || !b.IsValid() {
		return a.IsValid() == b.IsValid()
	}
	if a.Type() != b.Type() {
		return false
	}
	switch a.Kind() {
	case reflect.Ptr, reflect.Map, reflect.Chan, reflect.UnsafePointer:
		return a.Pointer() == b.Pointer()
	case reflect.Func:
		return a.Pointer() == b.Pointer()
	case reflect.Slice:
		return a.Pointer() == b.Pointer() && a.Len() == b.Len() && a.Cap() == b.Cap()
	}
	defer func() { recover() }()
	return reflect.DeepEqual(a.Interface(), b.Interface())
}

func (r *vRun) funcField(m string) reflect.Value { return r.mock.Elem().FieldByName(m + "Func") }

// matchArgs renders how the received values relate to the values sent with call seq
func (r *vRun) matchArgs(seq int, got []reflect.Value, variadic bool) string {
	sent := r.sent[seq]
	var parts []string
	for i, g := range got {
		code := "?"
		if i < len(sent) && same(sent[i], g) {
			code = fmt.Sprintf("%%d", 100*seq+i+1)
		} else if variadic && i == len(got)-1 && i < len(sent) && g.Kind() == reflect.Slice && g.Len() == 1 {
			// the tail re-wrapped: a fresh one-element slice holding the caller's slice
			e := g.Index(0)
			if e.Kind() == reflect.Interface && !e.IsNil() {
				e = e.Elem()
			}
			if same(sent[i], e) {
				code = fmt.Sprintf("W%%d", 100*seq+i+1)
			}
		} else {
			for j, s := range sent {
				if same(s, g) {
					code = fmt.Sprintf("%%d", 100*seq+j+1)
					break
				}
			}
		}
		parts = append(parts, code)
	}
	return strings.Join(parts, ",")
}

func (r *vRun) recordIDs(m string, rec reflect.Value, before int) (string, int) {
	// a record is a struct with one field per parameter: find the call whose arguments it holds
	var seqs []int
	for seq := range r.sent {
		seqs = append(seqs, seq)
	}
	sort.Sort(sort.Reverse(sort.IntSlice(seqs)))
	for _, seq := range seqs {
		sent := r.sent[seq]
		if len(sent) != rec.NumField() || r.norecord[seq] || seq >= before {
			continue
		}
		if _, ok := r.callOf[seq]; !ok || r.callOf[seq] != m {
			continue
		}
		all := true
		for i := 0; i < rec.NumField(); i++ {
			if !same(sent[i], rec.Field(i)) {
				all = false
				break
			}
		}
		if all {
			var ids []string
			for i := range sent {
				ids = append(ids, fmt.Sprintf("%%d", 100*seq+i+1))
			}
			return "[" + strings.Join(ids, ",") + "]", seq
		}
	}
	return "[?]", before
}

// records of one method appear in the order their calls started and are the most recent
// ones: match from the end, each against the latest not yet used call (values such as bools
// cannot be told apart otherwise)
func (r *vRun) snapshotText(m string, s reflect.Value, maxseq int) string {
	recs := make([]string, s.Len())
	before := maxseq + 1
	for i := s.Len() - 1; i >= 0; i-- {
		recs[i], before = r.recordIDs(m, s.Index(i), before)
	}
	return strings.Join(recs, "")
}

func (r *vRun) curSeq() int {
	mx := 0
	for s := range r.sent {
		if s > mx {
			mx = s
		}
	}
	return mx
}

func (r *vRun) do(op vOp) {
	switch op.Op {
	case "call":
		meth := r.mock.MethodByName(op.M)
		ft := r.funcField(op.M).Type()
		args := make([]reflect.Value, ft.NumIn())
		for i := range args {
			args[i] = r.mkval(ft.In(i), 0)
		}
		r.mu.Lock()
		r.sent[op.Seq] = args
		r.callOf[op.Seq] = op.M
		r.mu.Unlock()
		switch op.F {
		case "nil":
			r.funcField(op.M).Set(reflect.Zero(ft))
		default:
			seq, f, cb := op.Seq, op.F, op.CB
			r.funcField(op.M).Set(reflect.MakeFunc(ft, func(got []reflect.Value) []reflect.Value {
				r.emit("I %%s %%s", op.M, r.matchArgs(seq, got, ft.IsVariadic()))
				for _, c := range cb {
					r.do(c)
				}
				if f == "panic" {
					panic(fmt.Sprintf("user-panic-%%d", seq))
				}
				out := make([]reflect.Value, ft.NumOut())
				for i := range out {
					out[i] = r.mkval(ft.Out(i), 0)
				}
				r.mu.Lock()
				r.rets[seq] = out
				r.mu.Unlock()
				return out
			}))
		}
		func() {
			defer func() {
				if p := recover(); p != nil {
					msg := fmt.Sprint(p)
					if strings.HasPrefix(msg, "user-panic-") {
						r.emit("P %%s user", op.M)
					} else {
						r.mu.Lock()
						r.norecord[op.Seq] = true // the nil check panicked before anything was recorded
						r.mu.Unlock()
						r.emit("P %%s nil %%s", op.M, msg)
					}
				}
			}()
			var res []reflect.Value
			if ft.IsVariadic() {
				res = meth.CallSlice(args)
			} else {
				res = meth.Call(args)
			}
			want, have := r.rets[op.Seq], "ok"
			if len(res) == 0 {
				r.emit("R %%s 0 ok", op.M)
				return
			}
			if op.F == "nil" {
				for i, x := range res {
					if !reflect.DeepEqual(x.Interface(), reflect.Zero(ft.Out(i)).Interface()) {
						have = "nonzero"
					}
				}
				r.emit("R %%s zero%%d %%s", op.M, len(res), have)
				return
			}
			if len(want) != len(res) {
				have = "count"
			} else {
				for i := range res {
					if !same(want[i], res[i]) {
						have = "differs"
					}
				}
			}
			r.emit("R %%s %%d %%s", op.M, len(res), have)
		}()
	case "calls":
		res := r.mock.MethodByName(op.M + "Calls").Call(nil)
		r.mu.Lock()
		mx := r.curSeq()
		r.snaps = append(r.snaps, vSnap{op.M, res[0], mx})
		r.mu.Unlock()
		r.emit("S %%s %%s", op.M, r.snapshotText(op.M, res[0], mx))
	case "reset":
		r.mock.MethodByName("Reset" + op.M + "Calls").Call(nil)
		r.emit("X %%s", op.M)
	case "resetall":
		r.mock.MethodByName("ResetCalls").Call(nil)
		r.emit("X *")
	}
}

func vRunHistory(h vHistory) (res vResult) {
	res.Mock = h.Mock
	mk, ok := vMocks[h.Mock]
	if !ok {
		res.Error = "unknown mock"
		return
	}
	r := &vRun{mock: reflect.ValueOf(mk()), sent: map[int][]reflect.Value{}, rets: map[int][]reflect.Value{},
		callOf: map[int]string{}, norecord: map[int]bool{}}
	done := make(chan struct{})
	go func() {
		defer close(done)
		defer func() {
			if p := recover(); p != nil {
				res.Error = fmt.Sprint("driver panic: ", p)
			}
		}()
		for _, op := range h.Ops {
			r.do(op)
		}
	}()
	select {
	case <-done:
	case <-time.After(20 * time.Second):
		res.Error = "deadlock or hang: history did not finish in 20s"
		res.Trace = r.trace
		return
	}
	res.Trace = r.trace
	for _, s := range r.snaps {
		res.Final = append(res.Final, fmt.Sprintf("S %%s %%s", s.m, r.snapshotText(s.m, s.val, s.maxseq)))
	}
	return
}

func TestVerifDriver(t *testing.T) {
	raw, err := os.ReadFile(os.Getenv("VERIF_HISTORIES"))
	if err != nil {
		t.Skip("no histories")
	}
	var hs []vHistory
	if err := json.Unmarshal(raw, &hs); err != nil {
		t.Fatal(err)
	}
	var out []vResult
	for _, h := range hs {
		out = append(out, vRunHistory(h))
	}
	b, _ := json.Marshal(out)
	os.WriteFile(os.Getenv("VERIF_TRACES"), b, 0o644)
}

// TestVerifConcurrent hammers one mock from many goroutines (calls, reads, resets and
// re-entrant callbacks); the race detector and the watchdog are the oracles, plus the
// quiescent-state accounting of C05.
func TestVerifConcurrent(t *testing.T) {
	raw, err := os.ReadFile(os.Getenv("VERIF_HISTORIES"))
	if err != nil {
		t.Skip("no histories")
	}
	var hs []vHistory
	json.Unmarshal(raw, &hs)
	seen := map[string]bool{}
	var report []string
	for _, h := range hs {
		if seen[h.Mock] {
			continue
		}
		seen[h.Mock] = true
		mk := vMocks[h.Mock]
		if mk == nil {
			continue
		}
		mock := reflect.ValueOf(mk())
		st := mock.Elem().Type()
		var methods []string
		for i := 0; i < st.NumField(); i++ {
			if strings.HasSuffix(st.Field(i).Name, "Func") && st.Field(i).Type.Kind() == reflect.Func {
				methods = append(methods, strings.TrimSuffix(st.Field(i).Name, "Func"))
			}
		}
		if len(methods) == 0 {
			continue
		}
		hasReset := mock.MethodByName("ResetCalls").IsValid()
		// functions: return zeros; every third call re-enters the mock (accessor + another call)
		var depth sync.Map
		for _, m := range methods {
			m := m
			ft := mock.Elem().FieldByName(m + "Func").Type()
			mock.Elem().FieldByName(m + "Func").Set(reflect.MakeFunc(ft, func(args []reflect.Value) []reflect.Value {
				if _, loaded := depth.LoadOrStore(fmt.Sprintf("%%p", &args), true); !loaded {
					mock.MethodByName(m + "Calls").Call(nil)
				}
				out := make([]reflect.Value, ft.NumOut())
				for i := range out {
					out[i] = reflect.Zero(ft.Out(i))
				}
				return out
			}))
		}
		const G, N = 8, 40
		var wg sync.WaitGroup
		done := make(chan struct{})
		calls := make([]map[string]int, G)
		for g := 0; g < G; g++ {
			calls[g] = map[string]int{}
			wg.Add(1)
			go func(g int) {
				defer wg.Done()
				for i := 0; i < N; i++ {
					m := methods[(g+i)%%len(methods)]
					ft := mock.Elem().FieldByName(m + "Func").Type()
					args := make([]reflect.Value, ft.NumIn())
					for k := range args {
						args[k] = reflect.Zero(ft.In(k))
					}
					switch {
					case i%%7 == 3:
						s := mock.MethodByName(m + "Calls").Call(nil)[0]
						for k := 0; k < s.Len(); k++ {
							_ = s.Index(k).Interface() // read every record of the snapshot
						}
					case hasReset && g == 0 && i%%13 == 5:
						mock.MethodByName("Reset" + m + "Calls").Call(nil)
					case hasReset && g == 1 && i == N/2:
						mock.MethodByName("ResetCalls").Call(nil)
					default:
						if ft.IsVariadic() {
							mock.MethodByName(m).CallSlice(args)
						} else {
							mock.MethodByName(m).Call(args)
						}
						calls[g][m]++
					}
				}
			}(g)
		}
		go func() { wg.Wait(); close(done) }()
		select {
		case <-done:
		case <-time.After(30 * time.Second):
			t.Errorf("VERIF-DEADLOCK mock=%%s: concurrent use did not finish in 30s", h.Mock)
			report = append(report, "deadlock "+h.Mock)
			continue
		}
		if !hasReset {
			for _, m := range methods {
				total := 0
				for g := 0; g < G; g++ {
					total += calls[g][m]
				}
				n := mock.MethodByName(m + "Calls").Call(nil)[0].Len()
				if n != total {
					t.Errorf("VERIF-LOST mock=%%s method=%%s: %%d calls made, %%d records", h.Mock, m, total, n)
				}
			}
		}
	}
	_ = report
}
'''
