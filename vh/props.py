"""Property table and the common decision procedure."""
import json
import os
import re
import time

from . import common as C
from . import oracles as O
from . import stage_cli, stage_gen, stage_l1, stage_mock

IMPORTS_ALL = ("From Moq Require Import Strs GoTypes TypeString VarName Registry Scope Gen TmplAst TmplExec "
               "MockSem MockSpec MockSeq_Proofs WellScoped.\n")

TRUSTED_BASE = [
    "Coq 8.16.1 kernel incl. its vm_compute virtual machine (no native_compute, no extraction)",
    "axioms: none (Print Assumptions of every property theorem is recorded per run)",
    "translator `vh trans` (Go): string tables, template parse tree (via text/template/parse), statement skeletons",
    "dumper (go/types -> model input), lifter (generated Go -> MockSem instructions), facts extractor (Go)",
    "hand-written Coq model of registry.go/package.go/method_scope.go/var.go/moq.go/template_data.go and of "
    "types.TypeString, text/template (subset), strings.Replacer, ASCII case mapping: tied to /repo by the "
    "byte-exact -fmt noop correspondence on every run",
    "L1 driver (Go, harness/cmd/vh/l1.go): builds synthetic go/types objects, drives the real internal/registry "
    "package through its exported API and writes the same history as a Coq term for L1Check.v",
    "go/types as the meaning of 'compiles'; go/packages loading, go list, the Go toolchain: not modelled",
]


class Ctx:
    def __init__(self, pid, tier, seed, t0):
        self.pid, self.tier, self.seed, self.t0 = pid, tier, seed, t0
        self.tools = None
        self.unbuilt = set()
        self.coq_log = ""


def thm(name, file):
    # pin_* theorems only TIE a hand-written model to the source text it was written from; when one
    # breaks, the model is still tied by the correspondence that always runs at full volume (DESIGN 2.4)
    return dict(name=name, file=file, tie=name.startswith("pin_"))


GEN_MODEL_FILES = ["Strs.v", "GoTypes.v", "TypeString.v", "VarName.v", "Registry.v", "Scope.v", "Gen.v",
                   "TmplAst.v", "TmplExec.v", "gen/Tables.v", "gen/TemplateSrc.v", "WellScoped.v", "L2Check.v", "L1Check.v", "Benign.v"]
MOCK_MODEL_FILES = ["Strs.v", "MockSem.v", "MockSpec.v", "MockSeq_Proofs.v", "MockCheck.v", "P_C07.v",
                    "gen/TemplateSrc.v", "TmplAst.v"]

ALL_FAMILIES = ["names_distinct", "fields_distinct", "names_body_idents", "names_keywords", "names_shadow_types",
                "names_qualifiers", "names_tparams", "method_name_clash", "tparams_clash",
                "alias_duplicate", "alias_not_identifier", "import_path_twice", "mock_name_twice",
                "walk_incomplete", "self_check_not_instantiable", "constraint_unqualified_printer",
                "not_a_method_set_interface", "unexported_foreign", "explicit_same_pkg"]

# families whose presence makes the emitted Go not parse/lift as a mock at all
STRUCTURE_FAMILIES = ["method_name_clash", "names_body_idents", "mock_name_twice", "names_keywords",
                      "names_distinct", "fields_distinct", "names_tparams", "names_shadow_types", "names_qualifiers"]

PROPS = {
    "C01": dict(kind="gen", files=["P_C01.v", "GoTypes_Proofs.v", "Registry_Proofs.v", "P_C11.v", "P_C11_exact.v", "Imports_Proofs.v", "Printer_Proofs.v"], theorems=[thm("C11_exact_no_missing", "P_C11_exact"), thm("C11_exact_nothing_else", "P_C11_exact"), thm("C11_printer_consults_mentions", "P_C11_exact"), thm("C01_walk_visits_what_is_printed", "P_C01"), thm("populate_covers", "P_C01"), thm("C01_import_paths_sound", "P_C01"), thm("C01_refuted", "P_C01"), thm("C01_tparam_fixed", "P_C01"), thm("rest_region_closed", "TmplRegion_rest"), thm("refs_eq_mentions_fixed", "GoTypes_Proofs")], oracle=O.o_c01, known=ALL_FAMILIES),
    "C02": dict(kind="gen", files=["P_C02.v", "P_C20.v", "P_C20_whole.v", "WholeRun_Proofs.v"], theorems=[thm("C02_whole_run_signatures", "P_C20_whole"), thm("C02_method_signature", "P_C02"), thm("C02_func_field_same_strings", "P_C02"), thm("C02_variadic_spelling", "P_C02"), thm("C02_method_arg", "P_C02")], oracle=O.o_c02,
                known=["unexported_foreign", "not_a_method_set_interface", "method_name_clash", "mock_name_twice",
                       ]),
    "C03": dict(kind="mock", files=["P_C03.v", "TmplClosed.v", "TmplRegions.v"], need="B",
                theorems=[thm("C03_call_core", "P_C03"), thm("C03_once_and_forward", "P_C03"),
                          thm("C03_plain_call", "P_C03"), thm("C03_histories", "P_C03"),
                          thm("method_region_closed", "TmplRegion_method")]),
    "C04": dict(kind="mock", files=["P_C04.v", "TmplClosed.v", "TmplRegions.v"], need="BARXNC",
                theorems=[thm("C04_zero_value", "P_C04"), thm("C04_refines_list", "P_C04"),
                          thm("C04_record_shape", "P_C04"), thm("C04_before_func", "P_C04"),
                          thm("C04_recorded_despite_panic", "P_C04"), thm("C04_snapshot_stable", "P_C04"),
                          thm("canonical_components", "MockCheck"),
                          thm("method_region_closed", "TmplRegion_method"), thm("accessor_region_closed", "TmplRegion_accessor"), thm("reset_region_closed", "TmplRegion_reset")]),
    "C05": dict(kind="mock", files=["P_C05.v", "MockConc.v", "MockConc_Proofs.v", "MockAcct_Proofs.v", "TmplClosed.v", "TmplRegions.v"],
                need="DBARXNC",
                theorems=[thm("C05_no_data_race", "P_C05"), thm("C05_access_under_lock", "P_C05"),
                          thm("C05_atomic_logs", "P_C05"), thm("C05_snapshots_never_change", "P_C05"),
                          thm("C05_prefix_between_resets", "P_C05"),
                          thm("C05_every_call_recorded_once", "P_C05"), thm("C05_quiescent", "P_C05"),
                          thm("C05_count", "P_C05"),
                          thm("method_region_closed", "TmplRegion_method"), thm("accessor_region_closed", "TmplRegion_accessor"), thm("reset_region_closed", "TmplRegion_reset")]),
    "C06": dict(kind="mock", files=["P_C06.v", "MockConc.v", "MockConc_Proofs.v", "TmplClosed.v", "TmplRegions.v"], need="D",
                theorems=[thm("C06_callback_holds_no_lock", "P_C06"), thm("C06_never_two_locks", "P_C06"),
                          thm("C06_deadlock_free", "P_C06"), thm("C06_reentrancy", "P_C06"),
                          thm("method_region_closed", "TmplRegion_method"), thm("accessor_region_closed", "TmplRegion_accessor"), thm("reset_region_closed", "TmplRegion_reset")]),
    "C07": dict(kind="mock", files=["P_C07.v", "TmplClosed.v", "TmplRegions.v"], need="BM",
                theorems=[thm("C07_panic", "P_C07"), thm("C07_panic_names", "P_C07"), thm("C07_stub", "P_C07"),
                          thm("method_region_closed", "TmplRegion_method")]),
    "C08": dict(kind="mock", files=["P_C08.v", "TmplClosed.v", "TmplRegions.v"], need="BARXNC",
                theorems=[thm("C08_presence", "P_C08"), thm("C08_reset_one", "P_C08"),
                          thm("C08_reset_all", "P_C08"), thm("C08_restart", "P_C08"),
                          thm("canonical_components", "MockCheck"),
                          thm("method_region_closed", "TmplRegion_method"), thm("accessor_region_closed", "TmplRegion_accessor"), thm("reset_region_closed", "TmplRegion_reset")]),
    "C09": dict(kind="gen", files=["P_C09.v", "P_C02.v", "P_C20.v", "P_C09_whole.v", "C09Run_Proofs.v"], theorems=[thm("C09_whole_run_tparams", "P_C09_whole"), thm("C09_whole_run_count", "P_C09_whole"), thm("C09_whole_run_example", "P_C09_whole"), thm("C09_tparams_shape", "P_C09"), thm("C09_tparams_count", "P_C09"), thm("C09_instances", "P_C09"), thm("C09_explicit_constraint", "P_C09"), thm("C09_tparam_names_verbatim", "P_C09"), thm("C09_comparable_fixed", "P_C09"), thm("C09_explicit_wins", "P_C09"), thm("C09_selfcheck_refuted", "P_C09")], oracle=O.o_c09,
                known=["self_check_not_instantiable", "constraint_unqualified_printer",
                       "walk_incomplete", "tparams_clash", "names_tparams", "not_a_method_set_interface",
                       "mock_name_twice", "method_name_clash", "unexported_foreign"]),
    "C10": dict(kind="gen", files=["P_C10.v", "P_C11.v", "Registry_Proofs.v", "P_C11_exact.v", "Imports_Proofs.v", "Printer_Proofs.v"], theorems=[thm("C10_skip_ensure_exact", "P_C11_exact"), thm("C10_types_qualified_through_their_import", "P_C11_exact"), thm("C10_infer", "P_C10"), thm("C10_same_no_self_import", "P_C10"), thm("C10_same_bare", "P_C10"), thm("C10_other_imports_source", "P_C10"), thm("C10_skip_qualifier", "P_C10"), thm("C10_explicit_same_refuted", "P_C10")], oracle=O.o_c10,
                known=["explicit_same_pkg", "unexported_foreign"]),
    "C11": dict(kind="gen", files=["P_C11.v", "Registry_Proofs.v", "P_C11_distinct.v", "Distinct_Proofs.v", "P_C11_exact.v", "Imports_Proofs.v", "Printer_Proofs.v"], theorems=[thm("C11_exact", "P_C11_exact"), thm("C11_distinct_known", "P_C11_distinct"), thm("C11_distinct_no_conflict", "P_C11_distinct"), thm("C11_distinct_direct", "P_C11_distinct"), thm("C11_distinct_direct_example", "P_C11_distinct"), thm("C11_distinct_step", "P_C11_distinct"), thm("C11_distinct_whole_run", "P_C11_distinct"), thm("C11_distinct_guard_holds", "P_C11_distinct"), thm("C11_exact_no_missing", "P_C11_exact"), thm("C11_exact_nothing_else", "P_C11_exact"), thm("C11_printer_consults_mentions", "P_C11_exact"), thm("C11_walk_covers_printer", "P_C11_exact"), thm("C11_exact_premise_holds", "P_C11_exact"), thm("C11_once", "P_C11"), thm("C11_sorted", "P_C11"), thm("C11_never_imports_destination", "P_C11"), thm("C11_keep_alias", "P_C11"), thm("C11_no_dot_blank", "P_C11"), thm("C11_vendor_example", "P_C11"), thm("C11_sync_when_methods", "P_C11"), thm("C11_distinct_refuted", "P_C11"), thm("C11_identifier_refuted", "P_C11")], oracle=O.o_c11,
                known=["alias_duplicate", "alias_not_identifier", "walk_incomplete", "explicit_same_pkg"]),
    "C12": dict(kind="gen", files=["P_C12.v", "P_C19.v", "P_C12_names.v", "Names_Proofs.v"], theorems=[thm("C12_type_derived_name_is_identifier", "P_C12_names"), thm("C12_var_name_is_identifier", "P_C12_names"), thm("C12_add_var_names_are_identifiers", "P_C12_names"), thm("C12_distinct_whole_run", "P_C12_names"), thm("C12_distinct_guard_holds", "P_C12_names"), thm("C12_reserved_covers_keywords", "P_C12"), thm("C12_reserved_covers_basic_types", "P_C12"), thm("C12_suffix_escapes_table", "P_C12"), thm("C12_generated_not_reserved", "P_C12"), thm("C12_fresh", "P_C12"), thm("C12_numbering_keeps_distinct", "P_C12"), thm("C12_add_var_keeps_distinct", "P_C12"), thm("C12_number_two_fixed", "P_C12"), thm("C12_user_reserved_fixed", "P_C12"), thm("C12_user_reserved_refuted", "P_C12"), thm("C12_fields_refuted", "P_C12"), thm("C12_numbering_crash_fixed", "P_C12")], oracle=O.o_c12,
                known=["names_distinct", "fields_distinct", "names_body_idents", "names_keywords",
                       "names_shadow_types", "names_qualifiers", "names_tparams", "tparams_clash",
                       "mock_name_twice", "method_name_clash"]),
    "C13": dict(kind="gen", files=["P_C13.v", "P_C12_names.v", "Names_Proofs.v"],
                theorems=[thm("C13_unsafe_pointer_fixed", "P_C12_names"), thm("C13_exported_spec", "P_C13"), thm("C13_table", "P_C13"),
                          thm("C13_initialism_any_case", "P_C13"), thm("C13_unnamed_rule", "P_C13"),
                          thm("C13_user_name_verbatim", "P_C13"), thm("C13_user_name_body_idents", "P_C13"), thm("C13_kept_partial", "P_C13")],
                oracle=O.o_c13, known=["transient_qualifier_rename"]),
    "C14": dict(kind="gen", files=["Sites_Proofs.v", "gen/Sites.v", "P_C14.v", "Registry_Proofs.v"],
                theorems=[thm("C14_map_range_sites", "Sites_Proofs"), thm("C14_imports_order", "P_C14"),
                          thm("C14_search_order_free", "P_C14"), thm("C14_renames_order_free", "P_C14"),
                          thm("C14_renames_refuted", "P_C14"), thm("C14_var_quals_order_free", "P_C14"), thm("C14_renames_fixed", "P_C14")],
                oracle=O.o_c14,
                known=["rename_order_dependent"]),
    "C15": dict(kind="cli", files=["Cli.v", "Cli_Proofs.v", "Regen_Proofs.v", "P_C15.v"],
                theorems=[thm("C15_rm", "Cli_Proofs"), thm("C15_regen_fixed_point_partial", "P_C15"),
                          thm("C15_run_reads_aliases_by_lookup", "P_C15"), thm("C15_premises_hold", "P_C15"),
                          thm("C15_full_statement_refuted", "P_C15"), thm("pin_main_run", "Pin_main_run"),
                          thm("pin_moq_new", "Pin_moq_new")]),
    "C16": dict(kind="gen", files=["Cli.v", "Cli_Proofs.v", "TmplMarker.v", ],
                theorems=[thm("C16_dispatch", "Cli_Proofs"), thm("C16_noop_then_gofmt", "Cli_Proofs"),
                          thm("C16_canonical", "Cli_Proofs"), thm("pin_mocker_format", "Pin_mocker_format"),
                          thm("pin_gofmt", "Pin_gofmt"), thm("pin_goimports", "Pin_goimports"),
                          thm("moq_template_marker_first", "TmplMarker"),
                          thm("C16_marker_first_line", "TmplMarker")],
                oracle=O.o_c16, known=["goimports_sibling_capture"]),
    "C17": dict(kind="cli", files=["Cli.v", "Cli_Proofs.v", ],
                theorems=[thm("C17_fail_no_stdout", "Cli_Proofs"), thm("C17_fail_out_untouched", "Cli_Proofs"),
                          thm("C17_success", "Cli_Proofs"), thm("C17_write_refuted", "Cli_Proofs"),
                          thm("pin_main_run", "Pin_main_run"), thm("pin_main_main", "Pin_main_main"),
                          thm("pin_mocker_mock", "Pin_mocker_mock")]),
    "C18": dict(kind="cli", files=["Cli.v", "Cli_Proofs.v", "Sites_Proofs.v", "gen/Sites.v", ],
                theorems=[thm("C18_frame", "Cli_Proofs"), thm("C18_prefixes_only_created", "Cli_Proofs"),
                          thm("C18_no_out", "Cli_Proofs"), thm("C18_effect_alphabet", "Sites_Proofs"),
                          thm("pin_main_run", "Pin_main_run"), thm("pin_moq_new", "Pin_moq_new")]),
    "C19": dict(kind="gen", files=["P_C19.v"], theorems=[thm("C19_numbering_terminates", "P_C19"), thm("C19_numbering_total", "P_C19"), thm("C19_numbering_never_out_of_fuel", "P_C19"), thm("C19_alias_diverges_refuted", "P_C19"), thm("C19_alias_diverges_at_add_import", "P_C19"), thm("C19_alias_diverges_concatenation", "P_C19"), thm("C19_error_not_found", "P_C19"), thm("C19_error_not_interface", "P_C19"), thm("C19_error_no_arguments", "P_C19"), thm("C19_no_slice_panic", "P_C19"), thm("C19_variadic_slice_in_range", "P_C19"), thm("C19_run_settled", "P_C19"), thm("C19_run_never_crashes", "P_C19"), thm("C19_resolve_fuel_irrelevant", "P_C19")], oracle=O.o_c19, known=["alias_resolution_diverges"]),
    "C20": dict(kind="gen", files=["P_C20.v", "P_C20_whole.v", "WholeRun_Proofs.v"], theorems=[thm("C20_alone_or_together", "P_C20_whole"), thm("C20_premises_hold", "P_C20_whole"), thm("C20_parse_plain", "P_C20"), thm("C20_parse_alias", "P_C20"), thm("C20_count_order_names", "P_C20"), thm("C20_count", "P_C20"), thm("C20_method_types_independent", "P_C20")], oracle=O.o_c20, known=[]),
}

OK_VERDICTS = {"ok", "ok-proj", "ok-err", "ok-diverges", "ok-crash", "skip-order"}


def proj_sections(text, sep, names=None):
    out = dict(pkg=[], imp=[], mock=[], tp=[], m=[], pname=[], ptype=[], ptype_unq=[], r=[], r_unq=[],
               ptype_res=[], r_res=[], tp_res=[])
    cur = ""
    lines = [" ".join(x.split()) for x in text.split(sep) if x.strip()]
    # qualifier -> import path, from this projection's own import block: types compared "as types"
    table = {}
    for raw in [x for x in text.split(sep) if x.strip()]:
        m = re.match(r"\s*imp (\S*) (\S+)\s*$", raw) or re.match(r"\s*imp ()(\S+)\s*$", raw)
        if m:
            alias, path = m.group(1), m.group(2)
            table[alias or (names or {}).get(path) or path.rsplit("/", 1)[-1]] = path

    def res(ty):
        return re.sub(r"([A-Za-z_][A-Za-z0-9_]*)\.", lambda mm: "<%s>." % table.get(mm.group(1), "?" + mm.group(1)), ty)
    for line in lines:
        f = line.split(" ")
        k = f[0]
        if k == "pkg":
            out["pkg"].append(line)
        elif k == "imp":
            out["imp"].append(line)
        elif k == "mock":
            cur = f[1] if len(f) > 1 else ""
            out["mock"].append(line)
        elif k == "tp":
            out["tp"].append(cur + " " + line)
            out["tp_res"].append(cur + " " + res(line))
        elif k == "m":
            cur_m = f[1] if len(f) > 1 else ""
            out["m"].append(cur + " " + line)
        elif k == "imp":
            out["imp"].append(line)
        elif k == "p":
            name, ty = (f[1], f[2]) if len(f) > 2 else ("", f[1] if len(f) > 1 else "")
            out["pname"].append(name)
            out["ptype"].append(ty)
            out["ptype_unq"].append(re.sub(r"[A-Za-z_][A-Za-z0-9_]*\.", "", ty))
            out["ptype_res"].append(res(ty))
        elif k == "r":
            ty = f[1] if len(f) > 1 else ""
            out["r"].append(ty)
            out["r_unq"].append(re.sub(r"[A-Za-z_][A-Za-z0-9_]*\.", "", ty))
            out["r_res"].append(res(ty))
    return out


# which parts of the generated structure a property is about
RELEVANT_DIFF = {
    "C01": None,                                              # anything
    "C14": set(), "C16": set(), "C19": set(),                 # decided by their own oracles
    "C02": {"m", "ptype_res", "r_res", "mock"},                # types as types: qualifiers resolved to paths
    "C09": {"tp", "ptype_res", "r_res"},
    "C10": {"pkg", "imp", "ptype", "r"},
    "C11": {"imp"},
    "C12": {"pname", "imp"},
    "C13": {"pname"},
    "C20": {"mock", "m"},
}


def diff_kinds(cr):
    mp, op = cr.get("model_proj"), cr.get("observed_proj")
    if not mp or not op:
        return None
    names = cr.get("pkg_names") or {}
    a, b = proj_sections(mp, ";;", names), proj_sections(op, "\n", names)
    return set(k for k in a if a[k] != b[k])


def first_difference(model, observed):
    """the kind of the first trace event on which two traces differ"""
    if observed.startswith("ERROR"):
        return "ERROR"
    a, b = model.replace("#", ";").split(";"), observed.replace("#", ";").split(";")
    for x, y in zip(a, b):
        if x != y:
            t = (y or x).split(" ")
            k = t[0]
            if k == "P":
                return "Pn" if len(t) > 2 and t[2] == "nil" else "Pu"
            if k == "R":
                return "Rz" if len(t) > 2 and t[2].startswith("zero") else "R"
            return k
    return "S" if len(a) != len(b) else "?"


def coq_obligations(ctx, spec):
    """every theorem of the property must have been compiled by the kernel in a full .vo
    build and be closed under the global context (or depend only on named stdlib axioms)"""
    obs = []
    bad = C.forbidden_scan()
    obs.append(dict(name="no Admitted/admit/Axiom/Parameter/Conjecture/unsafe flags in the development",
                    ok=not bad, detail="; ".join(bad[:5])))
    needed = set(spec.get("files") or [])
    needed |= set({"gen": GEN_MODEL_FILES, "mock": MOCK_MODEL_FILES, "cli": ["Strs.v"]}[spec["kind"]])
    missing = sorted(f for f in needed if f in ctx.unbuilt)
    obs.append(dict(name="model and proof files of this property compile (full .vo build)", ok=not missing,
                    detail="not compiled: " + ", ".join(missing) if missing else ""))
    if ctx.tier == "thorough":
        ck = C.coqchk_all(ctx.tools.key)
        obs.append(dict(name="coqchk (independent checker) accepts every compiled file of the development; axioms: none",
                        ok=(ck["rc"] == 0 and ck["axioms"] == "<none>"),
                        detail="coqchk rc=%s axioms=%s (%ss)" % (ck["rc"], ck["axioms"], ck["seconds"])))
    thms = spec.get("theorems") or []
    if thms:
        res = C.print_assumptions([(t["name"], "From Moq Require Import %s.\n" % t["file"]) for t in thms], "")
        for t in thms:
            txt = res.get(t["name"])
            ok = txt is not None and "Closed under the global context" in txt
            obs.append(dict(name="theorem %s (%s.v) checked, no axioms" % (t["name"], t["file"]), ok=ok,
                            tie=t.get("tie", False), detail=(txt or "theorem does not check")[:300]))
    return obs


def sample_case(cr):
    c = cr["case"]
    return dict(id=c["id"], args=c["args"], pkg=c["pkg"], stub=c["stub"], skip=c["skip"], resets=c["resets"],
                impl=cr["kind"], model_vs_impl=cr["verdict"], families=cr["families"])


def run(ctx):
    spec = PROPS[ctx.pid]
    known_db = C.load_known_findings()
    listed = [f for f in known_db.get("findings", []) if ctx.pid in f.get("properties", [])]
    listed_families = set(f["family"] for f in listed)
    obligations = coq_obligations(ctx, spec)
    if spec["kind"] == "cli":
        return run_cli(ctx, spec, obligations, listed)
    st = stage_gen.run(ctx.tools, ctx.seed, ctx.tier)
    cases = st["cases"]
    corr_breaks, failures, known_hits, notes = [], [], {}, []
    evaluated, nontrivial = 0, set()

    if st["errors"]:
        corr_breaks.append(dict(what="Coq evaluation of the cases failed", detail=st["errors"][0][-500:]))

    if spec["kind"] == "gen":
        for cr in cases:
            if cr["kind"] in ("skipped", "dump"):
                continue          # no observation of the implementation
            evaluated += 1
            if cr["verdict"] is None:
                # outside the model (the harness says why): no correspondence, the oracle still applies
                notes.append("%s: not comparable with the model (%s); oracle only" % (cr["case"]["id"], cr.get("skipped")))
            elif cr["verdict"] == "ok-proj" and (ctx.pid in ("C01", "C02", "C09", "C10") or (ctx.pid == "C12" and cr["case"]["stub"])):
                # the real bytes are not the model's although every projected part agrees: the difference is in
                # what the projection leaves out (the self-check line, result names of the -stub block, bodies)
                corr_breaks.append(dict(what="model and implementation agree on the structural projection but not byte "
                                             "for byte (ok-proj): a difference outside the projection",
                                        case=sample_case(cr)))
            elif cr["verdict"] not in OK_VERDICTS:
                kinds = diff_kinds(cr) if cr["verdict"] == "DIFF-structure" else None
                rel = RELEVANT_DIFF.get(ctx.pid)
                unparsable = bool((cr.get("facts") or {}).get("parse_error"))
                if unparsable and ctx.pid not in ("C01", "C02", "C16"):
                    notes.append("%s: the real output does not parse; that is reported by C01/C02/C16" % cr["case"]["id"])
                elif kinds is None or rel is None or (kinds & rel):
                    corr_breaks.append(dict(what="model and implementation disagree (%s%s)" %
                                            (cr["verdict"], "" if kinds is None else ": " + ",".join(sorted(kinds))),
                                            case=sample_case(cr)))
                else:
                    notes.append("%s: model and implementation differ only in %s, which this property is not about"
                                 % (cr["case"]["id"], ",".join(sorted(kinds))))
            fails = spec["oracle"](cr)
            key = json.dumps([cr["case"]["args"], cr["case"]["pkg"], cr["case"]["stub"], cr["case"]["skip"],
                              cr["case"]["resets"], sorted((cr.get("src") or {}).items())], sort_keys=True)
            if cr["kind"] == "out" and (cr["facts"].get("mocks") or []):
                nontrivial.add(key)
            fams = set(cr["families"])
            # findings the oracle recognises on the output itself only count where the model (the behaviour
            # the finding was described on) and the implementation agree
            agrees = cr["verdict"] in OK_VERDICTS
            for _, sym in fails:
                if sym in ("transient_qualifier_rename", "goimports_sibling_capture") and agrees:
                    fams.add(sym)
            if cr["verdict"] == "ok-diverges":
                fams.add("alias_resolution_diverges")
            if cr["verdict"] == "ok-crash":
                fams.add("numbering_nil_deref")
            if fails:
                # an output whose declarations clash cannot be read reliably by the facts extractor
                explained = fams & (set(spec["known"]) | {"method_name_clash", "mock_name_twice"})
                # a known family explains a failure only where the implementation does what the model -- on which
                # the family was described -- does; where they disagree, the failure is the implementation's own
                disagrees = cr["verdict"] is not None and (cr["verdict"] not in OK_VERDICTS or cr["verdict"] == "ok-proj")
                if disagrees:
                    explained = set()
                # a failure that is nothing but a go/types diagnostic, on an input of a listed family that
                # keeps the output from compiling, is that finding (whichever property's oracle meets it)
                terrs = set(e[:200] for e in (cr["facts"].get("type_errors") or []))
                if not explained and not disagrees and all(sym in terrs for _, sym in fails):
                    explained = fams & set(ALL_FAMILIES)
                if explained and (explained & listed_families):
                    for fam in explained & listed_families:
                        known_hits.setdefault(fam, []).append(cr["case"]["id"])
                else:
                    failures.append(dict(case=cr, fails=fails, families=sorted(fams)))
            elif fams & set(spec["known"]) and ctx.pid == "C01":
                notes.append("model predicts %s but go/types accepts %s" % (sorted(fams), cr["case"]["id"]))
        if ctx.pid == "C12":
            inside = [cr for cr in cases if cr["verdict"] and "outside_names_guard" not in cr["families"]]
            notes.insert(0, "guard of C12_distinct_whole_run (no import-driven rename lands on a taken name): "
                            "%d of %d compared cases are inside it"
                         % (len(inside), sum(1 for cr in cases if cr["verdict"])))
        if ctx.pid == "C11":
            inside = [cr for cr in cases if cr["verdict"] and "outside_benign_guard" not in cr["families"]]
            notes.insert(0, "guard of C11_distinct_whole_run (every AddImport of the run is known / conflict-free / "
                            "directly resolved): %d of %d compared cases are inside it"
                         % (len(inside), sum(1 for cr in cases if cr["verdict"])))
        if ctx.pid in stage_l1.L1_PROPS:
            # L1: the registry / method-scope model against the real internal/registry package on
            # histories of AddImport / AddVar over synthetic go/types objects
            l1 = stage_l1.run(ctx.tools, ctx.seed, ctx.tier)
            if l1["errors"]:
                corr_breaks.append(dict(what="Coq evaluation of the L1 histories failed", detail=l1["errors"][0][-500:]))

            def l1case(h):
                return dict(case=dict(id=h["id"], args=[], pkg="", stub=False, skip=False, resets=False,
                                      history=h.get("history"), observed=h.get("observed")),
                            text=None, facts={}, src={})
            for h in l1["disagreements"]:
                if ctx.pid in stage_l1.about(h["verdict"]):
                    corr_breaks.append(dict(what="L1: the model of registry.go / method_scope.go / var.go and the real "
                                                 "package disagree on a history of AddImport / AddVar (%s)" % h["verdict"],
                                            case=dict(id=h["id"], impl=h["kind"], model_vs_impl=h["verdict"],
                                                      history=h.get("history"), observed=h.get("observed"))))
            if ctx.pid in ("C12", "C13"):
                for h in l1["invalid_names"]:
                    failures.append(dict(case=l1case(h), families=[],
                                         fails=[("AddVar gave a variable a name that is not an identifier: %s"
                                                 % ", ".join(h["names"][:3]), "invalid identifier")]))
            notes.insert(0, "L1: %d histories of AddImport/AddVar on the real registry vs the model: %s; %d variables, "
                         "%d imports" % (l1["n"], l1["verdicts"], l1["stats"].get("vars", 0), l1["stats"].get("imports", 0)))
            evaluated += l1["evaluated"]
            ctx.l1 = dict(histories=l1["n"], evaluated_in_coq=l1["evaluated"], verdicts=l1["verdicts"],
                          variables=l1["stats"].get("vars", 0), imports=l1["stats"].get("imports", 0),
                          scopes=l1["stats"].get("scopes", 0), seconds=l1["seconds"],
                          add_import_by_resolution=l1.get("add_import_classes"),
                          add_import_note="how the model resolves each AddImport of the histories: C11_distinct_known / "
                                          "_no_conflict / _direct cover the first three classes (qualifiers stay distinct); "
                                          "'other' is where D13 and the divergence family live",
                          generator="harness/cmd/vh/l1.go (l1Generate): seeded; 2-8 synthetic packages per history with "
                                    "adversarial paths and names, 1-3 scopes of 1-5 variables over every type "
                                    "constructor, colliding declared names, interleaved AddImport, three source "
                                    "packages with different alias sets, with and without -pkg")
    else:  # mock-structure properties: the Coq checkers on the lifted programs
        need = spec["need"]
        for cr in cases:
            if cr["kind"] == "err" and cr["verdict"] == "DIFF-model-ok" and not (set(cr["families"]) & set(ALL_FAMILIES)):
                # the model generates a mock for this input, the implementation reports an error instead: no
                # mock, so nothing of what the property promises about it.  Reported by the property whose
                # flag selects the part of the template involved (-stub: C07, -with-resets: C08, otherwise C03)
                owner = "C07" if cr["case"]["stub"] else ("C08" if cr["case"]["resets"] else "C03")
                if ctx.pid == owner:
                    failures.append(dict(case=cr, families=sorted(cr["families"]),
                                         fails=[("moq fails on an interface the model generates a mock for (%s): %s"
                                                 % ("-stub" if cr["case"]["stub"] else "flags as given", (cr.get("text") or "")[:160]),
                                                 "no mock generated")]))
            if (cr["kind"] == "out" and (cr.get("facts") or {}).get("parse_error") and cr["verdict"] != "ok"
                    and not (set(cr["families"]) & set(ALL_FAMILIES))):
                # the real output is not the model's output byte for byte and does not parse: there is no mock
                owner = "C07" if cr["case"]["stub"] else ("C08" if cr["case"]["resets"] else "C03")
                if ctx.pid == owner:
                    failures.append(dict(case=cr, families=sorted(cr["families"]),
                                         fails=[("the generated file does not parse (%s): %s"
                                                 % ("-stub" if cr["case"]["stub"] else "flags as given",
                                                    str(cr["facts"].get("parse_error"))[:160]), "no mock generated")]))
            if cr["kind"] == "out" and cr["verdict"] == "ok-proj":
                owner = "C07" if cr["case"]["stub"] else ("C08" if cr["case"]["resets"] else "C03")
                if ctx.pid == owner:
                    corr_breaks.append(dict(what="the real output differs from the model's byte for byte although every "
                                                 "projected part agrees (ok-proj): the method bodies / the -stub block differ",
                                            case=sample_case(cr)))
            if cr["kind"] != "out":
                continue
            evaluated += 1
            canon = cr.get("canon")
            if canon is None:
                continue
            if cr["facts"].get("mocks"):
                nontrivial.add(json.dumps([[m["name"], [x["name"] for x in m.get("methods") or []]]
                                           for m in cr["facts"]["mocks"]] + [cr["case"]["stub"], cr["case"]["resets"]]))
            if all(ch in canon for ch in need):
                continue
            fams = set(cr["families"])
            if cr["verdict"] is not None and (cr["verdict"] not in OK_VERDICTS or cr["verdict"] == "ok-proj"):
                fams = set()          # a known family explains nothing where model and implementation disagree
            if fams & set(STRUCTURE_FAMILIES) and (fams & set(STRUCTURE_FAMILIES)) & listed_families:
                for fam in fams & set(STRUCTURE_FAMILIES) & listed_families:
                    known_hits.setdefault(fam, []).append(cr["case"]["id"])
                continue
            failures.append(dict(case=cr, fails=[("lifted mock program is rejected by the Coq checker (%s, need %s)"
                                                  % (canon, need), "checker")], families=sorted(fams)))
        if ctx.pid == "C07":
            # the zero-value block of -stub must compile: go/types diagnostics located in it
            for cr in cases:
                fx = cr.get("facts") or {}
                pairs = list(zip(fx.get("error_sites") or [], fx.get("type_errors") or []))
                elsewhere = set(e for s, e in pairs if not s.startswith("stub_block:"))
                # a diagnostic of the zero-value block that the rest of the file does not have as well
                own = [(s, e) for s, e in pairs if s.startswith("stub_block:") and e not in elsewhere]
                if own and not (set(cr["families"]) & listed_families):
                    failures.append(dict(case=cr, fails=[("with -stub the zero-value branch of %s does not compile"
                                                          % own[0][0].split(":", 1)[1], own[0][1][:200])],
                                         families=sorted(cr["families"])))
        # runtime: real compiled mocks under histories / race detector, against MockSem
        rt = stage_mock.run(ctx.tools, ctx.seed, ctx.tier)
        if rt["errors"]:
            corr_breaks.append(dict(what="Coq evaluation of the histories failed", detail=rt["errors"][0][-400:]))
        relevant = {"C03": ("I", "R", "Pu"), "C04": ("S",), "C05": (), "C06": ("ERROR",), "C07": ("Pn", "Rz"),
                    "C08": ("X", "S")}[ctx.pid]
        agree = stuck = 0
        for h in rt["histories"]:
            if h["model"] == h["observed"]:
                agree += 1
                continue
            if h["model"] in (None, "STUCK", "NOMOCK") or h["observed"] is None:
                stuck += 1
                continue
            kind = first_difference(h["model"], h["observed"])
            if kind == "ERROR" and "driver panic: reflect" not in h["observed"]:
                kind = relevant[0] if relevant else kind      # the mock itself failed: every runtime property is hit
            if kind in relevant:
                failures.append(dict(case=dict(case=dict(id=h["id"], args=[h["mock"]], pkg="", stub=False, skip=False,
                                                         resets=False, history=h["ops"]),
                                               text=None, facts={}, src={}, model_trace=h["model"],
                                               observed_trace=h["observed"]),
                                     fails=[("real mock and MockSem disagree on a history at a %s event: model %s ... "
                                             "observed %s" % (kind, h["model"][:160], h["observed"][:160]),
                                             "history")], families=[]))
        for pk in rt["packages"]:
            if ctx.pid == "C05" and (pk["races"] or pk["lost"]):
                failures.append(dict(case=dict(case=dict(id=pk["name"], args=list(pk["job"][1]), pkg="", stub=pk["job"][2],
                                                         skip=False, resets=pk["job"][3]), text=None, facts={}, src={}),
                                     fails=[("race detector / record accounting on the real mock under concurrent use: "
                                             "%d races, lost=%s" % (pk["races"], pk["lost"]), pk["tail"][-600:])],
                                     families=[]))
            if ctx.pid in ("C05", "C06") and pk["deadlock"]:
                failures.append(dict(case=dict(case=dict(id=pk["name"], args=list(pk["job"][1]), pkg="", stub=pk["job"][2],
                                                         skip=False, resets=pk["job"][3]), text=None, facts={}, src={}),
                                     fails=[("concurrent use of the real mock deadlocked", pk["tail"][-600:])], families=[]))
        notes.append("runtime: %d histories on real compiled mocks (-race), %d agree with MockSem, %d not runnable "
                     "in the model; %d package copies under the concurrent hammer" %
                     (len(rt["histories"]), agree, stuck, len(rt["packages"])))
        evaluated += len(rt["histories"])

    if ctx.pid in ("C02", "C10"):
        # -pkg equal to the source package's name while -out points into a different package of that name
        cs = stage_cli.run(ctx.tools, ctx.seed, ctx.tier)
        for o in cs["obs"]:
            if o.get("dest_build") is False:
                failures.append(dict(case=dict(case=dict(id=o["name"], args=o["args"], pkg="store", stub=False,
                                                         skip="-skip-ensure" in o["flags"], resets=False,
                                                         flags=o["flags"], out=o["out"]),
                                               text=o.get("out_after"), facts={}, src={}),
                                     fails=[("generated into another package (%s), the mock does not compile there or "
                                             "does not implement the interface" % o["fault"],
                                             (o.get("dest_build_err") or "")[-300:])], families=[]))
            if o.get("dest_build") is not None:
                evaluated += 1
    if ctx.pid == "C14":
        cs = stage_cli.run(ctx.tools, ctx.seed, ctx.tier)
        for o in cs["obs"]:
            if o.get("cwd_same") is False:
                failures.append(dict(case=dict(case=dict(id=o["name"], args=o["args"], pkg="", stub=False, skip=False,
                                                         resets=False, flags=o["flags"]), text=o.get("cwd_diff"), facts={}, src={}),
                                     fails=[("moq %s store %s, run from the module root under go generate's environment, does "
                                             "not print what moq %s . %s prints inside the package directory"
                                             % (" ".join(o["flags"]), " ".join(o["args"]), " ".join(o["flags"]), " ".join(o["args"])),
                                             "output depends on working directory or environment")], families=[]))
            if o.get("cwd_same") is not None:
                evaluated += 1
    if ctx.pid in ("C08", "C16"):
        # flag -> Config plumbing in main.go: the CLI must produce what the library produces for the
        # configuration the flags are documented to select
        cs = stage_cli.run(ctx.tools, ctx.seed, ctx.tier)
        for o in cs["obs"]:
            fmt_flag = "-fmt" in o["flags"]
            if o.get("lib_matches") is False and o["rc"] == 0 and ((ctx.pid == "C16") == fmt_flag):
                failures.append(dict(case=dict(case=dict(id=o["name"], args=o["args"], pkg="", stub=False, skip=False,
                                                         resets=False, flags=o["flags"]), text=None, facts={}, src={}),
                                     fails=[("moq %s . %s does not print what the library generates for the "
                                             "configuration these flags select" % (" ".join(o["flags"]), " ".join(o["args"])),
                                             "flag wiring")], families=[]))
            if ctx.pid == "C16" and o["rc"] == 0:
                # whatever the flags: what a successful run writes starts with the generated-code marker
                written = o.get("out_after") if o.get("out") else o.get("stdout")
                if written is not None and not written.startswith("// Code generated by moq; DO NOT EDIT.\n"):
                    failures.append(dict(case=dict(case=dict(id=o["name"], args=o["args"], pkg="", stub=False, skip=False,
                                                             resets=False, flags=o["flags"], out=o["out"], rm=o["rm"]),
                                                   text=(written or "")[:400], facts={}, src={}),
                                         fails=[("the first line of what moq %s%s wrote is not the generated-code marker: %r"
                                                 % ("-rm " if o["rm"] else "", " ".join(o["flags"]), (written or "").split("\n")[0][:80]),
                                                 "marker is not the first line")], families=[]))
            if ctx.pid == "C16" and o["rc"] == 0 and o.get("out_matches_ref") is False and "-fmt" not in o["flags"]:
                failures.append(dict(case=dict(case=dict(id=o["name"], args=o["args"], pkg="", stub=False, skip=False,
                                                         resets=False, flags=o["flags"], out=o["out"], prior=o["prior"]),
                                               text=o.get("out_after"), facts={}, src={}),
                                     fails=[("after a successful default run the -out file is not the gofmt-canonical "
                                             "output (prior content: %s)" % o["prior"], "file is not the default output")],
                                     families=[]))
            evaluated += 1
    return finish(ctx, spec, obligations, corr_breaks, failures, known_hits, listed, notes, st, evaluated,
                  len(nontrivial))


def cli_oracle(pid, o, groups):
    """C15 / C17 / C18 read off one observed CLI run (property text, not the model)"""
    fails = []
    out = o["out"]
    outkey = os.path.normpath("store/" + out) if out else None
    go_on_stdout = ("package " in o["stdout"]) or ("Code generated" in o["stdout"])
    if pid == "C18":
        for k, (a, b) in sorted(o["changed"].items()):
            if outkey and (k == outkey or (k.endswith("/") and outkey.startswith(k) and a is None and b == "dir")):
                continue
            if k.endswith("#mode"):
                base = k[:-len("#mode")]
                # the mode of something this run created (the -out file, missing parents) is new, not changed
                if base == outkey:
                    continue      # the requested output file is moq's to create, replace or (with -rm) remove
                if a is None and base.endswith("/") and outkey and outkey.startswith(base):
                    continue
            if outkey and o["fault"] == "out-is-dir":
                pass
            fails.append(("moq changed %s (%s -> %s) although -out is %s" % (k, a, b, out), "unexpected change"))
    if pid in ("C08", "C16") and o.get("lib_matches") is False and o["rc"] == 0:
        fails.append(("the CLI with flags %s does not produce what the library produces for the configuration these "
                      "flags select" % o["flags"], "flag wiring"))
    if pid in ("C17", "C19") and o.get("must_fail") and o["rc"] == 0:
        # the scenario contains a failure condition the property names (unknown type, non-interface, unloadable
        # package, bad mock name), decided by how the scenario was built, not by the model
        fails.append(("moq exited 0 although the run contains a failure condition (%s, arguments %s)"
                      % (o["name"].split("-")[0] + ("/" + o["fault"] if o["fault"] else ""), o["args"]),
                      "failure not reported"))
    if pid == "C17":
        if o["rc"] != 0:
            if go_on_stdout:
                fails.append(("failing run wrote Go source to standard output", "stdout on failure"))
            # the usage text that follows every error is not a diagnostic of this failure
            diag = re.split(r"(?m)^  -\w", o["stderr"].split("moq [flags] source-dir interface")[0])[0].strip()
            if not diag:
                fails.append(("failing run printed no diagnostic (only the usage text)" if o["stderr"].strip()
                              else "failing run printed no diagnostic", "no diagnostic"))
            if outkey and outkey in o["changed"]:
                a, b = o["changed"][outkey]
                if not (o["rm"] and b is None):
                    fails.append(("failing run changed the -out file (%s -> %s)" % (a, b), "out file changed on failure"))
            # "failures write nothing": a failing run may have created directories leading to -out, never a file
            created = [k for k, (a, b) in o["changed"].items()
                       if a is None and k != outkey and not k.endswith("/") and not k.endswith("#mode") and b != "dir"]
            if created:
                fails.append(("failing run left a new file behind: %s" % ", ".join(sorted(created)[:3]),
                              "file created on failure"))
        else:
            if out:
                if o["out_after"] is None:
                    fails.append(("successful run left no file at -out", "no output file"))
                elif o["ref_rc"] == 0 and len(o["out_after"]) != len(o["out_after_full_ref"]) if False else False:
                    pass
            elif not go_on_stdout:
                fails.append(("successful run without -out printed nothing", "no output"))
            if out and o.get("out_matches_ref") is False:
                fails.append(("the -out file is not exactly the complete output", "file content differs from the output"))
    if pid == "C15":
        if o.get("regen_same") is False:
            fails.append(("running the same command again over moq's own output changed the file (or failed: %s)"
                          % o.get("regen_err", "")[:120], "regeneration not a fixed point"))
        if o["rm"] and out:
            g = groups.get((out, tuple(o["args"]), tuple(o["flags"]), o["fault"]))
            if g and len(set(g)) > 1:
                fails.append(("with -rm the result depends on the prior content of -out: %s" % sorted(set(g)),
                              "-rm depends on prior content"))
    return fails


def run_cli(ctx, spec, obligations, listed):
    st = stage_cli.run(ctx.tools, ctx.seed, ctx.tier)
    corr_breaks, failures = [], []
    known_hits, notes, extra_eval = {}, [], 0
    if ctx.pid == "C17":
        gs = stage_gen.run(ctx.tools, ctx.seed, ctx.tier)
        for cr in gs["cases"]:
            extra_eval += 1
            fails = O.o_c17_writer(cr)
            if fails:
                failures.append(dict(case=cr, fails=fails, families=sorted(cr["families"])))
    if ctx.pid == "C15":
        # regeneration over moq's own output, on the generator stage's in-place cases, against
        # the model's own prediction (L2Check.regen_stable)
        gs = stage_gen.run(ctx.tools, ctx.seed, ctx.tier)
        listed_families = set(f["family"] for f in listed)
        for cr in gs["cases"]:
            if not cr.get("regen") or (cr.get("facts") or {}).get("typecheck") != "ok":
                continue      # regenerating over output that does not compile is C01's business
            extra_eval += 1
            fails = O.o_c15_regen(cr)
            predicted = set(x for x in cr["families"] if x.startswith("regen_unstable"))
            bad = [f for f in fails if f[1] not in predicted]
            if bad:
                failures.append(dict(case=cr, fails=bad, families=sorted(cr["families"])))
            elif fails and "regen_not_fixed_point" in listed_families:
                known_hits.setdefault("regen_not_fixed_point", []).append(cr["case"]["id"])
            elif fails:
                failures.append(dict(case=cr, fails=fails, families=sorted(cr["families"])))
            for fam in predicted - set(f[1] for f in fails):
                notes.append("%s: the model predicts %s, the implementation was stable" % (cr["case"]["id"], fam))
    if st["errors"]:
        corr_breaks.append(dict(what="Coq evaluation of the CLI scenarios failed", detail=st["errors"][0][-500:]))
    groups = {}
    for o in st["obs"]:
        if o["rm"] and o["out"] and o["fault"] != "syntax-error":
            groups.setdefault((o["out"], tuple(o["args"]), tuple(o["flags"]), o["fault"]), []).append(
                "%s/%s" % (o["rc"], o["observed"]))
    distinct = set()
    for o in st["obs"]:
        distinct.add(o["observed"] + "|" + str(o["fault"]) + "|" + str(o["prior"]) + "|" + str(o["rm"]))
        if o["model"] != o["observed"]:
            corr_breaks.append(dict(what="model of main.run and the real CLI disagree",
                                    case=dict(name=o["name"], model=o["model"], observed=o["observed"])))
        fails = cli_oracle(ctx.pid, o, groups)
        if fails:
            failures.append(dict(case=dict(case=dict(id=o["name"], args=o["args"], pkg="", stub=False, skip=False,
                                                     resets=False, out=o["out"], rm=o["rm"], prior=o["prior"],
                                                     fault=o["fault"], flags=o["flags"]),
                                           text=o.get("out_after"), facts={}, src={}),
                                 fails=fails, families=[]))
    pseudo = dict(cases=[], stats=dict(scenarios=len(st["obs"])), timing=st["timing"])
    pseudo["cases"] = [dict(case=dict(id=o["name"], args=o["args"], pkg="", stub=False, skip=False, resets=False),
                            kind="rc=%d" % o["rc"], verdict="ok" if o["model"] == o["observed"] else "DIFF",
                            families=[]) for o in st["obs"]]
    return finish(ctx, spec, obligations, corr_breaks, failures, known_hits, listed, notes, pseudo,
                  len(st["obs"]) + extra_eval, len(distinct),
                  rule="scenarios = prior state of the -out path (absent, own output, output for an older interface, "
                       "garbage) x -rm x {stdout, file in the package, file before the sources, file in missing "
                       "directories} x failure stage (arguments, load, lookup of the k-th name, non-interface, "
                       "format, out path is a directory, parent is a file); each runs the real moq binary on a "
                       "fresh scratch module, snapshots the whole tree before/after, and is compared with "
                       "Cli.run evaluated by vm_compute; distinct by (outcome, fault, prior, rm)")


def finish(ctx, spec, obligations, corr_breaks, failures, known_hits, listed, notes, st, evaluated, nontrivial,
           rule=None):
    pid = ctx.pid
    for f in listed:
        n = len(known_hits.get(f["family"], []))
        print("KNOWN-FINDING: property=%s %s [%s]%s" % (pid, f["what"], f["family"],
                                                        " (reproduced on %d inputs of this run)" % n if n else ""))
    broken = [o for o in obligations if not o["ok"]]
    lost_ties = [o for o in broken if o.get("tie")]
    if lost_ties and not corr_breaks:
        # either tie suffices: the source text changed, the behaviour compared on every scenario did not
        for o in lost_ties:
            o["ok"] = True
            o["detail"] = "tie: translation lost (source text differs from the pinned text), correspondence holds: " + o["detail"][:120]
        notes.append("pins lost: %s; the correspondence with the real implementation holds on every case, so the "
                     "model is still tied to the code" % ", ".join(o["name"] for o in lost_ties))
        broken = [o for o in obligations if not o["ok"]]
    violations = 0
    rc = 0
    if failures:
        fl = failures[0]
        cr = fl["case"]
        payload = dict(property=pid, kind="failing-input", case=cr["case"], seed=ctx.seed, tier=ctx.tier,
                       what=fl["fails"][0][0], symptom=fl["fails"][0][1], model_families=fl["families"],
                       source_files=cr.get("src"), generated=cr.get("text"),
                       type_errors=(cr.get("facts") or {}).get("type_errors"),
                       how_to="./check %s --replay <this directory>" % pid,
                       other_failures=[dict(id=f["case"]["case"]["id"], what=f["fails"][0][0]) for f in failures[1:10]],
                       broken_obligations=[o["name"] for o in broken],
                       broken_correspondence=corr_breaks[:3])
        d = C.write_replay(pid, payload)
        print("VIOLATION property=%s replay=%s" % (pid, d))
        violations = len(failures)
        rc = 1
    elif broken or corr_breaks:
        payload = dict(property=pid, kind="not-shown", seed=ctx.seed, tier=ctx.tier,
                       broken_obligations=[dict(name=o["name"], detail=o["detail"]) for o in broken],
                       broken_correspondence=corr_breaks[:5],
                       note="no failing input was found by the property oracle on %d inputs; the property is no "
                            "longer shown to hold because the theorem / correspondence above no longer checks" % evaluated)
        d = C.write_replay(pid, payload)
        print("VIOLATION property=%s replay=%s no-failing-input-found" % (pid, d))
        violations = 1
        rc = 1
    samples = [sample_case(cr) for cr in st["cases"][:2]] + [sample_case(cr) for cr in st["cases"][-2:]]
    coverage = dict(
        obligations=len(obligations), discharged=len(obligations) - len(broken),
        checker_cmd="coq_makefile -f _CoqProject && make (coqc 8.16.1, full .vo build); Print Assumptions per theorem; "
                    "vm_compute evaluation of cases in coq/run/*.v",
        trusted_base=TRUSTED_BASE,
        obligation_list=[dict(name=o["name"], ok=o["ok"], detail=o["detail"][:200]) for o in obligations],
        evaluations=evaluated, distinct_nontrivial=nontrivial,
        rule=rule or "cases = template shape space (10 interfaces x flag combinations) + every interface of /repo's "
             "testpackages + seeded random packages (vh/gen.py); each is run through the real moq (in-process, built "
             "from /repo) and through the Coq model; non-trivial = produced at least one mock; distinct by "
             "(source files, arguments, flags)",
        samples=samples,
        input_distribution=st["stats"], stage_timing_s=st["timing"],
        correspondence=dict(compared=sum(1 for c in st["cases"] if c["verdict"]),
                            agree=sum(1 for c in st["cases"] if c["verdict"] in OK_VERDICTS),
                            disagree=len(corr_breaks)),
        known_finding_hits={k: len(v) for k, v in known_hits.items()},
        notes=notes[:10])
    if getattr(ctx, "l1", None):
        coverage["l1_correspondence"] = ctx.l1
    C.write_evidence(pid, ctx.tier, ctx.seed, coverage, time.time() - ctx.t0, violations,
                     ["see trusted_base; the go/types front end and the Go runtime are not modelled"])
    return rc


def replay(pid, path):
    p = os.path.join(path, "case.json")
    if not os.path.exists(p):
        print("no case.json in", path)
        return 2
    payload = json.load(open(p))
    print(json.dumps({k: payload.get(k) for k in ("property", "kind", "what", "symptom", "case", "model_families",
                                                  "broken_obligations", "broken_correspondence")}, indent=1))
    return 0
