"""Property table and the common decision procedure."""
import json
import os
import time

from . import common as C
from . import oracles as O
from . import stage_gen

IMPORTS_ALL = ("From Moq Require Import Strs GoTypes TypeString VarName Registry Scope Gen TmplAst TmplExec "
               "MockSem MockSpec MockSeq_Proofs WellScoped.\n")

TRUSTED_BASE = [
    "Coq 8.16.1 kernel incl. its vm_compute virtual machine (no native_compute, no extraction)",
    "axioms: none (Print Assumptions of every property theorem is recorded per run)",
    "translator `vh trans` (Go): string tables, template parse tree (via text/template/parse), statement skeletons",
    "dumper (go/types -> model input), lifter (generated Go -> MockSem instructions), facts extractor (Go)",
    "hand-written Coq model of registry.go/package.go/method_scope.go/var.go/moq.go/template_data.go and of "
    "types.TypeString, text/template (subset), strings.Replacer, ASCII case mapping: tied to /repo by the "
    "byte-exact -fmt noop correspondence on every run",
    "go/types as the meaning of 'compiles'; go/packages loading, go list, the Go toolchain: not modelled",
]


class Ctx:
    def __init__(self, pid, tier, seed, t0):
        self.pid, self.tier, self.seed, self.t0 = pid, tier, seed, t0
        self.tools = None
        self.unbuilt = set()
        self.coq_log = ""


def thm(name, file):
    return dict(name=name, file=file)


GEN_MODEL_FILES = ["Strs.v", "GoTypes.v", "TypeString.v", "VarName.v", "Registry.v", "Scope.v", "Gen.v",
                   "TmplAst.v", "TmplExec.v", "gen/Tables.v", "gen/TemplateSrc.v", "WellScoped.v", "L2Check.v"]
MOCK_MODEL_FILES = ["Strs.v", "MockSem.v", "MockSpec.v", "MockSeq_Proofs.v", "MockCheck.v", "P_C07.v",
                    "gen/TemplateSrc.v", "TmplAst.v"]

ALL_FAMILIES = ["names_distinct", "fields_distinct", "names_body_idents", "names_keywords", "names_shadow_types",
                "names_qualifiers", "names_tparams", "tparam_exported", "method_name_clash", "tparams_clash",
                "alias_duplicate", "alias_not_identifier", "import_path_twice", "mock_name_twice",
                "walk_incomplete", "self_check_not_instantiable", "constraint_unqualified_printer",
                "not_a_method_set_interface", "lookup_accepts_values", "unexported_foreign", "explicit_same_pkg"]

# families whose presence makes the emitted Go not parse/lift as a mock at all
STRUCTURE_FAMILIES = ["method_name_clash", "names_body_idents", "mock_name_twice", "names_keywords",
                      "names_distinct", "fields_distinct", "names_tparams", "names_shadow_types", "names_qualifiers"]

PROPS = {
    "C01": dict(kind="gen", files=["P_C01.v"], theorems=[], oracle=O.o_c01, known=ALL_FAMILIES),
    "C02": dict(kind="gen", files=["P_C02.v"], theorems=[], oracle=O.o_c02,
                known=["unexported_foreign", "not_a_method_set_interface", "method_name_clash", "mock_name_twice",
                       "lookup_accepts_values"]),
    "C03": dict(kind="mock", files=["P_C03.v", "TmplClosed.v"], need="B",
                theorems=[thm("C03_call_core", "P_C03"), thm("C03_once_and_forward", "P_C03"),
                          thm("C03_plain_call", "P_C03"), thm("C03_histories", "P_C03"),
                          thm("moq_template_control_closed", "TmplClosed")]),
    "C04": dict(kind="mock", files=["P_C04.v", "TmplClosed.v"], need="BARXNC",
                theorems=[thm("C04_zero_value", "P_C04"), thm("C04_refines_list", "P_C04"),
                          thm("C04_record_shape", "P_C04"), thm("C04_before_func", "P_C04"),
                          thm("C04_recorded_despite_panic", "P_C04"), thm("C04_snapshot_stable", "P_C04"),
                          thm("canonical_components", "MockCheck"),
                          thm("moq_template_control_closed", "TmplClosed")]),
    "C05": dict(kind="mock", files=["P_C05.v", "MockConc.v", "MockConc_Proofs.v", "TmplClosed.v"], need="DB",
                theorems=[thm("C05_no_data_race", "P_C05"), thm("C05_access_under_lock", "P_C05"),
                          thm("C05_atomic_logs", "P_C05"), thm("C05_snapshots_never_change", "P_C05"),
                          thm("C05_prefix_between_resets", "P_C05"),
                          thm("moq_template_control_closed", "TmplClosed")]),
    "C06": dict(kind="mock", files=["P_C06.v", "MockConc.v", "MockConc_Proofs.v", "TmplClosed.v"], need="D",
                theorems=[thm("C06_callback_holds_no_lock", "P_C06"), thm("C06_never_two_locks", "P_C06"),
                          thm("C06_deadlock_free", "P_C06"), thm("C06_reentrancy", "P_C06"),
                          thm("moq_template_control_closed", "TmplClosed")]),
    "C07": dict(kind="mock", files=["P_C07.v", "TmplClosed.v"], need="BM",
                theorems=[thm("C07_panic", "P_C07"), thm("C07_panic_names", "P_C07"), thm("C07_stub", "P_C07"),
                          thm("moq_template_control_closed", "TmplClosed")]),
    "C08": dict(kind="mock", files=["P_C08.v", "TmplClosed.v"], need="BARXNC",
                theorems=[thm("C08_presence", "P_C08"), thm("C08_reset_one", "P_C08"),
                          thm("C08_reset_all", "P_C08"), thm("C08_restart", "P_C08"),
                          thm("canonical_components", "MockCheck"),
                          thm("moq_template_control_closed", "TmplClosed")]),
    "C09": dict(kind="gen", files=["P_C09.v"], theorems=[], oracle=O.o_c09,
                known=["tparam_exported", "self_check_not_instantiable", "constraint_unqualified_printer",
                       "walk_incomplete", "tparams_clash", "names_tparams", "not_a_method_set_interface"]),
    "C10": dict(kind="gen", files=["P_C10.v"], theorems=[], oracle=O.o_c10,
                known=["explicit_same_pkg", "unexported_foreign"]),
    "C11": dict(kind="gen", files=["P_C11.v"], theorems=[], oracle=O.o_c11,
                known=["alias_duplicate", "alias_not_identifier", "walk_incomplete", "explicit_same_pkg"]),
    "C12": dict(kind="gen", files=["P_C12.v"], theorems=[], oracle=O.o_c12,
                known=["names_distinct", "fields_distinct", "names_body_idents", "names_keywords",
                       "names_shadow_types", "names_qualifiers", "names_tparams", "tparams_clash"]),
    "C13": dict(kind="gen", files=["P_C13.v"],
                theorems=[thm("C13_exported_spec", "P_C13"), thm("C13_table", "P_C13"),
                          thm("C13_initialism_any_case", "P_C13"), thm("C13_unnamed_rule", "P_C13"),
                          thm("C13_user_name_verbatim", "P_C13"), thm("C13_kept_partial", "P_C13")],
                oracle=O.o_c13, known=[]),
    "C19": dict(kind="gen", files=["P_C19.v"], theorems=[], oracle=O.o_c19, known=["alias_resolution_diverges"]),
    "C20": dict(kind="gen", files=["P_C20.v"], theorems=[], oracle=O.o_c20, known=[]),
}

OK_VERDICTS = {"ok", "ok-proj", "ok-err", "ok-diverges", "ok-crash", "skip-order"}


def coq_obligations(ctx, spec):
    """every theorem of the property must have been compiled by the kernel in a full .vo
    build and be closed under the global context (or depend only on named stdlib axioms)"""
    obs = []
    bad = C.forbidden_scan()
    obs.append(dict(name="no Admitted/admit/Axiom/Parameter/Conjecture/unsafe flags in the development",
                    ok=not bad, detail="; ".join(bad[:5])))
    needed = set(spec.get("files") or [])
    needed |= set(GEN_MODEL_FILES if spec["kind"] == "gen" else MOCK_MODEL_FILES)
    missing = sorted(f for f in needed if f in ctx.unbuilt)
    obs.append(dict(name="model and proof files of this property compile (full .vo build)", ok=not missing,
                    detail="not compiled: " + ", ".join(missing) if missing else ""))
    thms = spec.get("theorems") or []
    if thms:
        files = sorted(set(t["file"] for t in thms))
        imports = "From Moq Require Import %s.\n" % " ".join(files)
        res = C.print_assumptions([t["name"] for t in thms], imports)
        for t in thms:
            txt = res.get(t["name"])
            ok = txt is not None and "Closed under the global context" in txt
            obs.append(dict(name="theorem %s (%s.v) checked, no axioms" % (t["name"], t["file"]), ok=ok,
                            detail=(txt or "theorem does not check")[:300]))
    return obs


def sample_case(cr):
    c = cr["case"]
    return dict(id=c["id"], args=c["args"], pkg=c["pkg"], stub=c["stub"], skip=c["skip"], resets=c["resets"],
                impl=cr["kind"], model_vs_impl=cr["verdict"], families=cr["families"])


def run(ctx):
    spec = PROPS[ctx.pid]
    known_db = C.load_known_findings()
    listed = [f for f in known_db.get("findings", []) if ctx.pid in f.get("properties", [])]
    listed_families = set(f["family"] for f in listed)
    obligations = coq_obligations(ctx, spec)
    st = stage_gen.run(ctx.tools, ctx.seed, ctx.tier)
    cases = st["cases"]
    corr_breaks, failures, known_hits, notes = [], [], {}, []
    evaluated, nontrivial = 0, set()

    if st["errors"]:
        corr_breaks.append(dict(what="Coq evaluation of the cases failed", detail=st["errors"][0][-500:]))

    if spec["kind"] == "gen":
        for cr in cases:
            if cr.get("skipped") and cr["verdict"] is None:
                continue
            evaluated += 1
            if cr["verdict"] is None:
                continue
            if cr["verdict"] not in OK_VERDICTS:
                corr_breaks.append(dict(what="model and implementation disagree (%s)" % cr["verdict"],
                                        case=sample_case(cr)))
            fails = spec["oracle"](cr)
            key = json.dumps([cr["case"]["args"], cr["case"]["pkg"], cr["case"]["stub"], cr["case"]["skip"],
                              cr["case"]["resets"], sorted((cr.get("src") or {}).items())], sort_keys=True)
            if cr["kind"] == "out" and (cr["facts"].get("mocks") or []):
                nontrivial.add(key)
            fams = set(cr["families"])
            if cr["verdict"] == "ok-diverges":
                fams.add("alias_resolution_diverges")
            if cr["verdict"] == "ok-crash":
                fams.add("numbering_nil_deref")
            if fails:
                explained = fams & set(spec["known"])
                if explained and explained <= listed_families | set(spec["known"]) and (explained & listed_families):
                    for fam in explained & listed_families:
                        known_hits.setdefault(fam, []).append(cr["case"]["id"])
                else:
                    failures.append(dict(case=cr, fails=fails, families=sorted(fams)))
            elif fams & set(spec["known"]) and ctx.pid == "C01":
                notes.append("model predicts %s but go/types accepts %s" % (sorted(fams), cr["case"]["id"]))
    else:  # mock-structure properties: the Coq checkers on the lifted programs
        need = spec["need"]
        for cr in cases:
            if cr["kind"] != "out":
                continue
            evaluated += 1
            canon = cr.get("canon")
            if canon is None:
                continue
            if cr["facts"].get("mocks"):
                nontrivial.add(json.dumps([[m["name"], [x["name"] for x in m.get("methods") or []]]
                                           for m in cr["facts"]["mocks"]] + [cr["case"]["stub"], cr["case"]["resets"]]))
            if all(ch in canon for ch in need):
                continue
            fams = set(cr["families"])
            if fams & set(STRUCTURE_FAMILIES) and (fams & set(STRUCTURE_FAMILIES)) & listed_families:
                for fam in fams & set(STRUCTURE_FAMILIES) & listed_families:
                    known_hits.setdefault(fam, []).append(cr["case"]["id"])
                continue
            failures.append(dict(case=cr, fails=[("lifted mock program is rejected by the Coq checker (%s, need %s)"
                                                  % (canon, need), "checker")], families=sorted(fams)))

    return finish(ctx, spec, obligations, corr_breaks, failures, known_hits, listed, notes, st, evaluated,
                  len(nontrivial))


def finish(ctx, spec, obligations, corr_breaks, failures, known_hits, listed, notes, st, evaluated, nontrivial):
    pid = ctx.pid
    for f in listed:
        n = len(known_hits.get(f["family"], []))
        print("KNOWN-FINDING: property=%s %s [%s]%s" % (pid, f["what"], f["family"],
                                                        " (reproduced on %d inputs of this run)" % n if n else ""))
    broken = [o for o in obligations if not o["ok"]]
    violations = 0
    rc = 0
    if failures:
        fl = failures[0]
        cr = fl["case"]
        payload = dict(property=pid, kind="failing-input", case=cr["case"], seed=ctx.seed, tier=ctx.tier,
                       what=fl["fails"][0][0], symptom=fl["fails"][0][1], model_families=fl["families"],
                       source_files=cr.get("src"), generated=cr.get("text"),
                       type_errors=(cr.get("facts") or {}).get("type_errors"),
                       how_to="./check %s --replay <this directory>" % pid,
                       other_failures=[dict(id=f["case"]["case"]["id"], what=f["fails"][0][0]) for f in failures[1:10]],
                       broken_obligations=[o["name"] for o in broken],
                       broken_correspondence=corr_breaks[:3])
        d = C.write_replay(pid, payload)
        print("VIOLATION property=%s replay=%s" % (pid, d))
        violations = len(failures)
        rc = 1
    elif broken or corr_breaks:
        payload = dict(property=pid, kind="not-shown", seed=ctx.seed, tier=ctx.tier,
                       broken_obligations=[dict(name=o["name"], detail=o["detail"]) for o in broken],
                       broken_correspondence=corr_breaks[:5],
                       note="no failing input was found by the property oracle on %d inputs; the property is no "
                            "longer shown to hold because the theorem / correspondence above no longer checks" % evaluated)
        d = C.write_replay(pid, payload)
        print("VIOLATION property=%s replay=%s no-failing-input-found" % (pid, d))
        violations = 1
        rc = 1
    samples = [sample_case(cr) for cr in st["cases"][:2]] + [sample_case(cr) for cr in st["cases"][-2:]]
    coverage = dict(
        obligations=len(obligations), discharged=len(obligations) - len(broken),
        checker_cmd="coq_makefile -f _CoqProject && make (coqc 8.16.1, full .vo build); Print Assumptions per theorem; "
                    "vm_compute evaluation of cases in coq/run/*.v",
        trusted_base=TRUSTED_BASE,
        obligation_list=[dict(name=o["name"], ok=o["ok"], detail=o["detail"][:200]) for o in obligations],
        evaluations=evaluated, distinct_nontrivial=nontrivial,
        rule="cases = template shape space (10 interfaces x flag combinations) + every interface of /repo's "
             "testpackages + seeded random packages (vh/gen.py); each is run through the real moq (in-process, built "
             "from /repo) and through the Coq model; non-trivial = produced at least one mock; distinct by "
             "(source files, arguments, flags)",
        samples=samples,
        input_distribution=st["stats"], stage_timing_s=st["timing"],
        correspondence=dict(compared=sum(1 for c in st["cases"] if c["verdict"]),
                            agree=sum(1 for c in st["cases"] if c["verdict"] in OK_VERDICTS),
                            disagree=len(corr_breaks)),
        known_finding_hits={k: len(v) for k, v in known_hits.items()},
        notes=notes[:10])
    C.write_evidence(pid, ctx.tier, ctx.seed, coverage, time.time() - ctx.t0, violations,
                     ["see trusted_base; the go/types front end and the Go runtime are not modelled"])
    return rc


def replay(pid, path):
    p = os.path.join(path, "case.json")
    if not os.path.exists(p):
        print("no case.json in", path)
        return 2
    payload = json.load(open(p))
    print(json.dumps({k: payload.get(k) for k in ("property", "kind", "what", "symptom", "case", "model_families",
                                                  "broken_obligations", "broken_correspondence")}, indent=1))
    return 0
