"""End-to-end (L2) correspondence: real moq (in-process, built from /repo) against the
Coq model on the same inputs, byte for byte on the -fmt noop output."""
import json
import os
import re

from . import common as C

HEADER = "From Moq Require Import Strs GoTypes Registry Scope Gen L2Check.\n"


def run_impl(tools, cases, workdir, timeout="30s"):
    cpath = os.path.join(workdir, "l2cases.json")
    opath = os.path.join(workdir, "l2obs.jsonl")
    json.dump(cases, open(cpath, "w"))
    p = C.sh([tools.vh, "l2", "-cases", cpath, "-out", opath, "-shards", str(C.NCPU), "-timeout", timeout],
             timeout=3600)
    if p.returncode != 0:
        raise RuntimeError("vh l2 failed: " + p.stderr[-2000:])
    obs = [json.loads(l) for l in open(opath)]
    # a time-out under load is not an observation of the code: every case that timed out runs again, alone
    # (no repetitions, no other formatters), a few at a time and with a long limit, before it counts
    late = [o["id"] for o in obs if o["kind"] == "timeout"]
    if late and timeout != "300s":
        byid = {c["id"]: c for c in cases}
        again = [dict(byid[i], repeat=0, fmts=False) for i in late if i in byid]
        json.dump(again, open(cpath + ".retry", "w"))
        p = C.sh([tools.vh, "l2", "-cases", cpath + ".retry", "-out", opath + ".retry", "-shards", "4", "-timeout", "300s"],
                 timeout=7200)
        if p.returncode == 0:
            redo = {}
            for l in open(opath + ".retry"):
                o = json.loads(l)
                redo[o["id"]] = o
            obs = [redo.get(o["id"], o) if o["kind"] == "timeout" else o for o in obs]
    return obs


def obs_term(o):
    k = o["kind"]
    if k == "out":
        return "(ObsOut %s)" % C.coq_str(o["text"])
    if k == "err":
        return "(ObsErr %s)" % C.coq_str(o["text"])
    if k == "panic":
        return "(ObsPanic %s)" % C.coq_str(o["text"][:200])
    if k == "crash":
        return "ObsCrash"
    if k == "timeout":
        return "ObsTimeout"
    return None


def squeeze(s):
    return re.sub(r"[ \t\n;]", "", s)


def typed_signatures(fx, pkg_names):
    """per mock of a generated file: its type parameters, methods and signatures with every package
    qualifier replaced by the import path the file's own import block binds it to -- the mock's
    shape 'as types', independent of how imports and parameters are spelled (C20)"""
    table = {}
    for i in (fx or {}).get("imports") or []:
        q = i["name"] or pkg_names.get(i["type"]) or i["type"].rsplit("/", 1)[-1]
        table[q] = i["type"]

    def norm(s):
        return squeeze(re.sub(r"\b([A-Za-z_]\w*)\.([A-Za-z_]\w*)",
                              lambda m: "<%s>.%s" % (table.get(m.group(1), "?" + m.group(1)), m.group(2)), s))
    out = {}
    for m in (fx or {}).get("mocks") or []:
        sig = ["tp %s %s" % (t["name"], norm(t["type"])) for t in m.get("tparams") or []]
        funcs = set(m.get("func_order") or [])
        for mm in m.get("methods") or []:
            if mm["name"] + "Func" not in funcs:
                continue      # accessors and resets: their result types spell out parameter names
            sig.append("m %s(%s)(%s)" % (mm["name"], ",".join(norm(q["type"]) for q in mm.get("params") or []),
                                         ",".join(norm(q["type"]) for q in mm.get("results") or [])))
        sig.append("fields " + ",".join(m.get("func_order") or []))
        out.setdefault(m["name"], []).append(sig)
    return out


def projection(fx):
    """the structure of a generated file, from `vh facts` (must mirror L2Check.proj_data)"""
    if not fx or fx.get("parse_error"):
        return ""
    out = ["pkg " + (fx.get("pkg_name") or "")]
    for i in fx.get("imports") or []:
        out.append("imp %s %s" % (i["name"], i["type"]))
    for m in fx.get("mocks") or []:
        out.append("mock " + m["name"])
        for t in m.get("tparams") or []:
            out.append("tp %s %s" % (t["name"], squeeze(t["type"])))
        meths = {mm["name"]: mm for mm in (m.get("methods") or [])}
        for fn in m.get("func_order") or []:
            x = fn[:-4] if fn.endswith("Func") else fn
            out.append("m " + x)
            mm = meths.get(x)
            if mm is None:
                continue
            for q in mm.get("params") or []:
                out.append("p %s %s" % (q["name"], squeeze(q["type"])))
            for q in mm.get("results") or []:
                out.append("r " + squeeze(q["type"]))
    return "\n".join(out) + "\n"


def case_term(o, fx=None):
    if not o.get("input") or o.get("unsupported"):
        return None
    if o["kind"] == "err" and o["text"].startswith("new: "):
        return None  # the package did not load: the model starts after the front end
    t = obs_term(o)
    if t is None:
        return None
    if not all(ord(ch) < 127 for ch in o["text"]):
        return None
    proj = projection(fx) if o["kind"] == "out" else ""
    if not all(ord(ch) < 127 for ch in proj):
        proj = ""
    return "(mkCase %s %s %s %s %s %s %d)" % (C.coq_str(o["id"]), o["input"], o["config"], o["args"], t,
                                            C.coq_str(proj), mid_position(o)[1])


def mid_position(o):
    """(name, k): a file name that sorts directly after the first source file, and the number of
    import specs in the files before it -- where a generated file of that name joins the alias scan"""
    sf = o.get("spec_files") or []
    if not sf:
        return "a0mid_moq_verif.go", 0
    first = sorted(x["name"] for x in sf)[0]
    name = first[:-3] + "0mid_moq_verif.go" if first.endswith(".go") else "a0mid_moq_verif.go"
    k = sum(x["specs"] for x in sf if x["name"] < name)
    return name, k


def evaluate(obs, name="l2", facts=None):
    items, ids = [], []
    skipped = {}
    for o in obs:
        t = case_term(o, (facts or {}).get(o["id"]))
        if t is None:
            reason = o.get("unsupported") or ("load error" if o["kind"] == "err" else o["kind"])
            skipped[o["id"]] = reason
            continue
        items.append(t)
        ids.append(o["id"])
    pairs, errors = C.eval_shards(name, HEADER, items, "verdicts cases")
    return dict(pairs), skipped, errors
