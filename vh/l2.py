"""End-to-end (L2) correspondence: real moq (in-process, built from /repo) against the
Coq model on the same inputs, byte for byte on the -fmt noop output."""
import json
import os

from . import common as C

HEADER = "From Moq Require Import Strs GoTypes Registry Scope Gen L2Check.\n"


def run_impl(tools, cases, workdir, timeout="30s"):
    cpath = os.path.join(workdir, "l2cases.json")
    opath = os.path.join(workdir, "l2obs.jsonl")
    json.dump(cases, open(cpath, "w"))
    p = C.sh([tools.vh, "l2", "-cases", cpath, "-out", opath, "-shards", str(C.NCPU), "-timeout", timeout],
             timeout=3600)
    if p.returncode != 0:
        raise RuntimeError("vh l2 failed: " + p.stderr[-2000:])
    return [json.loads(l) for l in open(opath)]


def obs_term(o):
    k = o["kind"]
    if k == "out":
        return "(ObsOut %s)" % C.coq_str(o["text"])
    if k == "err":
        return "(ObsErr %s)" % C.coq_str(o["text"])
    if k == "panic":
        return "(ObsPanic %s)" % C.coq_str(o["text"][:200])
    if k == "crash":
        return "ObsCrash"
    if k == "timeout":
        return "ObsTimeout"
    return None


def case_term(o):
    if not o.get("input") or o.get("unsupported"):
        return None
    if o["kind"] == "err" and o["text"].startswith("new: "):
        return None  # the package did not load: the model starts after the front end
    t = obs_term(o)
    if t is None:
        return None
    if not all(ord(ch) < 127 for ch in o["text"]):
        return None
    return "(mkCase %s %s %s %s %s)" % (C.coq_str(o["id"]), o["input"], o["config"], o["args"], t)


def evaluate(obs, name="l2"):
    items, ids = [], []
    skipped = {}
    for o in obs:
        t = case_term(o)
        if t is None:
            reason = o.get("unsupported") or ("load error" if o["kind"] == "err" else o["kind"])
            skipped[o["id"]] = reason
            continue
        items.append(t)
        ids.append(o["id"])
    pairs, errors = C.eval_shards(name, HEADER, items, "verdicts cases")
    return dict(pairs), skipped, errors
