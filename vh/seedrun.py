"""Runs the registered checks against the seeded breaking changes under /verif/seeded.

Usage: python3 -m vh.seedrun <repo-copy> [seed ids...]   (the copy is a scratch clone or
worktree of /repo, never /repo itself when run in the background).  For each seeded change:
apply patch, run the quick checks of every claimed property with VERIF_REPO pointing at the
copy, undo.  Writes seeded/RESULTS.json (which checks raise an alarm on which change)."""
import json
import os
import subprocess
import sys
import time

ROOT = os.path.dirname(os.path.dirname(os.path.abspath(__file__)))


def main():
    repo = os.path.abspath(sys.argv[1])
    want = sys.argv[2:]
    manifest = json.load(open(os.path.join(ROOT, "MANIFEST.json")))
    pids = [c["property_id"] for c in manifest["checks"]]
    sd = os.path.join(ROOT, "seeded")
    out_path = os.path.join(sd, "RESULTS.json")
    results = json.load(open(out_path)) if os.path.exists(out_path) else {}
    env = dict(os.environ, VERIF_REPO=repo, VERIF_SEED=os.environ.get("VERIF_SEED", "1"))
    for name in sorted(os.listdir(sd)):
        d = os.path.join(sd, name)
        if not os.path.isdir(d) or (want and name not in want):
            continue
        patch = os.path.join(d, "patch.diff")
        subprocess.run(["git", "-C", repo, "checkout", "-q", "--", "."], check=True)
        subprocess.run(["git", "-C", repo, "clean", "-fdq"], check=True)
        r = subprocess.run(["git", "-C", repo, "apply", patch])
        if r.returncode != 0:
            results[name] = {"error": "patch does not apply"}
            continue
        target = json.load(open(os.path.join(d, "meta.json")))["property"]
        row = {"target": target, "alarms": {}, "at": time.strftime("%F %T")}
        order = [target] + [p for p in pids if p != target]
        for pid in order:
            if pid not in pids:
                continue
            t0 = time.time()
            p = subprocess.run([os.path.join(ROOT, "check"), pid, "--tier", "quick"], env=env,
                               stdout=subprocess.PIPE, stderr=subprocess.PIPE, text=True)
            lines = [l for l in p.stdout.splitlines() if l.startswith("VIOLATION")]
            row["alarms"][pid] = dict(rc=p.returncode, violation=lines[:1], s=round(time.time() - t0, 1),
                                      err=p.stderr[-300:] if p.returncode not in (0, 1) else "")
            if pid == target and lines:
                for l in lines[:1]:
                    rp = l.split("replay=")[1].split()[0]
                    try:
                        cj = json.load(open(os.path.join(rp, "case.json")))
                        row["target_replay"] = {k: cj.get(k) for k in ("kind", "what", "symptom", "broken_obligations")}
                        row["target_replay"]["case"] = (cj.get("case") or {}).get("id")
                    except Exception as e:
                        row["target_replay"] = str(e)
        row["caught_by_target"] = row["alarms"].get(target, {}).get("rc") == 1
        row["caught_by"] = sorted(p for p, a in row["alarms"].items() if a["rc"] == 1)
        results[name] = row
        subprocess.run(["git", "-C", repo, "checkout", "-q", "--", "."], check=True)
        subprocess.run(["git", "-C", repo, "clean", "-fdq"], check=True)
        json.dump(results, open(out_path, "w"), indent=1)
        print(name, "target", target, "caught_by", row["caught_by"], flush=True)


if __name__ == "__main__":
    main()
