"""The generator stage: one scratch module, real moq on every case, facts and type
check of every output, the Coq model on the same inputs, the Coq checkers on the lifted
mock programs.  Shared by the sixteen generator / mock-structure properties; cached by
(tree content, seed, tier)."""
import json
import os
import re
import shutil
import subprocess
import time

from . import common as C
from . import advcorpus, gen, l2

SIZES = {"quick": dict(npkgs=14, per_pkg=5, repeat=1, repeat_adv=5, fmt_every=4),
         "thorough": dict(npkgs=60, per_pkg=8, repeat=3, repeat_adv=40, fmt_every=1)}

def strip_vendor(p):
    parts = p.split("/vendor/")
    return p if len(parts) == 1 else "/".join(x for x in parts[1:] if x).lstrip("/")


def src_specs(inp):
    """import specs (path, name) of the source package, from the dumped model input"""
    m = re.match(r'\(mkInput \(mkPkg "[^"]*" "[^"]*"\) \[((?:\("[^"]*", "[^"]*"\)(?:; )?)*)\]', inp)
    if not m:
        return []
    return re.findall(r'\("([^"]*)", "([^"]*)"\)', m.group(1))


REPO_CORPUS = os.path.join(C.REPO, "pkg", "moq", "testpackages")


def repo_corpus_cases(tools):
    dirs = []
    for d, sub, fs in os.walk(REPO_CORPUS):
        if "/vendor" in d or "_parseerror" in d:
            continue
        if any(f.endswith(".go") and not f.endswith("_test.go") for f in fs):
            dirs.append(d)
    dirs.sort()
    p = C.sh([tools.vh, "ifaces"] + dirs, timeout=600)
    if p.returncode != 0:
        return []
    names = json.loads(p.stdout)
    cases = []
    for d in dirs:
        ns = names.get(d) or []
        if not ns:
            continue
        rel = os.path.relpath(d, REPO_CORPUS).replace("/", "_")
        for n in ns:
            cases.append(dict(id="repo-%s-%s" % (rel, n), dir=d, args=[n], pkg="", stub=False, skip=False,
                              resets=False, tags=["repo"]))
        cases.append(dict(id="repo-%s-all" % rel, dir=d, args=ns, pkg="", stub=True, skip=False, resets=True,
                          tags=["repo"]))
        cases.append(dict(id="repo-%s-other" % rel, dir=d, args=ns[:2], pkg="mockpkg", stub=False, skip=True,
                          resets=False, tags=["repo"]))
    return cases


CANON_HEADER = "From Moq Require Import Strs MockSem MockCheck.\n"
CANON_DEFN = ("map (fun '(id, stub, resets, ifaces, mks) => (id, verdict_string stub resets ifaces mks)) cases")


def run(tools, seed, tier):
    key = "gen-%s-%s-%d" % (tools.key, tier, seed)
    cpath = os.path.join(C.BUILD, "cache", key + ".json")
    if os.path.exists(cpath):
        return json.load(open(cpath))
    with C.locked("stage-gen"):
        if os.path.exists(cpath):
            return json.load(open(cpath))
        t0 = time.time()
        sz = SIZES[tier]
        root = C.scratch_dir("gen")
        try:
            cases, stats = gen.generate(seed, root, sz["npkgs"], sz["per_pkg"])
            for c in cases:
                c.setdefault("tags", []).append("random")
            cases = gen.shape_cases(root) + advcorpus.write_all(root, gen.write) + repo_corpus_cases(tools) + cases
            byid = {c["id"]: c for c in cases}
            for k, c in enumerate(cases):
                c["repeat"] = sz["repeat_adv"] if "adv" in (c.get("tags") or []) else sz["repeat"]
                c["fmts"] = (k % sz["fmt_every"] == 0) or bool(c.get("fmts_always"))
            obs = l2.run_impl(tools, cases, root)
            t_impl = time.time() - t0
            # facts + type check of every output
            fin = os.path.join(root, "facts_in.jsonl")
            fout = os.path.join(root, "facts_out.jsonl")
            with open(fin, "w") as f:
                for o in obs:
                    if o["kind"] == "out":
                        c = byid[o["id"]]
                        f.write(json.dumps(dict(id=o["id"], dir=c["dir"], pkg=c["pkg"], text=o["text"],
                                                typecheck=True)) + "\n")
            p = C.sh([tools.vh, "facts", "-in", fin, "-out", fout, "-j", str(C.NCPU)], timeout=3600)
            if p.returncode != 0:
                raise RuntimeError("vh facts failed: " + p.stderr[-2000:])
            facts = {}
            for l in open(fout):
                fx = json.loads(l)
                facts[fx["id"]] = fx
            t_facts = time.time() - t0
            # regeneration over moq's own output (C15), on private copies of in-place cases
            regen = {}
            sel = [o for o in obs if o["kind"] == "out" and byid[o["id"]]["pkg"] == ""
                   and byid[o["id"]]["dir"].startswith(root)
                   and (set(byid[o["id"]].get("tags") or []) & {"adv", "shape"} or tier == "thorough")]

            def regen_one(o):
                c = byid[o["id"]]
                dst = os.path.join(root, "regen", re.sub(r"\W", "_", c["id"]))
                shutil.copytree(c["dir"], dst)
                flags = (["-stub"] if c["stub"] else []) + (["-skip-ensure"] if c["skip"] else []) + \
                        (["-with-resets"] if c["resets"] else [])
                res = {}
                for pos, name in (("last", "zz_moq_verif.go"), ("first", "00_moq_verif.go"),
                                  ("mid", l2.mid_position(o)[0])):
                    outp = os.path.join(dst, name)
                    runs = []
                    for k in range(2):
                        p = subprocess.run([tools.moq, "-out", name] + flags + ["."] + c["args"], cwd=dst, env=C.goenv(),
                                           stdout=subprocess.PIPE, stderr=subprocess.PIPE, text=True, timeout=120)
                        runs.append((p.returncode, open(outp).read() if os.path.exists(outp) else None, p.stderr[:300]))
                    if runs[0][0] == 0:
                        res[pos] = dict(same=(runs[1][0] == 0 and runs[0][1] == runs[1][1]), rc2=runs[1][0],
                                        err2=runs[1][2])
                    if os.path.exists(outp):
                        os.remove(outp)
                shutil.rmtree(dst, ignore_errors=True)
                return o["id"], res

            import concurrent.futures
            with concurrent.futures.ThreadPoolExecutor(max_workers=C.NCPU) as ex:
                for cid, res in ex.map(regen_one, sel):
                    regen[cid] = res
            t_regen = time.time() - t0
            # C20: every interface of a multi-interface run also generated alone (same package, same flags);
            # the mock must have the same type parameters, methods and signatures as types
            alone_cases, alone_of = [], {}
            for o in obs:
                c = byid[o["id"]]
                fx = facts.get(o["id"]) or {}
                if o["kind"] != "out" or fx.get("parse_error") or len(c["args"]) < 2 or len(set(c["args"])) != len(c["args"]):
                    continue
                if tier == "quick" and not (set(c.get("tags") or []) & {"adv", "shape"}) and len(alone_cases) > 400:
                    continue
                for k, a in enumerate(c["args"]):
                    ac = dict(c, id="%s@alone%d" % (c["id"], k), args=[a], repeat=0, fmts=False)
                    alone_cases.append(ac)
                    alone_of.setdefault(o["id"], []).append(ac["id"])
            alone_diff = {}
            if alone_cases:
                aobs = {o["id"]: o for o in l2.run_impl(tools, alone_cases, root)}
                afin, afout = os.path.join(root, "afacts_in.jsonl"), os.path.join(root, "afacts_out.jsonl")
                with open(afin, "w") as f:
                    for ac in alone_cases:
                        o = aobs.get(ac["id"])
                        if o and o["kind"] == "out":
                            f.write(json.dumps(dict(id=ac["id"], dir=ac["dir"], pkg=ac["pkg"], text=o["text"],
                                                    typecheck=False)) + "\n")
                p = C.sh([tools.vh, "facts", "-in", afin, "-out", afout, "-j", str(C.NCPU)], timeout=3600)
                afacts = {}
                if p.returncode == 0:
                    for l in open(afout):
                        fx = json.loads(l)
                        afacts[fx["id"]] = fx

                def names_of(o):
                    return {strip_vendor(a): b for a, b in re.findall(r'mkPkg "([^"]*)" "([^"]*)"', o.get("input") or "")}
                for o in obs:
                    if o["id"] not in alone_of:
                        continue
                    joint = l2.typed_signatures(facts.get(o["id"]), names_of(o))
                    diffs = []
                    for aid in alone_of[o["id"]]:
                        ao, afx = aobs.get(aid), afacts.get(aid)
                        if not ao or ao["kind"] != "out" or not afx or afx.get("parse_error"):
                            continue      # alone it is rejected or unparsable: nothing to compare with
                        for mname, sigs in l2.typed_signatures(afx, names_of(ao)).items():
                            js = joint.get(mname)
                            if js is None:
                                diffs.append("%s: generated alone it exists, in the joint output it does not" % mname)
                            elif sigs[0] not in js:
                                a_only = [x for x in sigs[0] if x not in js[0]]
                                j_only = [x for x in js[0] if x not in sigs[0]]
                                diffs.append("%s: alone %s / together %s" % (mname, a_only[:3], j_only[:3]))
                    alone_diff[o["id"]] = diffs
            t_alone = time.time() - t0
            verdicts, skipped, errors = l2.evaluate(obs, "l2", facts)
            t_coq = time.time() - t0
            # checkers on the lifted programs
            items = []
            for o in obs:
                fx = facts.get(o["id"])
                if not fx or not fx.get("coq") or fx.get("parse_error"):
                    continue
                c = byid[o["id"]]
                ifaces = [a.split(":", 1)[0] for a in c["args"]]
                if not all(ord(ch) < 127 for ch in fx["coq"]):
                    continue
                items.append("(%s, %s, %s, %s, %s)" % (C.coq_str(o["id"]), "true" if c["stub"] else "false",
                                                      "true" if c["resets"] else "false",
                                                      C.coq_list([C.coq_str(i) for i in ifaces]), fx["coq"]))
            canon, cerrors = C.eval_shards("canon", CANON_HEADER, items, CANON_DEFN)
            canon = dict(canon)
            t_canon = time.time() - t0
            res = dict(seed=seed, tier=tier, stats=stats, errors=[e[1][-1500:] for e in errors + cerrors],
                       timing=dict(impl=t_impl, facts=t_facts, regen=t_regen, alone=t_alone, coq=t_coq, canon=t_canon), cases=[])
            for o in obs:
                c = byid[o["id"]]
                fx = facts.get(o["id"]) or {}
                v = verdicts.get(o["id"])
                vparts = (v.split("|", 2) + ["", ""])[:3] if v else (None, "", "")
                verdict, fams, mproj = vparts
                src = {}
                if c["dir"].startswith(root):
                    for fn in sorted(os.listdir(c["dir"])):
                        if fn.endswith(".go"):
                            src[fn] = open(os.path.join(c["dir"], fn)).read()
                inp = o.get("input") or ""
                pk = re.findall(r'mkPkg "([^"]*)" "([^"]*)"', inp)
                mi = re.match(r'\(mkInput \(mkPkg "([^"]*)" "([^"]*)"\)', inp)
                res["cases"].append(dict(
                    case=c, kind=o["kind"], text=o["text"], ms=o.get("ms"),
                    repeats=o.get("repeats", 0), nondet=o.get("nondet"), fmt=o.get("fmt"), sigs=o.get("sigs"),
                    regen=regen.get(o["id"]), writes=o.get("writes"), fail_write=o.get("fail_write"),
                    alone_diff=alone_diff.get(o["id"]),
                    src_pkg=dict(path=mi.group(1), name=mi.group(2)) if mi else {},
                    src_specs=src_specs(inp),
                    pkg_names={strip_vendor(a): b for a, b in pk},
                    skipped=skipped.get(o["id"]), verdict=verdict,
                    families=[x for x in fams.split(",") if x],
                    model_proj=mproj or None,
                    observed_proj=l2.projection(fx) if (verdict or "").startswith("DIFF") else None,
                    canon=canon.get(o["id"]),
                    facts={k: fx.get(k) for k in ("parse_error", "first_line", "pkg_name", "imports", "mocks",
                                                  "top_decls", "type_errors", "error_sites", "typecheck")},
                    src=src))
            def fill(x):
                if isinstance(x, dict):
                    for k2 in list(x):
                        if x[k2] is None and k2 in ("params", "results", "methods", "tparams", "recv_tparams", "imports",
                                                    "mocks", "func_order", "top_decls", "type_errors", "error_sites"):
                            x[k2] = []
                        else:
                            fill(x[k2])
                elif isinstance(x, list):
                    for y in x:
                        fill(y)
            fill(res["cases"])
            for cc in res["cases"]:  # drop the bulky lifted bodies from the cache
                for m in (cc["facts"].get("mocks") or []):
                    for mm in (m.get("methods") or []):
                        mm.pop("body", None)
            os.makedirs(os.path.dirname(cpath), exist_ok=True)
            tmp = cpath + ".tmp%d" % os.getpid()
            json.dump(res, open(tmp, "w"))
            os.replace(tmp, cpath)
            return res
        finally:
            shutil.rmtree(root, ignore_errors=True)
