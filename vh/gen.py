"""Generator of scratch Go modules and L2 cases (inputs for the correspondence check).

Every random choice derives from one random.Random(seed).  The module is written
under a caller-supplied directory outside /repo and /verif and removed by the caller.
"""
import json
import os
import random

MODULE = "example.com/m"

# dependency pool: import path suffix -> (package name, flavour)
# flavours: plain | generic | cons
DEP_POOL = [
    ("dep/alpha", "alpha", "plain"),
    ("dep/beta", "beta", "plain"),
    ("dep/one/client", "client", "plain"),
    ("dep/two/client", "client", "plain"),
    ("dep/oneclient", "oneclient", "plain"),
    ("dep/core/v1", "v1", "plain"),
    ("dep/apps/v1", "v1", "plain"),
    ("dep/w/corev1", "corev1", "plain"),
    ("dep/go-yaml", "yaml", "plain"),
    ("dep/yaml.v3", "yaml", "plain"),
    ("dep/other", "other", "plain"),
    ("dep/named/dir", "notdir", "plain"),
    ("dep/sync", "sync", "plain"),
    ("dep/http", "http", "plain"),
    ("dep/multivendor/catalog", "catalog", "plain"),
    ("dep/my_pkg", "my_pkg", "plain"),
    ("dep/v2/api", "api", "plain"),
    ("dep/v1/api", "api", "plain"),
    ("dep/gen", "gen", "generic"),
    ("dep/cons", "cons", "cons"),
    ("dep/s", "s", "plain"),
    ("dep/n", "n", "plain"),
    ("dep/time", "time", "plain"),
]
# members of the known-finding families; used only by targeted corpus cases
DEP_FINDINGS = [
    ("dep/foo-bar/x", "x", "plain"),
    ("dep/foobar/x", "x", "plain"),
    ("dep/p/bar", "bar", "plain"),
    ("dep/q/foobar", "z", "plain"),
    ("dep/foo/bar", "z", "plain"),
    ("dep/mock", "mock", "plain"),
    ("dep/s1", "s1", "plain"),
    ("dep/type/q", "q", "plain"),
    ("dep/range/q", "q", "plain"),
]
STDLIB = [("context", "context", ["Context"]), ("io", "io", ["Reader", "Writer"]),
          ("net/http", "http", ["Request", "Handler"]), ("time", "time", ["Duration", "Time"]),
          ("text/template", "template", ["Template"]), ("html/template", "template", ["Template"]),
          ("sync", "sync", ["Mutex"]), ("fmt", "fmt", ["Stringer"]), ("os", "os", ["File"])]

INITIALISMS = ["ACL", "API", "ASCII", "CPU", "CSS", "DNS", "EOF", "GUID", "HTML", "HTTP", "HTTPS", "ID", "IP",
               "JSON", "LHS", "QPS", "RAM", "RHS", "RPC", "SLA", "SMTP", "SQL", "SSH", "TCP", "TLS", "TTL",
               "UDP", "UI", "UID", "UUID", "URI", "URL", "UTF8", "VM", "XML", "XMPP", "XSRF", "XSS"]

BASIC = ["bool", "string", "int", "int8", "int16", "int32", "int64", "uint", "uint8", "uint16", "uint32",
         "uint64", "uintptr", "float32", "float64", "complex64", "complex128", "byte", "rune", "error", "any"]

PLAIN_DECLS = """
type T struct{ X int }
type I interface{ M() }
type MyInt int
type lower struct{}
type Slice []int
type Fn func(int) string
"""
GENERIC_DECLS = """
type Box[T any] struct{ V T }
type Pair[K comparable, V any] struct{ K K; V V }
type T struct{}
"""
CONS_DECLS = """
type MyInt int
type Number interface{ ~int | ~float64 }
type Stringish interface{ String() string }
type T struct{}
"""


def write(path, text):
    os.makedirs(os.path.dirname(path), exist_ok=True)
    with open(path, "w") as f:
        f.write(text)


class Gen:
    def __init__(self, seed, root):
        self.r = random.Random(seed)
        self.root = root
        self.cases = []
        self.stats = {"packages": 0, "interfaces": 0, "methods": 0, "params": 0, "named_params": 0,
                      "unnamed_params": 0, "blank_params": 0, "variadic": 0, "results": 0, "named_results": 0,
                      "generic_ifaces": 0, "embedded": 0, "type_ctor": {}, "flags": {}, "args_len": {},
                      "dest_modes": {}, "aliased_imports": 0, "dot_imports": 0, "blank_imports": 0}

    # ---------- module skeleton ----------
    def write_module(self):
        write(os.path.join(self.root, "go.mod"), "module %s\n\ngo 1.24\n" % MODULE)
        for path, name, flavour in DEP_POOL + DEP_FINDINGS:
            decls = {"plain": PLAIN_DECLS, "generic": GENERIC_DECLS, "cons": CONS_DECLS}[flavour]
            write(os.path.join(self.root, path, "x.go"), "package %s\n%s" % (name, decls))

    # ---------- types ----------
    def count_ctor(self, k):
        self.stats["type_ctor"][k] = self.stats["type_ctor"].get(k, 0) + 1

    def named_type(self, fx):
        """a named type from an imported or the local package; returns Go text"""
        r = self.r
        choice = r.random()
        if choice < 0.25 and fx["local_types"]:
            self.count_ctor("local")
            return r.choice(fx["local_types"])
        imp = r.choice(fx["imports"])
        self.count_ctor("imported")
        fx["used"].add(imp["path"])
        q = imp["qual"]
        if imp["flavour"] == "generic" and r.random() < 0.6:
            if r.random() < 0.5:
                return "%s.Box[%s]" % (q, self.ty(fx, 1))
            return "%s.Pair[string, %s]" % (q, self.ty(fx, 1))
        if imp["flavour"] == "std":
            return "%s.%s" % (q, r.choice(imp["types"]))
        if imp["flavour"] == "cons":
            return "%s.%s" % (q, r.choice(["MyInt", "T"]))
        if imp["flavour"] == "generic":
            return "%s.T" % q
        return "%s.%s" % (q, r.choice(["T", "T", "I", "MyInt", "Slice", "Fn"]))

    def ty(self, fx, depth):
        r = self.r
        if depth <= 0 or r.random() < 0.35:
            if r.random() < 0.5:
                self.count_ctor("basic")
                return r.choice(BASIC)
            if fx.get("tparams") and r.random() < 0.5:
                self.count_ctor("tparam")
                return r.choice(fx["tparams"])
            return self.named_type(fx)
        k = r.choice(["ptr", "slice", "array", "map", "chan", "func", "struct", "iface", "named", "named"])
        self.count_ctor(k)
        if k == "ptr":
            return "*" + self.ty(fx, depth - 1)
        if k == "slice":
            return "[]" + self.ty(fx, depth - 1)
        if k == "array":
            return "[%d]%s" % (r.choice([0, 1, 3, 16]), self.ty(fx, depth - 1))
        if k == "map":
            key = r.choice(["string", "int", "bool", "float64", "byte"]) if r.random() < 0.7 else self.named_type(fx)
            if "Slice" in key or "Fn" in key or "Box" in key or "Pair" in key or ".I" in key or "Template" in key \
                    or "Handler" in key or "Request" in key or "Mutex" in key or "File" in key or "[]" in key:
                key = "string"
            return "map[%s]%s" % (key, self.ty(fx, depth - 1))
        if k == "chan":
            d = r.choice(["chan ", "chan<- ", "<-chan "])
            e = self.ty(fx, depth - 1)
            if r.random() < 0.25:
                e = r.choice(["<-chan int", "chan<- string", "chan error", "<-chan <-chan bool"])
            if d == "chan " and e.startswith("<-chan"):
                e = "(" + e + ")"
            return d + e
        if k == "func":
            n = r.randint(0, 2)
            named = r.random() < 0.5
            ps = []
            for i in range(n):
                t = self.ty(fx, depth - 1)
                ps.append(("p%d " % i if named else "") + t)
            if n > 0 and r.random() < 0.2:
                ps[-1] = ("p%d " % (n - 1) if named else "") + "..." + self.ty(fx, depth - 1)
            m = r.randint(0, 2)
            rs = [self.ty(fx, depth - 1) for _ in range(m)]
            res = ""
            if m == 1:
                res = " " + rs[0]
                if rs[0].startswith("func") or rs[0].startswith("("):
                    res = " (" + rs[0] + ")"
            elif m > 1:
                if r.random() < 0.3:
                    res = " (" + ", ".join("r%d %s" % (i, t) for i, t in enumerate(rs)) + ")"
                else:
                    res = " (" + ", ".join(rs) + ")"
            return "func(" + ", ".join(ps) + ")" + res
        if k == "struct":
            n = r.randint(0, 2)
            fs = []
            for i in range(n):
                tag = ""
                if r.random() < 0.35:
                    tag = r.choice([' `json:"f%d"`' % i, ' `json:"f%d,omitempty" xml:"a b"`' % i, ' `k:"v\\\\w"`',
                                    ' `plain tag`'])
                fs.append("F%d %s%s" % (i, self.ty(fx, depth - 1), tag))
            if r.random() < 0.2 and fx["local_types"]:
                fs.insert(0, r.choice(["Local", "LocalInt", "*Local"]))     # embedded field
            return "struct{" + "; ".join(fs) + "}"
        if k == "iface":
            n = r.randint(0, 2)
            ms = ["Q%d(%s) %s" % (i, self.ty(fx, depth - 1), r.choice(["", "error", "int"])) for i in range(n)]
            return "interface{" + "; ".join(m.strip() for m in ms) + "}"
        return self.named_type(fx)

    # ---------- names ----------
    def name_pool(self, fx):
        quals = [i["qual"] for i in fx["imports"]] + [i["name"] for i in fx["imports"]]
        pool = ["s", "s1", "s2", "s3", "n", "n1", "n2", "b", "f", "v", "err", "ctx", "in", "out", "val", "fn",
                "xMoqParam", "sMoqParam", "sOut", "nOut", "errOut", "t", "t1", "tOut", "x", "y", "z",
                "my_var", "a1", "_x", "X", "Name", "lower", "myInt", "person", "ints", "stringToInt"]
        pool += quals
        pool += [q + "MoqParam" for q in quals[:2]]
        for ini in INITIALISMS:
            pool += [ini.lower(), ini.capitalize(), ini, ini.lower() + "2", "my" + ini.capitalize()]
        return pool

    def params(self, fx, n, allow_variadic=True, results=False, used=None):
        """returns Go text of a parameter list and per-parameter bookkeeping"""
        r = self.r
        mode = r.choice(["named", "named", "unnamed", "mixed_blank"])
        if n == 0:
            return ""
        pool = self.name_pool(fx)
        used = used if used is not None else set()
        out = []
        for i in range(n):
            t = self.ty(fx, r.choice([0, 1, 1, 2, 3]))
            if allow_variadic and i == n - 1 and r.random() < 0.25:
                self.stats["variadic"] += 1
                t = "..." + r.choice(["interface{}", "any", "string", "int", t])
            if mode == "unnamed":
                self.stats["unnamed_results" if results else "unnamed_params"] = \
                    self.stats.get("unnamed_results" if results else "unnamed_params", 0) + 1
                out.append(t)
                continue
            if mode == "mixed_blank" and r.random() < 0.5:
                self.stats["blank_params"] += 1
                out.append("_ " + t)
                continue
            for _ in range(20):
                nm = r.choice(pool)
                if nm not in used and nm not in KEYWORDS and nm not in fx.get("tparams", []):
                    break
            else:
                nm = "p%d" % i
            used.add(nm)
            self.stats["named_results" if results else "named_params"] += 1
            out.append(nm + " " + t)
        return ", ".join(out)

    # ---------- one source package ----------
    def source_package(self, idx):
        r = self.r
        self.stats["packages"] += 1
        pkgname = r.choice(["srcpkg", "p%d" % idx, "store", "api", "client"])
        rel = "src/q%d/%s" % (idx, pkgname if r.random() < 0.8 else "dir%d" % idx)
        pdir = os.path.join(self.root, rel)
        nfiles = r.randint(1, 3)
        # choose imports per file
        avail = [dict(path=MODULE + "/" + p, name=n, flavour=f) for p, n, f in DEP_POOL] + \
                [dict(path=p, name=n, flavour="std", types=ts) for p, n, ts in STDLIB]
        files = []
        ifaces = []
        local_types = ["Local", "*Local", "LocalInt", "LocalIface", "AliasLocal", "DefIface", "GenLocal[string]",
                       "InstAlias", "PtrAlias", "FnLocal", "GenLocal[Local]"]
        for fi in range(nfiles):
            k = r.randint(1, 5)
            chosen = r.sample(avail, k)
            imports = []
            taken = set()
            for c in chosen:
                c = dict(c)
                alias = ""
                if r.random() < 0.3:
                    alias = r.choice(["al%d" % len(imports), c["name"] + "x", "pkg" + c["name"], "v1", "yaml"])
                q = alias or c["name"]
                if q in taken or q in KEYWORDS or not q.replace("_", "a").isalnum():
                    alias = "imp%d_%d" % (fi, len(imports))
                    q = alias
                taken.add(q)
                c["alias"] = alias
                c["qual"] = q
                imports.append(c)
                if alias:
                    self.stats["aliased_imports"] += 1
            fx = {"imports": imports, "used": set(), "local_types": local_types}
            body = []
            for ii in range(r.randint(1, 3)):
                name = "I%d_%d" % (fi, ii) if r.random() < 0.7 else r.choice(["Store", "Reader", "svc"]) + "%d%d" % (fi, ii)
                ifaces.append(name)
                body.append(self.interface(fx, name, ifaces))
            lines = ["package " + pkgname, ""]
            lines.append("import (")
            for c in imports:
                lines.append('\t%s"%s"' % ((c["alias"] + " ") if c["alias"] else "", c["path"]))
            if r.random() < 0.15:
                lines.append('\t_ "%s/dep/alpha"' % MODULE)
                self.stats["blank_imports"] += 1
            dot = r.random() < 0.12 and not any(c["path"].endswith("dep/beta") for c in imports)
            if dot:
                lines.append('\t. "%s/dep/beta"' % MODULE)
                self.stats["dot_imports"] += 1
            lines.append(")")
            lines.append("")
            for c in imports:  # every import must be used
                if c["flavour"] == "std":
                    lines.append("var _ %s.%s" % (c["qual"], c["types"][0]))
                else:
                    lines.append("var _ %s.T" % c["qual"])
            if dot:
                lines.append("var _ MyInt")
                lines.append("type DotUser%d interface{ UseDot(m MyInt, t *T) Slice }" % fi)
                ifaces.append("DotUser%d" % fi)
            lines.append("")
            lines += body
            files.append("\n".join(lines) + "\n")
        decl = "package %s\n\ntype Local struct{ A int }\ntype LocalInt int\ntype LocalIface interface{ L() Local }\n" % pkgname
        decl += "type NotAnIface struct{}\nvar SomeVar int\n"
        decl += "var IfaceVar LocalIface\nvar ErrVar error = nil\nfunc SomeFunc() {}\nconst SomeConst = 1\n"
        decl += "type AliasLocal = Local\ntype DefIface LocalIface\ntype GenLocal[T any] struct{ V T }\n"
        decl += "type InstAlias = GenLocal[int]\ntype PtrAlias = *Local\ntype FnLocal func(Local) (LocalInt, error)\n"
        write(os.path.join(pdir, "a_decl.go"), decl)
        for fi, text in enumerate(files):
            write(os.path.join(pdir, "f%d.go" % fi), text)
        # files the loader must ignore: tests, other platforms, explicitly ignored
        if r.random() < 0.3:
            write(os.path.join(pdir, "zz_extra_test.go"),
                  'package %s\n\nimport yamlx "%s/dep/alpha"\n\nvar _ yamlx.T\n\ntype OnlyInTest interface{ T() }\n'
                  % (pkgname, MODULE))
        if r.random() < 0.3:
            write(os.path.join(pdir, "zz_windows_plan9.go"),
                  '//go:build plan9 && windows\n\npackage %s\n\nimport alpha "%s/dep/beta"\n\nvar _ alpha.T\n'
                  % (pkgname, MODULE))
        if r.random() < 0.2:
            write(os.path.join(pdir, "zz_ignored.go"),
                  '//go:build ignore\n\npackage main\n\nimport beta "%s/dep/alpha"\n\nvar _ beta.T\n' % MODULE)
        # destination subdirectory for -pkg runs, sometimes
        return rel, pkgname, ifaces

    def interface(self, fx, name, known):
        r = self.r
        self.stats["interfaces"] += 1
        tparams = []
        header = name
        if r.random() < 0.2:
            self.stats["generic_ifaces"] += 1
            n = r.randint(1, 3)
            tnames = r.sample(["T", "K", "V", "Key", "S", "Elem"] + (["k", "elem"] if r.random() < 0.1 else []), n)
            cons = []
            for tn in tnames:
                c = r.choice(["any", "any", "comparable", "interface{ String() string }", "~int | ~string", "int | string"])
                cons.append(tn + " " + c)
            header += "[" + ", ".join(cons) + "]"
            tparams = tnames
        fx = dict(fx)
        fx["tparams"] = tparams
        lines = ["type %s interface {" % header]
        nm = r.choice([0, 1, 1, 2, 2, 3, 4, 9])
        mnames = set()
        if r.random() < 0.15 and not tparams:
            self.stats["embedded"] += 1
            lines.append("\tLocalIface")
            mnames.add("L")
        if r.random() < 0.1 and not tparams:
            imp = [i for i in fx["imports"] if i["flavour"] == "std" and i["name"] == "io"]
            if imp:
                lines.append("\t%s.Reader" % imp[0]["qual"])
                fx["used"].add(imp[0]["path"])
                mnames.add("Read")
                self.stats["embedded"] += 1
        for mi in range(nm):
            for _ in range(10):
                mn = r.choice(["Get", "Put", "Close", "Do", "List", "Id", "Url", "Run%d" % mi,
                               "M%d" % mi, "Fetch", "Store", "Json", "HTTP", "Set", "Delete", "Len"])
                if r.random() < 0.02:
                    mn = r.choice(["get", "Reset", "Calls", "GetCalls", "GetFunc"])
                if mn not in mnames:
                    break
            else:
                mn = "Meth%d" % mi
            mnames.add(mn)
            self.stats["methods"] += 1
            np_ = r.choice([0, 0, 1, 1, 2, 2, 3, 4, 6])
            used_names = set()
            ps = self.params(fx, np_, used=used_names)
            self.stats["params"] += np_
            nr = r.choice([0, 0, 1, 1, 2, 3])
            self.stats["results"] += nr
            rs = self.params(fx, nr, allow_variadic=False, results=True, used=used_names)
            res = ""
            if nr == 1 and " " not in rs.split(",")[0].strip().split("(")[0]:
                res = " " + rs if not rs.startswith("func") else " (" + rs + ")"
            elif nr >= 1:
                res = " (" + rs + ")"
            lines.append("\t%s(%s)%s" % (mn, ps, res))
        lines.append("}")
        return "\n".join(lines) + "\n"

    # ---------- cases ----------
    def flags_for(self, pkgname):
        r = self.r
        mode = r.choice(["implicit", "implicit", "implicit", "other", "other", "test"])
        if r.random() < 0.04:
            mode = "same"
        pkg = {"implicit": "", "same": pkgname, "other": "mocks", "test": pkgname + "_test"}[mode]
        self.stats["dest_modes"][mode] = self.stats["dest_modes"].get(mode, 0) + 1
        fl = dict(pkg=pkg, stub=r.random() < 0.4, skip=r.random() < 0.3, resets=r.random() < 0.4)
        key = "".join("1" if fl[k] else "0" for k in ("stub", "skip", "resets"))
        self.stats["flags"][key] = self.stats["flags"].get(key, 0) + 1
        return fl

    def add_cases_for(self, rel, pkgname, ifaces, per_pkg):
        r = self.r
        for ci in range(per_pkg):
            k = r.choice([1, 1, 1, 2, 2, 3, 4])
            args = []
            picked = r.sample(ifaces, min(k, len(ifaces)))
            if r.random() < 0.03:
                picked.append(picked[0])
            for a in picked:
                if r.random() < 0.25:
                    a += ":" + r.choice(["Fake" + a, "M", a + "Stub", "mockOf" + a])
                args.append(a)
            if r.random() < 0.06:
                args.insert(r.randrange(len(args) + 1), r.choice(["Nope", "NotAnIface", "SomeVar", "Local", "", "A:B:C", ":x", "IfaceVar", "ErrVar", "SomeFunc",
                                                            "SomeConst", "LocalInt", "IfaceVar:M2"]))
            self.stats["args_len"][len(args)] = self.stats["args_len"].get(len(args), 0) + 1
            c = dict(id="g-%s-%d" % (rel.replace("/", "_"), ci), dir=os.path.join(self.root, rel), args=args)
            c.update(self.flags_for(pkgname))
            self.cases.append(c)


KEYWORDS = {"break", "case", "chan", "const", "continue", "default", "defer", "else", "fallthrough", "for", "func",
            "go", "goto", "if", "import", "interface", "map", "package", "range", "return", "select", "struct",
            "switch", "type", "var"}


SHAPES_SRC = """package shapes

import (
	"context"
	"io"

	"example.com/m/dep/alpha"
)

var _ alpha.T
var _ io.Reader

type Empty interface{}

type NoArgs interface {
	Close()
	Flush() error
}

type Plain interface {
	Get(ctx context.Context, id string) (alpha.T, error)
	Put(ctx context.Context, t *alpha.T) error
	Observe(bucket int, value float64, final bool)
	Count() int
}

type Variadic interface {
	Logf(format string, args ...interface{})
	Print(v ...any)
	Join(sep string, parts ...string) string
	Sum(ns ...int) (total int, err error)
	Wrap(ts ...alpha.T) []alpha.T
}

type Unnamed interface {
	A(string, int, []byte) (bool, error)
	B(io.Reader, ...io.Writer)
	C(map[string]int, chan<- alpha.T, func(int) error) (n int, err error)
}

type Wide interface {
	M1(a int)
	M2(a, b int) int
	M3(a, b, c int) (int, int)
	M4()
	M5(s string) string
	M6(x float64, y float64, z float64, w float64, v float64, u float64) float64
	M7(p *int)
	M8(e error) error
	M9(b bool)
	M10(ctx context.Context)
}

type Generic[T any, K comparable] interface {
	Load(key K) (T, bool)
	Store(key K, value T)
	Range(f func(K, T) bool)
	Keys() []K
}

type Constrained[N ~int | ~float64, S interface{ String() string }] interface {
	Add(a, b N) N
	Show(s S) string
}

type Embeds interface {
	io.ReadCloser
	Named
	Extra(n int) (m int)
}

type Named interface {
	Div(num, den int) (quo, rem int, err error)
}
"""

SHAPE_IFACES = ["Empty", "NoArgs", "Plain", "Variadic", "Unnamed", "Wide", "Generic", "Constrained", "Embeds", "Named"]


def shape_cases(root):
    d = os.path.join(root, "src", "shapes")
    write(os.path.join(d, "shapes.go"), SHAPES_SRC)
    cases = []
    for name in SHAPE_IFACES:
        for bits in range(8):
            stub, skip, resets = bool(bits & 1), bool(bits & 2), bool(bits & 4)
            for pkg in ("", "mocks"):
                if pkg == "mocks" and bits not in (0, 3, 5, 7):
                    continue
                cases.append(dict(id="shape-%s-%d-%s" % (name, bits, pkg or "same"), dir=d, args=[name], pkg=pkg,
                                  stub=stub, skip=skip, resets=resets, tags=["shape"]))
    cases.append(dict(id="shape-all", dir=d, args=SHAPE_IFACES, pkg="", stub=False, skip=False, resets=True, tags=["shape"]))
    cases.append(dict(id="shape-all-stub", dir=d, args=[n + ":Fake" + n for n in SHAPE_IFACES], pkg="shapes_test", stub=True, skip=False, resets=True, tags=["shape"]))
    return cases


def generate(seed, root, npkgs, per_pkg):
    g = Gen(seed, root)
    g.write_module()
    for i in range(npkgs):
        rel, pkgname, ifaces = g.source_package(i)
        g.add_cases_for(rel, pkgname, ifaces, per_pkg)
    return g.cases, g.stats


if __name__ == "__main__":
    import sys
    cases, stats = generate(int(sys.argv[1]), sys.argv[2], int(sys.argv[3]), int(sys.argv[4]))
    json.dump(cases, open(os.path.join(sys.argv[2], "cases.json"), "w"), indent=1)
    print(json.dumps(stats))
