"""The L1 stage: histories of AddImport / AddVar on the real internal/registry package, built
from synthetic go/types objects (`vh l1`), against the Coq model of registry.go, package.go,
method_scope.go and var.go (`L1Check.l1_verdicts`, vm_compute).  Thousands of adversarial
import-path shapes and naming collisions per minute, no package written for the inputs.
Cached by (tree content, seed, tier)."""
import collections
import json
import os
import re
import shutil
import time

from . import common as C

SIZES = {"quick": 3000, "thorough": 40000}
HEADER = "From Moq Require Import Strs GoTypes Registry Scope L1Check.\n"

# which properties a disagreement is about, by what differs
ABOUT = {
    "names": {"C12", "C13", "C01"},
    "types": {"C10", "C11", "C01", "C02"},
    "imports": {"C11", "C10", "C01"},
    "impl-crash": {"C19"}, "impl-panic": {"C19"}, "model-diverges": {"C19", "C11"}, "model-crash": {"C19"},
    "model-order": {"C14"}, "model-err": {"C19"},
}
OK = {"ok", "ok-diverges", "ok-crash", "skip-order"}
L1_PROPS = {"C01", "C02", "C10", "C11", "C12", "C13", "C14", "C19"}


def about(verdict):
    """the properties a DIFF verdict of L1Check.l1_verdict speaks about"""
    if verdict in OK:
        return set()
    props = set()
    rest = verdict[len("DIFF"):]
    for k, ps in ABOUT.items():
        if ("-" + k) in rest:
            props |= ps
    return props or {"C01", "C11", "C12"}


def run(tools, seed, tier):
    key = "l1-%s-%s-%d" % (tools.key, tier, seed)
    cpath = os.path.join(C.BUILD, "cache", key + ".json")
    if os.path.exists(cpath):
        return json.load(open(cpath))
    with C.locked("stage-l1"):
        if os.path.exists(cpath):
            return json.load(open(cpath))
        t0 = time.time()
        root = C.scratch_dir("l1")
        try:
            opath = os.path.join(root, "obs.jsonl")
            p = C.sh([tools.vh, "l1", "-n", str(SIZES[tier]), "-seed", str(seed), "-root", os.path.join(root, "mod"),
                      "-out", opath, "-shards", str(C.NCPU), "-triples"], timeout=3600)
            if p.returncode != 0:
                raise RuntimeError("vh l1 failed: " + p.stderr[-2000:])
            obs = [json.loads(l) for l in open(opath)]
        finally:
            shutil.rmtree(root, ignore_errors=True)
        items, ids, skipped = [], [], {}
        for o in obs:
            if not o.get("case") or not o.get("obs") or o["kind"] == "skipped":
                skipped[o["id"]] = o.get("text") or o["kind"]
                continue
            if not all(ord(ch) < 127 for ch in o["case"] + o["obs"]):
                skipped[o["id"]] = "not ASCII"
                continue
            items.append("(%s, %s)" % (o["case"], o["obs"]))
            ids.append(o["id"])
        pairs, errors = C.eval_shards("l1", HEADER, items, "l1_verdicts cases")
        verdicts = dict(pairs)
        classes = collections.Counter()

        def split(vs):
            """verdict|known,plain,direct,other -> verdict; the counts are summed"""
            for k in list(vs):
                v, _, cl = vs[k].partition("|")
                vs[k] = v
                if cl:
                    for name, n in zip(("known_or_destination", "no_conflict", "direct_resolution", "other"), cl.split(",")):
                        classes[name] += int(n)
        split(verdicts)
        # a worker that died or timed out under load is not an observation of the code: histories on which
        # the implementation "crashed" while the model terminates run again, a few at a time with a long limit
        again = [o for o in obs if verdicts.get(o["id"]) == "DIFF-impl-crash" and o.get("history")]
        if again:
            root2 = C.scratch_dir("l1b")
            try:
                hp = os.path.join(root2, "again.json")
                json.dump([o["history"] for o in again], open(hp, "w"))
                op2 = os.path.join(root2, "obs.jsonl")
                p = C.sh([tools.vh, "l1", "-only", hp, "-root", os.path.join(root2, "mod"), "-out", op2,
                          "-shards", "2", "-timeout", "300s"], timeout=3600)
                if p.returncode == 0:
                    redo = {}
                    for l in open(op2):
                        o2 = json.loads(l)
                        redo[o2["id"]] = o2
                    obs = [redo.get(o["id"], o) if o["id"] in redo else o for o in obs]
                    items2 = ["(%s, %s)" % (o["case"], o["obs"]) for o in redo.values() if o.get("case") and o.get("obs")]
                    pairs2, errors2 = C.eval_shards("l1b", HEADER, items2, "l1_verdicts cases")
                    v2 = dict(pairs2)
                    split(v2)
                    verdicts.update(v2)
                    errors += errors2
            finally:
                shutil.rmtree(root2, ignore_errors=True)
        hist = []
        kinds = collections.Counter()
        stats = collections.Counter()
        invalid = []
        for o in obs:
            v = verdicts.get(o["id"])
            kinds[v or "not-evaluated"] += 1
            # the inputs are legal (declared names are identifiers, type names are identifiers): a name
            # AddVar hands out that is not an identifier is a failing input for C12 / C13 as it stands
            bad = [n for sc in (o.get("names") or []) for n in sc if not re.match(r"^[A-Za-z_][A-Za-z0-9_]*$", n)]
            if bad:
                invalid.append(dict(id=o["id"], verdict=v, names=bad, history=o.get("history"), observed=o.get("obs")))
            for k, n in (o.get("stats") or {}).items():
                stats[k] += n
            if v is None or v not in OK:
                hist.append(dict(id=o["id"], verdict=v, kind=o["kind"], text=(o.get("text") or "")[:300],
                                 history=o.get("history"), observed=o.get("obs"), skipped=skipped.get(o["id"])))
        res = dict(n=len(obs), evaluated=len(pairs), add_import_classes=dict(classes), verdicts=dict(kinds), stats=dict(stats), skipped=len(skipped),
                   disagreements=[h for h in hist if h["verdict"] is not None], invalid_names=invalid[:20],
                   not_evaluated=[h for h in hist if h["verdict"] is None][:5],
                   errors=[e[1][-600:] for e in errors], seconds=round(time.time() - t0, 1))
        os.makedirs(os.path.dirname(cpath), exist_ok=True)
        json.dump(res, open(cpath, "w"))
        return res
