"""L3: the real moq binary on scratch trees, with prior states of the -out path and the
fault injections that work as root.  Every run is snapshotted before/after.  The Coq model
of main.run (Cli.v) is evaluated on the same scenario (vm_compute) and must predict the
exit status, what reached stdout and what the file system looks like afterwards."""
import hashlib
import json
import os
import shutil
import subprocess
import time

from . import common as C
from . import gen

SRC = """package store

import "context"

type Item struct{ ID string }

type Store interface {
	Get(ctx context.Context, id string) (*Item, error)
	Put(ctx context.Context, it *Item) error
}

type Lister interface {
	List(ctx context.Context) ([]Item, error)
}

type NotIface struct{}

var Default Store

var ErrNotFound error

func Helper() {}

const Limit = 3
"""
OLD_SRC_IFACE = """package store

import "context"

type Item struct{ ID string }

type Store interface {
	Get(ctx context.Context, id string) (*Item, error)
}

type Lister interface {
	List(ctx context.Context) ([]Item, error)
}

type NotIface struct{}
"""
GARBAGE = "this is not Go source {{{\n"


def snapshot(root):
    snap = {}
    for d, subs, fs in os.walk(root):
        rel = os.path.relpath(d, root)
        snap[rel + "/"] = "dir"
        snap[rel + "/#mode"] = "%o" % (os.stat(d).st_mode & 0o7777)
        for f in fs:
            p = os.path.join(d, f)
            try:
                with open(p, "rb") as fh:
                    snap[os.path.relpath(p, root)] = hashlib.sha256(fh.read()).hexdigest()
                snap[os.path.relpath(p, root) + "#mode"] = "%o" % (os.stat(p).st_mode & 0o7777)
            except OSError as e:
                snap[os.path.relpath(p, root)] = "unreadable:%s" % e.errno
    return snap


def diff(a, b):
    out = {}
    for k in set(a) | set(b):
        if a.get(k) != b.get(k):
            out[k] = (a.get(k), b.get(k))
    return out


class Scenario:
    def __init__(self, name, out=None, rm=False, args=("Store",), pkg="", prior=None, fault=None, flags=(),
                 old_iface=False, expect_gen_err=False):
        self.name, self.out, self.rm, self.args, self.pkg = name, out, rm, list(args), pkg
        self.prior, self.fault, self.flags = prior, fault, list(flags)
        self.old_iface, self.expect_gen_err = old_iface, expect_gen_err


def flag_on(flags, name):
    """the value a boolean flag has after Go's flag package parsed it: bare or =true forms are true,
    explicit =false forms (and absence) are false"""
    on = False
    for f in flags:
        if f == name:
            on = True
        elif f.startswith(name + "="):
            on = f.split("=", 1)[1] in ("1", "t", "T", "true", "TRUE", "True")
    return on


def scenarios():
    S = []
    outs = ["store_moq.go", "a_moq.go", "zz/deep/store_moq.go"]
    for rm in (False, True):
        S.append(Scenario("stdout" + ("-rm" if rm else ""), out=None, rm=rm))
        S.append(Scenario("notiface-ifacevar-stdout" + ("-rm" if rm else ""), out=None, rm=rm, args=("Store", "Default"),
                          expect_gen_err=True))
        for out in outs:
            tag = out.replace("/", "_") + ("-rm" if rm else "")
            pkg = "deep" if "/" in out else ""
            S.append(Scenario("fresh-" + tag, out=out, rm=rm, pkg=pkg))
            S.append(Scenario("own-" + tag, out=out, rm=rm, pkg=pkg, prior="own"))
            S.append(Scenario("older-" + tag, out=out, rm=rm, pkg=pkg, prior="older"))
            S.append(Scenario("garbage-" + tag, out=out, rm=rm, pkg=pkg, prior="garbage"))
            S.append(Scenario("shrink-" + tag, out=out, rm=rm, pkg=pkg, prior="bigger"))
            S.append(Scenario("relayout-" + tag, out=out, rm=rm, pkg=pkg, prior="noop"))
            S.append(Scenario("two-" + tag, out=out, rm=rm, pkg=pkg, args=("Store", "Lister:FakeLister"),
                              flags=("-stub", "-with-resets")))
            # failures at each stage
            S.append(Scenario("unknown-k2-" + tag, out=out, rm=rm, pkg=pkg, args=("Store", "Nope", "Lister"),
                              prior="own", expect_gen_err=True))
            S.append(Scenario("notiface-" + tag, out=out, rm=rm, pkg=pkg, args=("NotIface",), prior="own",
                              expect_gen_err=True))
            if out == "store_moq.go":
                for nm, a in (("ifacevar", ("Store", "Default")), ("errvar", ("ErrNotFound",)),
                              ("func", ("Helper", "Store")), ("const", ("Store", "Limit"))):
                    S.append(Scenario("notiface-%s-%s" % (nm, tag), out=out, rm=rm, pkg=pkg, args=a, prior="own",
                                      expect_gen_err=True))
            S.append(Scenario("badname-" + tag, out=out, rm=rm, pkg=pkg, args=("Store:bad-name",), prior="own",
                              expect_gen_err=True))
            S.append(Scenario("noargs-" + tag, out=out, rm=rm, pkg=pkg, args=(), prior="own"))
            S.append(Scenario("outisdir-" + tag, out=out, rm=rm, pkg=pkg, fault="out-is-dir"))
        if not rm:
            for nm, fl in (("stub", ["-stub"]), ("skip", ["-skip-ensure"]), ("resets", ["-with-resets"]),
                           ("fmtnoop", ["-fmt", "noop"]), ("fmtgoimports", ["-fmt", "goimports"]),
                           ("fmtgofmt", ["-fmt", "gofmt"]), ("all", ["-stub", "-skip-ensure", "-with-resets"])):
                S.append(Scenario("flag-" + nm, out="store_moq.go", flags=fl))
                S.append(Scenario("flag-" + nm + "-stdout", out=None, flags=fl, args=("Store", "Lister:L2")))
        if not rm:
            # boolean flags with explicit values
            for nm, fl in (("resets-false", ["-with-resets=false"]), ("stub-false-resets-true", ["-stub=false", "-with-resets=true"]),
                           ("skip-0-stub-1", ["-skip-ensure=0", "-stub=1"]), ("all-false", ["-stub=false", "-skip-ensure=F", "-with-resets=0"])):
                S.append(Scenario("flagval-" + nm + "-stdout", out=None, flags=fl, args=("Store", "Lister:L2")))
        S.append(Scenario("parentisfile" + ("-rm" if rm else ""), out="blocker/x_moq.go", rm=rm, pkg="blocker",
                          fault="parent-is-file"))
        S.append(Scenario("syntaxerr" + ("-rm" if rm else ""), out="store_moq.go", rm=rm, prior="own",
                          fault="syntax-error", expect_gen_err=True))
        # the parent of -out exists already, with a mode of its own
        S.append(Scenario("privdir" + ("-rm" if rm else ""), out="priv/store_moq.go", rm=rm, pkg="priv",
                          fault="parent-private"))
        # the usual layout: ./mocks already holds package mocks
        S.append(Scenario("mocksdir" + ("-rm" if rm else ""), out="mocks/store_moq.go", rm=rm, pkg="mocks",
                          fault="mocks-dir"))
        if not rm:
            # another package that happens to have the source package's name (and its own Item)
            # (without -skip-ensure the self-check line is the known finding explicit_same_pkg, D15)
            S.append(Scenario("samename-skip", out="../alt/store/store_moq.go", pkg="store", fault="same-name-dest",
                              flags=("-skip-ensure",)))
        # -out as an absolute path, over garbage and over moq's own output
        S.append(Scenario("absout-garbage" + ("-rm" if rm else ""), out="store_moq.go", rm=rm, prior="garbage", fault="abs-out"))
        S.append(Scenario("absout-own" + ("-rm" if rm else ""), out="store_moq.go", rm=rm, prior="own", fault="abs-out"))
        # started from the module root, with -pkg and a relative -out next to the source package
        S.append(Scenario("fromroot" + ("-rm" if rm else ""), out="mocks/store_moq.go", rm=rm, pkg="mocks",
                          fault="from-root"))
        S.append(Scenario("fromroot-inplace" + ("-rm" if rm else ""), out="store_moq.go", rm=rm, fault="from-root"))
        S.append(Scenario("gomodsync" + ("-rm" if rm else ""), out="../outside/store_moq.go", rm=rm, pkg="outside",
                          fault="gomod-out-of-sync", expect_gen_err=True))
    return S


def run_one(tools, base, sc, ref_cache):
    """materialises the scenario in a fresh copy, runs moq, returns the observation"""
    root = base + "-" + hashlib.md5(sc.name.encode()).hexdigest()[:8]
    shutil.rmtree(root, ignore_errors=True)
    pkgdir = os.path.join(root, "store")
    os.makedirs(pkgdir)
    with open(os.path.join(root, "go.mod"), "w") as f:
        f.write("module example.com/l3\n\ngo 1.24\n")
    with open(os.path.join(pkgdir, "store.go"), "w") as f:
        f.write(SRC)
    with open(os.path.join(root, "sibling.txt"), "w") as f:
        f.write("sibling\n")
    os.makedirs(os.path.join(root, "other"))
    with open(os.path.join(root, "other", "other.go"), "w") as f:
        f.write("package other\n")
    outabs = os.path.join(pkgdir, sc.out) if sc.out else None
    base_flags = list(sc.flags) + (["-pkg", sc.pkg] if sc.pkg else [])

    def moq(args, cwd=pkgdir, env=None):
        p = subprocess.run([tools.moq] + args, cwd=cwd, env=env or C.goenv(), stdout=subprocess.PIPE,
                           stderr=subprocess.PIPE, text=True, timeout=120)
        return p.returncode, p.stdout, p.stderr

    # reference bytes: what the same command prints to stdout on the clean package
    key = json.dumps([base_flags, sc.args])
    if key not in ref_cache:
        rc, so, se = moq(base_flags + ["."] + sc.args)
        ref_cache[key] = (rc, so, se)
    ref = ref_cache[key]
    prior_content = None
    if sc.prior and outabs:
        os.makedirs(os.path.dirname(outabs), exist_ok=True)
        if sc.prior == "own":
            rc, so, se = moq(base_flags + ["."] + ["Store"])
            prior_content = so
        elif sc.prior == "older":
            with open(os.path.join(pkgdir, "store.go"), "w") as f:
                f.write(OLD_SRC_IFACE)
            rc, so, se = moq(base_flags + ["."] + ["Store"])
            prior_content = so
            with open(os.path.join(pkgdir, "store.go"), "w") as f:
                f.write(SRC)
        elif sc.prior == "noop":
            rc, so, se = moq(["-fmt", "noop"] + base_flags + ["."] + ["Store"])
            prior_content = so
        elif sc.prior == "bigger":
            rc, so, se = moq(base_flags + ["."] + ["Store", "Lister"])
            prior_content = so
        elif sc.prior == "garbage":
            prior_content = GARBAGE
        with open(outabs, "w") as f:
            f.write(prior_content)
        # directories created for the prior file are part of the initial state
    if sc.fault == "out-is-dir" and outabs:
        os.makedirs(os.path.join(outabs, "keep"), exist_ok=True)
        with open(os.path.join(outabs, "keep", "x.txt"), "w") as f:
            f.write("x")
    if sc.fault == "parent-is-file":
        with open(os.path.join(pkgdir, "blocker"), "w") as f:
            f.write("i am a file\n")
    run_env = None
    if sc.fault == "gomod-out-of-sync":
        # the module file lacks the requirement for a replaced dependency: loading must fail and
        # leave go.mod alone (the go command is run without -mod=mod here, as a user would)
        os.makedirs(os.path.join(root, "dep"))
        with open(os.path.join(root, "dep", "go.mod"), "w") as f:
            f.write("module example.com/dep\n\ngo 1.24\n")
        with open(os.path.join(root, "dep", "dep.go"), "w") as f:
            f.write("package dep\n\ntype T struct{}\n")
        with open(os.path.join(root, "go.mod"), "a") as f:
            f.write("\nreplace example.com/dep => ./dep\n")
        with open(os.path.join(pkgdir, "uses_dep.go"), "w") as f:
            f.write('package store\n\nimport "example.com/dep"\n\nvar _ dep.T\n')
        run_env = C.goenv()
        run_env.pop("GOFLAGS", None)
    if sc.fault == "mocks-dir":
        os.makedirs(os.path.join(pkgdir, "mocks"))
        with open(os.path.join(pkgdir, "mocks", "doc.go"), "w") as f:
            f.write("// Package mocks holds generated mocks.\npackage mocks\n")
    if sc.fault == "parent-private":
        os.makedirs(os.path.join(pkgdir, "priv"))
        os.chmod(os.path.join(pkgdir, "priv"), 0o700)
    if sc.fault == "same-name-dest":
        os.makedirs(os.path.join(root, "alt", "store"))
        with open(os.path.join(root, "alt", "store", "decoy.go"), "w") as f:
            f.write("package store\n\ntype Item struct{ Decoy int }\n")
    if sc.fault == "syntax-error":
        with open(os.path.join(pkgdir, "broken.go"), "w") as f:
            f.write("package store\nfunc {\n")
    before = snapshot(root)
    args = (["-out", sc.out] if sc.out else []) + (["-rm"] if sc.rm else []) + base_flags + ["."] + sc.args
    if sc.fault == "abs-out":
        # -out given as an absolute path into the source package
        args = ["-out", outabs] + (["-rm"] if sc.rm else []) + base_flags + ["."] + sc.args
        rc, so, se = moq(args, env=run_env)
    elif sc.fault == "from-root":
        # the same run started from the module root: source directory and -out are relative to THAT directory
        args = (["-out", os.path.normpath(os.path.join("store", sc.out))] + (["-rm"] if sc.rm else []) + base_flags
                + ["store"] + sc.args)
        rc, so, se = moq(args, cwd=root, env=run_env)
    else:
        rc, so, se = moq(args, env=run_env)
    after = snapshot(root)
    out_after = None
    if outabs and os.path.isfile(outabs):
        out_after = open(outabs).read()
    obs = dict(name=sc.name, out=sc.out, rm=sc.rm, args=sc.args, flags=base_flags, prior=sc.prior, fault=sc.fault,
               must_fail=sc.expect_gen_err,
               rc=rc, stdout=so, stderr=se, changed=diff(before, after), out_after=out_after,
               prior_content=prior_content, ref_rc=ref[0], ref_stdout=ref[1], ref_stdout_full=ref[1], root=root,
               out_matches_ref=(out_after == ref[1]) if (rc == 0 and outabs and ref[0] == 0) else None)
    if sc.fault in ("same-name-dest", "mocks-dir") and rc == 0:
        # the mock now lives in a different package: it must compile there and implement the interface
        dest, dpkg = ("alt/store", "store") if sc.fault == "same-name-dest" else ("store/mocks", "mocks")
        with open(os.path.join(root, dest, "zz_assert.go"), "w") as f:
            f.write('package %s\n\nimport src "example.com/l3/store"\n\nvar _ src.Store = &StoreMock{}\n' % dpkg)
        b = subprocess.run(["go", "vet", "./" + dest + "/"], cwd=root, env=C.goenv(), stdout=subprocess.PIPE,
                           stderr=subprocess.STDOUT, text=True, timeout=300)
        obs["dest_build"] = (b.returncode == 0)
        obs["dest_build_err"] = b.stdout[-600:]
    # the same source package, arguments and flags from another working directory and under the
    # environment `go generate` sets: the output is a function of package and options only (C14)
    if rc == 0 and not sc.out and not sc.pkg and sc.fault is None and ref[0] == 0:
        env2 = dict(run_env or C.goenv(), GOPACKAGE="tools", GOFILE="gen.go", GOLINE="3", GOARCH="amd64", GOOS="linux")
        rc3, so3, se3 = moq(base_flags + ["store"] + sc.args, cwd=root, env=env2)
        obs["cwd_same"] = (rc3 == 0 and so3 == ref[1])
        obs["cwd_diff"] = "" if obs["cwd_same"] else (se3[:200] or so3[:400])
    # a second run in place: regeneration over moq's own output (C15)
    if rc == 0 and outabs and sc.fault is None:
        rc2, so2, se2 = moq(args)
        obs["regen_rc"] = rc2
        obs["regen_same"] = os.path.isfile(outabs) and open(outabs).read() == out_after
        obs["regen_err"] = se2[:300]
    shutil.rmtree(root, ignore_errors=True)
    return obs


def path_term(rel):
    return C.coq_list([C.coq_str(x) for x in rel.split("/")]) if rel else "[]"


def coq_case(o):
    """the same scenario for Cli.run: file system restricted to the paths that matter"""
    out = o["out"] or ""
    comps = out.split("/") if out else []
    entries = []
    # the package directory is the root of the model's paths; ancestors of out that exist initially
    if o["prior"] and out:
        for i in range(1, len(comps)):
            entries.append((comps[:i], "NDir"))
        same_pkg = len(comps) == 1
        if o["prior"] == "own" and o["prior_content"] == o["ref_stdout"]:
            content = "NEW"
        elif o["prior"] in ("garbage", "older") and same_pkg:
            content = "PRIOR_GARBAGE"     # makes the package unloadable: garbage, or a mock that no
                                          # longer implements the interface (its self-check fails)
        else:
            content = "PRIOR_OK"
        entries.append((comps, "(NFile %s)" % content))
    if o["fault"] == "out-is-dir":
        for i in range(1, len(comps)):
            entries.append((comps[:i], "NDir"))
        entries.append((comps, "NDir"))
    if o["fault"] == "parent-is-file":
        entries.append((comps[:1], '(NFile "blocker")'))
    if o["fault"] in ("same-name-dest", "parent-private", "mocks-dir"):
        for i in range(1, len(comps)):
            entries.append((comps[:i], "NDir"))
    fs_items = ["(%s, %s)" % (C.coq_list([C.coq_str(c) for c in p]), n) for p, n in entries]
    # the generator oracle: fails when the package does not load (garbage file present, syntax
    # error) or when Mock fails (lookup / format); otherwise the reference bytes
    nargs = 1 + len(o["args"])
    if o["ref_rc"] != 0 or o["fault"] in ("syntax-error", "gomod-out-of-sync"):
        gen = "(fun _ => GenErr \"gen\")"
    else:
        gen = ("(fun f => match f %s with Some (NFile c) => if String.eqb c PRIOR_GARBAGE then GenErr \"load\" "
               "else GenOk NEW | _ => GenOk NEW end)" % path_term(out)) if out else "(fun _ => GenOk NEW)"
    return "(%s, %s, %s, (mkFlags %s %s %d))" % (C.coq_str(o["name"]), C.coq_list(fs_items), gen, path_term(out),
                                                "true" if o["rm"] else "false", nargs)


CLI_HEADER = """From Moq Require Import Strs Cli.
Definition PRIOR_OK := "prior".
Definition PRIOR_GARBAGE := "garbage".
Definition NEW := "new".
Definition mkfs (l : list (path * node)) : fs :=
  fun p => match find (fun kv => path_eqb (fst kv) p) l with Some kv => Some (snd kv) | None => None end.
Definition show_node (o : option node) : string :=
  match o with
  | None => "absent"
  | Some NDir => "dir"
  | Some (NFile c) => "file:" ++ c
  end.
Definition predict (c : string * list (path * node) * (fs -> gen_result) * flags) : string * string :=
  let '(name, l, gen, fl) := c in
  let r := run gen no_faults fl (mkfs l) in
  (name, (match oc_err r with None => "ok" | Some _ => "err" end) ++ "|" ++
         (if String.eqb (oc_stdout r) "" then "nostdout" else "stdout") ++ "|" ++
         show_node (oc_fs r (fl_out fl)) ++ "|" ++
         concat_all (map (fun a => show_node (oc_fs r a) ++ ",") (ancestors (fl_out fl)))).
"""


def observed_summary(o):
    out = o["out"] or ""
    comps = out.split("/") if out else []
    go_on_stdout = ("package " in o["stdout"]) or ("Code generated" in o["stdout"])
    if not out:
        node = "absent"
    else:
        root_rel = "store/" + out
        # classify the node at out after the run
        if o["out_after"] is not None:
            if o["out_after"] == o["ref_stdout"] and o["ref_rc"] == 0:
                node = "file:new"
            elif o["prior_content"] is not None and o["out_after"] == o["prior_content"]:
                same_pkg = len(comps) == 1
                node = "file:garbage" if (o["prior"] in ("garbage", "older") and same_pkg) else "file:prior"
            else:
                node = "file:OTHER"
        else:
            node = "dir" if o["fault"] == "out-is-dir" else "absent"
    anc = ""
    for i in range(1, len(comps)):
        rel = os.path.normpath("store/" + "/".join(comps[:i]))
        # after-state of the ancestor: from the change list and the initial facts
        ch = o["changed"].get(rel + "/")
        if ch is not None:
            state = "dir" if ch[1] == "dir" else "absent"
        else:
            existed = bool(o["prior"]) or o["fault"] in ("out-is-dir", "same-name-dest", "parent-private", "mocks-dir")
            if o["fault"] == "parent-is-file":
                state = "file:blocker"
            else:
                state = "dir" if existed else "absent"
        anc += state + ","
    return "%s|%s|%s|%s" % ("ok" if o["rc"] == 0 else "err", "stdout" if go_on_stdout else "nostdout", node, anc)


def run(tools, seed, tier):
    key = "cli-%s-%s-%d" % (tools.key, tier, seed)
    cpath = os.path.join(C.BUILD, "cache", key + ".json")
    if os.path.exists(cpath):
        return json.load(open(cpath))
    with C.locked("stage-cli"):
        if os.path.exists(cpath):
            return json.load(open(cpath))
        t0 = time.time()
        base = C.scratch_dir("cli")
        try:
            import concurrent.futures
            ref_cache = {}
            scs = scenarios()
            # warm the reference cache sequentially (few distinct commands)
            obs = []
            with concurrent.futures.ThreadPoolExecutor(max_workers=C.NCPU) as ex:
                futs = [ex.submit(run_one, tools, os.path.join(base, "w"), sc, ref_cache) for sc in scs]
                for f in futs:
                    obs.append(f.result())
            # flag wiring: what the CLI printed must be what the LIBRARY produces for the configuration
            # the flags are documented to select
            libcases, seen = [], {}
            libdir = os.path.join(base, "lib", "store")
            os.makedirs(libdir)
            with open(os.path.join(base, "lib", "go.mod"), "w") as f:
                f.write("module example.com/l3\n\ngo 1.24\n")
            with open(os.path.join(libdir, "store.go"), "w") as f:
                f.write(SRC)
            for o in obs:
                key = json.dumps([o["flags"], o["args"]])
                if key in seen or not o["args"]:
                    continue
                fl = o["flags"]
                fmtv = fl[fl.index("-fmt") + 1] if "-fmt" in fl else ""
                pkgv = fl[fl.index("-pkg") + 1] if "-pkg" in fl else ""
                seen[key] = "lib%d" % len(libcases)
                libcases.append(dict(id=seen[key], dir=libdir, pkg=pkgv, stub=flag_on(fl, "-stub"),
                                     skip=flag_on(fl, "-skip-ensure"), resets=flag_on(fl, "-with-resets"),
                                     args=o["args"], formatter=fmtv))
            lib = {}
            if libcases:
                from . import l2 as L2
                for r in L2.run_impl(tools, libcases, base):
                    lib[r["id"]] = r
            for o in obs:
                key = json.dumps([o["flags"], o["args"]])
                r = lib.get(seen.get(key))
                o["lib_kind"] = r["kind"] if r else None
                o["lib_matches"] = None
                if r and r["kind"] == "out" and o["ref_rc"] == 0:
                    o["lib_matches"] = (r["text"] == o["ref_stdout_full"])
                elif r and r["kind"] == "err" and o["ref_rc"] == 0:
                    o["lib_matches"] = False
            items = [coq_case(o) for o in obs]
            pairs, errors = C.eval_shards("cli", CLI_HEADER, items, "map predict cases", nshards=4)
            pred = dict(pairs)
            for o in obs:
                o["model"] = pred.get(o["name"])
                o["observed"] = observed_summary(o)
                o["stdout"] = o["stdout"][:400]
                o["ref_stdout"] = o["ref_stdout"][:200]
                o.pop("ref_stdout_full", None)
                for k in ("out_after", "prior_content"):
                    if o.get(k):
                        o[k] = o[k][:200]
            res = dict(seed=seed, tier=tier, obs=obs, errors=[e[1][-1500:] for e in errors],
                       timing=dict(total=time.time() - t0))
            os.makedirs(os.path.dirname(cpath), exist_ok=True)
            json.dump(res, open(cpath + ".tmp", "w"))
            os.replace(cpath + ".tmp", cpath)
            return res
        finally:
            shutil.rmtree(base, ignore_errors=True)
