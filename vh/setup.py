import sys
from . import common as C

def main():
    try:
        tools = C.build_tools()
        unbuilt, log = C.coq_prepare(tools)
    except C.BuildError as e:
        print("setup failed:", e)
        sys.exit(1)
    if unbuilt:
        print("Coq files that did not compile:", sorted(unbuilt))
        print(log[-3000:])
        sys.exit(1)
    print("setup ok")

if __name__ == "__main__":
    main()
