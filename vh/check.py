"""./check <ID> [--tier quick|thorough] [--replay path] -- decides one property.

Exit 0: every obligation of the property is discharged by the Coq kernel, the model is
tied to /repo's current source (translation + correspondence), and the property's
oracle found no failure on the real implementation outside the recorded known findings.
Exit 1 + "VIOLATION property=<id> replay=<path>" otherwise."""
import argparse
import json
import os
import sys
import time

from . import common as C
from . import props


def main():
    ap = argparse.ArgumentParser()
    ap.add_argument("pid")
    ap.add_argument("--tier", default=os.environ.get("VERIF_TIER") or "quick")
    ap.add_argument("--replay")
    a = ap.parse_args()
    if a.tier not in ("quick", "thorough"):
        a.tier = "quick"
    try:
        seed = int(os.environ.get("VERIF_SEED", "1"))
    except ValueError:
        seed = 1
    if a.pid not in props.PROPS:
        print("unknown property", a.pid)
        sys.exit(2)
    if a.replay:
        sys.exit(props.replay(a.pid, a.replay))
    t0 = time.time()
    ctx = props.Ctx(a.pid, a.tier, seed, t0)
    try:
        ctx.tools = C.build_tools()
        ctx.unbuilt, ctx.coq_log = C.coq_prepare(ctx.tools)
    except C.BuildError as e:
        # /repo (or the harness against it) does not build: nothing can be shown
        d = C.write_replay(a.pid, {"kind": "build-error", "error": str(e)})
        C.write_evidence(a.pid, a.tier, seed,
                         {"obligations": 1, "discharged": 0, "checker_cmd": "go build", "trusted_base": [],
                          "evaluations": 0, "distinct_nontrivial": 0, "rule": "build failed", "samples": [str(e)[:300]]},
                         time.time() - t0, 1, [])
        print("VIOLATION property=%s replay=%s no-failing-input-found" % (a.pid, d))
        sys.exit(1)
    rc = props.run(ctx)
    sys.exit(rc)


if __name__ == "__main__":
    main()
