"""Renders seeded/RESULTS.json (written by vh.seedrun) as seeded/TABLE.md: which registered checks raise an
alarm on which seeded breaking change."""
import json
import os

ROOT = os.path.dirname(os.path.dirname(os.path.abspath(__file__)))


def main():
    import sys
    sd = os.path.join(ROOT, "seeded")
    rpath = os.path.join(sd, "RESULTS.json")
    res = json.load(open(rpath)) if os.path.exists(rpath) else {}
    for extra in sys.argv[1:]:          # results of runs on other snapshots: merged in (later files win)
        res.update(json.load(open(extra)))
    if sys.argv[1:]:
        json.dump(res, open(rpath, "w"), indent=1)
    lines = ["# Seeded breaking changes and the checks that catch them", "",
             "Written by `python3 -m vh.seedtable` from `seeded/RESULTS.json` (one run of `python3 -m vh.seedrun "
             "<scratch copy of /repo>`: patch applied, every quick check run with VERIF_REPO pointing at the copy, "
             "patch undone).  `target` is the property the change was written to break; `how` is what the target "
             "check reported first.", "",
             "| change | round | target | caught by target | how | other checks that alarm | mechanism |",
             "|---|---|---|---|---|---|---|"]
    n = hit = 0
    for name in sorted(res):
        row = res[name]
        meta = json.load(open(os.path.join(sd, name, "meta.json")))
        if "error" in row:
            lines.append("| %s | | | %s | | | |" % (name, row["error"]))
            continue
        n += 1
        hit += bool(row.get("caught_by_target"))
        tr = row.get("target_replay") or {}
        how = ""
        if isinstance(tr, dict):
            if tr.get("kind") == "failing-input":
                how = "failing input `%s`: %s" % (tr.get("case"), (tr.get("what") or "")[:110].replace("|", "/").replace("\n", " "))
            elif tr.get("kind"):
                ob = tr.get("broken_obligations") or []
                how = "no failing input; " + ("obligation: " + "; ".join(str(o)[:60] for o in ob[:2]) if ob else "correspondence broke")
        others = [p for p in row.get("caught_by", []) if p != row["target"]]
        summ = (meta.get("summary") or "").replace("|", "/").replace("\n", " ")
        lines.append("| %s | %s | %s | %s | %s | %s | %s |" % (
            name, meta.get("round", 1), row["target"], "yes" if row.get("caught_by_target") else "**no**", how,
            " ".join(others), summ[:220] + ("..." if len(summ) > 220 else "")))
    lines += ["", "%d changes, %d caught by the check of the property they were written to break." % (n, hit), ""]
    open(os.path.join(sd, "TABLE.md"), "w").write("\n".join(lines))
    print("%d changes, %d caught by target" % (n, hit))


if __name__ == "__main__":
    main()
