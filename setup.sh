#!/bin/bash
# Builds the framework from files on disk only: the Go tools (moq + harness, from /repo's
# working tree), the regenerated Coq files and the whole Coq development (full .vo build).
cd "$(dirname "$0")" || exit 2
exec python3 -m vh.setup
